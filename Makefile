# Build of the verification harnesses against the *current working tree* of fix8 (REPO).
# Driven by vp/build.py (which holds a flock); can be run by hand:  make -j16 all
#
#   REPO     fix8 source tree (default /repo)
#   B        build directory for that tree (default build/main; vp/build.py keys it by REPO)
#
# Variants (same sources, different flags):
#   plain  -O2                                    f8c, big numeric enumerations
#   san    -O1 ASan+UBSan (no alignment)          every sequential harness (sanitizers are oracles)
#   sched  -O1 ASan + -include ff_shim.hpp        harnesses under the cooperative scheduler
#   tsan   -O1 TSan  + -include ff_shim.hpp       race pass of the same harnesses
REPO ?= /repo
B    ?= build/main
V    := $(CURDIR)
CXX  := g++
CC   := gcc

# f8config.h is configure-generated and untracked; fall back to the committed copy if the tree has none
CFGINC := $(if $(wildcard $(REPO)/include/fix8/f8config.h),,-I$(V)/support/cfginc)
INC    := -I$(REPO)/include -I$(REPO)/include/fix8 -I$(REPO)/runtime $(CFGINC) -I$(V)/engines -I$(V)/harness
COMMON := -g -pthread -w -fno-omit-frame-pointer $(INC)

FLAGS_plain := -O2
FLAGS_san   := -O1 -fsanitize=address,undefined -fno-sanitize=alignment,vptr -fno-sanitize-recover=undefined
FLAGS_sched := -O1 -fsanitize=address -DVERIF_SCHED -include $(V)/engines/sched/ff_shim.hpp
FLAGS_schedp := -O1 -DVERIF_SCHED -include $(V)/engines/sched/ff_shim.hpp
FLAGS_tsan  := -O1 -fsanitize=thread -DVERIF_SCHED -DVERIF_TSAN -include $(V)/engines/sched/ff_shim.hpp
GENFLAGS_plain := -O0
GENFLAGS_san   := -O0 -fsanitize=address
GENFLAGS_sched := -O0 -fsanitize=address
GENFLAGS_schedp := -O0
GENFLAGS_tsan  := -O0 -fsanitize=thread
VARIANTS := plain san sched schedp tsan

LIBS := -lPocoFoundation -lPocoNet -lPocoUtil -lz -lpthread -ldl

RT_SRCS := xml f8utils message traits session logger persist connection configuration consolemenu filepersist f8measure gzstream
F8C_SRCS := f8c f8cutils f8precomp

define VARIANT_RULES
# flags stamp: rewritten only when the flags of this variant change; every object of the variant depends on it
$(B)/$(1)/.flags: FORCE
	@mkdir -p $$(dir $$@)
	@echo '$$(FLAGS_$(1)) $$(GENFLAGS_$(1)) $(COMMON)' | cmp -s - $$@ || echo '$$(FLAGS_$(1)) $$(GENFLAGS_$(1)) $(COMMON)' > $$@
$(B)/$(1)/rt/%.o: $(REPO)/runtime/%.cpp $(B)/$(1)/.flags
	@mkdir -p $$(dir $$@)
	$(CXX) $(COMMON) $$(FLAGS_$(1)) -MMD -MP -c $$< -o $$@
$(B)/$(1)/rt/modp_numtoa.o: $(REPO)/runtime/modp_numtoa.c $(B)/$(1)/.flags
	@mkdir -p $$(dir $$@)
	$(CC) -g -w $$(filter-out -include $(V)/engines/sched/ff_shim.hpp,$$(FLAGS_$(1))) -fno-omit-frame-pointer $(INC) -MMD -MP -c $$< -o $$@
$(B)/$(1)/librt.a: $$(foreach s,$(RT_SRCS),$(B)/$(1)/rt/$$(s).o) $(B)/$(1)/rt/modp_numtoa.o
	@rm -f $$@
	ar rcs $$@ $$^
# generated schema code: three TUs per schema compiled in parallel at -O0 (ASan/TSan only, no UBSan: the generated
# tables are huge and the full flags cost minutes), then combined with ld -r
$(B)/$(1)/gen/utest_%.o: $(B)/$(1)/.flags | $(B)/gen/utest/.stamp
	@mkdir -p $$(dir $$@)
	$(CXX) $(COMMON) $$(GENFLAGS_$(1)) -g1 -I$(B)/gen/utest -MMD -MP -c $(B)/gen/utest/utest_$$*.cpp -o $$@
$(B)/$(1)/gen/fix44_%.o: $(B)/$(1)/.flags | $(B)/gen/fix44/.stamp
	@mkdir -p $$(dir $$@)
	$(CXX) $(COMMON) $$(GENFLAGS_$(1)) -g1 -I$(B)/gen/fix44 -MMD -MP -c $(B)/gen/fix44/fix44_$$*.cpp -o $$@
$(B)/$(1)/gen_utest.o: $(B)/$(1)/gen/utest_types.o $(B)/$(1)/gen/utest_traits.o $(B)/$(1)/gen/utest_classes.o
	ld -r -o $$@ $$^
$(B)/$(1)/gen_fix44.o: $(B)/$(1)/gen/fix44_types.o $(B)/$(1)/gen/fix44_traits.o $(B)/$(1)/gen/fix44_classes.o
	ld -r -o $$@ $$^
# engine objects
$(B)/$(1)/eng/%.o: $(V)/engines/%.cpp $(B)/$(1)/.flags
	@mkdir -p $$(dir $$@)
	$(CXX) $(COMMON) $$(FLAGS_$(1)) -MMD -MP -c $$< -o $$@
# harness objects (look inside objects: no access control)
$(B)/$(1)/h/%.o: $(V)/harness/%.cpp $(B)/$(1)/.flags | $(B)/gen/utest/.stamp $(B)/gen/fix44/.stamp
	@mkdir -p $$(dir $$@)
	$(CXX) $(COMMON) $$(FLAGS_$(1)) -fno-access-control -I$(B)/gen/utest -I$(B)/gen/fix44 -MMD -MP -c $$< -o $$@
endef
$(foreach v,$(VARIANTS),$(eval $(call VARIANT_RULES,$(v))))

# the scheduler TU is never instrumented (raw futex hand-offs must stay invisible to TSan)
$(B)/sched/eng/sched/sched.o $(B)/schedp/eng/sched/sched.o $(B)/tsan/eng/sched/sched.o: $(V)/engines/sched/sched.cpp
	@mkdir -p $(dir $@)
	$(CXX) -std=c++14 -g -O1 -w -fno-omit-frame-pointer $(if $(findstring /tsan/,$@),-DVERIF_TSAN,) $(if $(findstring /schedp/,$@),-DVERIF_POOL,) -I$(V)/engines -MMD -MP -c $< -o $@

# ---- f8c from the tree's compiler sources (plain variant)
$(B)/f8c/%.o: $(REPO)/compiler/%.cpp
	@mkdir -p $(dir $@)
	$(CXX) $(COMMON) $(FLAGS_plain) -I$(REPO)/compiler -MMD -MP -c $< -o $@
$(B)/f8c/f8c: $(foreach s,$(F8C_SRCS),$(B)/f8c/$(s).o) $(B)/plain/librt.a
	$(CXX) -o $@ $(foreach s,$(F8C_SRCS),$(B)/f8c/$(s).o) $(B)/plain/librt.a $(LIBS)

UTEST_XF := "<field number='9999' name='SampleUserField'  type='STRING' messages='NewOrderSingle:N ExecutionReport:N OrderCancelRequest:Y' /><field number='9991' name='SampleUserField2' type='STRING' messages='NewOrderSingle:N ExecutionReport:N OrderCancelRequest:Y' />"

$(B)/gen/utest/.stamp: $(B)/f8c/f8c $(REPO)/schema/FIX42UTEST.xml
	@rm -rf $(B)/gen/utest.tmp && mkdir -p $(B)/gen/utest.tmp $(B)/gen/utest
	cd $(B)/gen/utest.tmp && $(abspath $(B))/f8c/f8c -sp utest -n UTEST $(REPO)/schema/FIX42UTEST.xml -F $(UTEST_XF) > f8c.log 2>&1 || (cat f8c.log; false)
	@sed -i 's/DO NOT EDIT! Created: .* \*\*\*/DO NOT EDIT! ***/' $(B)/gen/utest.tmp/*.?pp
	@for f in $(B)/gen/utest.tmp/*; do cmp -s $$f $(B)/gen/utest/$$(basename $$f) || cp $$f $(B)/gen/utest/; done; rm -rf $(B)/gen/utest.tmp
	@touch $@
$(B)/gen/fix44/.stamp: $(B)/f8c/f8c $(REPO)/schema/FIX44.xml
	@rm -rf $(B)/gen/fix44.tmp && mkdir -p $(B)/gen/fix44.tmp $(B)/gen/fix44
	cd $(B)/gen/fix44.tmp && $(abspath $(B))/f8c/f8c -p fix44 -n F44 $(REPO)/schema/FIX44.xml > f8c.log 2>&1 || (cat f8c.log; false)
	@sed -i 's/DO NOT EDIT! Created: .* \*\*\*/DO NOT EDIT! ***/' $(B)/gen/fix44.tmp/*.?pp
	@for f in $(B)/gen/fix44.tmp/*; do cmp -s $$f $(B)/gen/fix44/$$(basename $$f) || cp $$f $(B)/gen/fix44/; done; rm -rf $(B)/gen/fix44.tmp
	@touch $@

# ---- independent schema models (python, xml.etree) for the harness oracles
$(B)/gen/utest.model: $(REPO)/schema/FIX42UTEST.xml $(V)/vp/schema_model.py
	@mkdir -p $(dir $@)
	python3 $(V)/vp/schema_model.py $(REPO)/schema/FIX42UTEST.xml $@ --xfields $(UTEST_XF)
$(B)/gen/fix44.model: $(REPO)/schema/FIX44.xml $(V)/vp/schema_model.py
	@mkdir -p $(dir $@)
	python3 $(V)/vp/schema_model.py $(REPO)/schema/FIX44.xml $@

# ---- harness binaries:  $(B)/<variant>/bin/<name>
# HARNESS_<name> = extra objects relative to $(B)/<variant>/   (h/<name>.o is implied)
include $(V)/harness/harness.mk

define BIN_RULE
$(B)/$(1)/bin/$(2): $(B)/$(1)/h/$(2).o $$(addprefix $(B)/$(1)/,$$(HARNESS_$(2))) $(B)/$(1)/librt.a
	@mkdir -p $$(dir $$@)
	$(CXX) $$(FLAGS_$(1)) -o $$@ $(B)/$(1)/h/$(2).o $$(addprefix $(B)/$(1)/,$$(HARNESS_$(2))) $(B)/$(1)/librt.a $(LIBS) $$(LDX_$(2))
endef
$(foreach v,$(VARIANTS),$(foreach h,$(HARNESSES),$(eval $(call BIN_RULE,$(v),$(h)))))

all:
.PHONY: all FORCE
%.d: ;
FORCE:
.SECONDARY:
.DELETE_ON_ERROR:
-include $(shell find $(B) -name '*.d' 2>/dev/null)
