// sched.h — interface of the cooperative scheduler (engines/sched/sched.cpp)
#pragma once
#include <stdint.h>
#include <stddef.h>
extern "C" {
void vs_begin(const int *prefix, int n, int trace_fd);	// the calling thread becomes thread 0 and holds the baton
void vs_end();
const char *vs_trace_buf(size_t *len);						// trace of the last execution begun with trace_fd == -2 (kept in memory)
int vs_leftover();										// threads of the last execution that have not finished
void vs_point(int tag);									// plain scheduling point (shared-memory access the harness wants visible)
void vs_point_r(int tag);									// read-only point (no progress; spin detection)
void vs_set_state_hash(uint64_t (*fn)());				// optional: hash of the observable shared state, logged at choice points
long long vs_now();										// virtual time, ns
void vs_set_now(long long t);
int vs_self();
int vs_active();
void vs_set_max_steps(long n);
void vs_suspend(int on);								// 1: the calling code runs outside the scheduler until vs_suspend(0) (threads created meanwhile are registered, never run)
}

// Harness bookkeeping shared between threads (event logs, global sequence counters) is serialised by the scheduler, which
// ThreadSanitizer cannot see: such accesses are bracketed so that it ignores them (no happens-before edge is created,
// unlike a lock annotation, so races in the code under test stay visible).
#ifdef VERIF_TSAN
extern "C" void __tsan_ignore_thread_begin(void);
extern "C" void __tsan_ignore_thread_end(void);
#define VS_BOOKKEEPING_BEGIN() __tsan_ignore_thread_begin()
#define VS_BOOKKEEPING_END() __tsan_ignore_thread_end()
#else
#define VS_BOOKKEEPING_BEGIN() ((void)0)
#define VS_BOOKKEEPING_END() ((void)0)
#endif
