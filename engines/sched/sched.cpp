// sched.cpp — cooperative scheduler owning every synchronisation point (DESIGN §2.3, Appendix A).
// All harness threads are real pthreads but exactly one holds the baton (a per-thread futex word, raw SYS_futex).
// This TU is compiled WITHOUT sanitizer instrumentation: hand-offs must stay invisible to TSan, while the interposed
// lock functions tell TSan the truth about the program's own synchronisation (__tsan_acquire/__tsan_release).
#include <pthread.h>
#include <sched.h>
#include <time.h>
#include <unistd.h>
#include <stdio.h>
#include <stdlib.h>
#include <string.h>
#include <dlfcn.h>
#include <errno.h>
#include <linux/futex.h>
#include <sys/syscall.h>
#include <vector>
#include <map>
#include <string>
#include "sched/sched.h"

extern "C" int __interceptor_pthread_create(pthread_t *, const pthread_attr_t *, void *(*)(void *), void *) __attribute__((weak));
extern "C" int __interceptor_pthread_join(pthread_t, void **) __attribute__((weak));
#ifdef VERIF_TSAN
extern "C" void __tsan_acquire(void *addr);
extern "C" void __tsan_release(void *addr);
#define TSAN_ACQ(a) __tsan_acquire((void *)(a))
#define TSAN_REL(a) __tsan_release((void *)(a))
#else
#define TSAN_ACQ(a)
#define TSAN_REL(a)
#endif

namespace {
enum Want { W_NONE, W_LOCK, W_JOIN, W_SLEEP, W_YIELD, W_START };
struct Th { int id; pthread_t pt; int baton; Want want; const void *lock; int join_id; long long wake; bool done, waiting; void *(*fn)(void *); void *arg; int last_tag; int reads; unsigned long reads_progress; bool dirty; };
const int MAXT = 24;
const long long VNOW0 = 1700000000LL * 1000000000LL;
Th th[MAXT]; int nth = 0; bool active = false, suspended = false; long long vnow = VNOW0;
// trace_fd == -2: the trace is kept in memory (in-process executions, see explore.hpp).  A plain array filled by a byte loop
// through a volatile pointer: every thread appends to it under the baton, which ThreadSanitizer cannot see, so the buffer must
// not be touched through intercepted functions (memcpy inside std::string::append was reported as a race between threads).
const size_t TBUF_SZ = 8u << 20; char tbuf[TBUF_SZ]; size_t tlen = 0;
// lock table: lock address -> owning thread.  A fixed array, not a std::map: nodes allocated by one thread and freed by
// another under the baton look like a race on the heap block to ThreadSanitizer (operator new/delete are intercepted).
struct Owners {
	enum { N = 256 }; const void *k[N]; int v[N]; int n = 0;
	int idx(const void *l) const { for (int i = 0; i < n; i++) if (k[i] == l) return i; return -1; }
	bool has(const void *l) const { return idx(l) >= 0; }
	void set(const void *l, int t) { int i = idx(l); if (i < 0) { if (n >= N) { _exit(9); } i = n++; k[i] = l; } v[i] = t; }
	void erase(const void *l) { int i = idx(l); if (i >= 0) { k[i] = k[n - 1]; v[i] = v[n - 1]; --n; } }
	void clear() { n = 0; }
} owner;
std::vector<int> prefix; size_t step = 0; int trace_fd = -1; unsigned long progress = 0; unsigned long seen_progress[MAXT];
long max_steps = 200000;
__thread int my_id = -1;
int (*real_create)(pthread_t *, const pthread_attr_t *, void *(*)(void *), void *);
int (*real_join)(pthread_t, void **);
uint64_t (*state_hash_fn)() = nullptr;

void fwait(int *a) { while (__atomic_load_n(a, __ATOMIC_ACQUIRE) == 0) syscall(SYS_futex, a, FUTEX_WAIT, 0, 0, 0, 0); __atomic_store_n(a, 0, __ATOMIC_RELEASE); }
void fwake(int *a) { __atomic_store_n(a, 1, __ATOMIC_RELEASE); syscall(SYS_futex, a, FUTEX_WAKE, 1, 0, 0, 0); }
void tr(const char *s) { if (trace_fd == -2) { volatile char *d = tbuf; while (*s && tlen + 1 < TBUF_SZ) d[tlen++] = *s++; } else if (trace_fd >= 0) { ssize_t r = syscall(SYS_write, trace_fd, s, strlen(s)); (void)r; } }
bool enabled(Th& t)
{
	if (t.done) return false;
	switch (t.want) {
	case W_LOCK: return !owner.has(t.lock);
	case W_JOIN: return th[t.join_id].done;
	case W_SLEEP: return vnow >= t.wake;
	case W_YIELD: return !t.waiting || seen_progress[t.id] != progress;
	default: return true;
	}
}
#ifdef VERIF_POOL
// ---- recycled OS threads (variant without a sanitizer only).  One execution creates and joins every harness thread, and
// creating a thread costs ~1 ms here and is serialised system-wide, which alone limits a search to ~1000 schedules/s over all
// shards.  With the pool a "new thread" is an idle worker OS thread that runs the trampoline (hence the real thread body) and
// goes back to sleep when it returns; join waits for that return.  What the scheduler and the code under test see is unchanged:
// a thread with its own stack and pthread_self, started and finished once per execution.  A forked child starts with an empty
// pool (the workers are not there).  The sanitizer variants create a real thread per logical thread (their bookkeeping wants it).
namespace pool {
struct W { pthread_t pt; int go, fin; void *(*fn)(void *); void *arg; void *ret; bool busy; };
W w[MAXT]; int nw = 0; bool hooked = false;
int (*libc_create)(pthread_t *, const pthread_attr_t *, void *(*)(void *), void *);
void *loop(void *p) { W *x = (W *)p; for (;;) { fwait(&x->go); x->ret = x->fn(x->arg); fwake(&x->fin); } return 0; }
void in_child() { nw = 0; }
void reclaim() { for (int i = 0; i < nw; i++) if (w[i].busy && __atomic_load_n(&w[i].fin, __ATOMIC_ACQUIRE)) { w[i].fin = 0; w[i].busy = false; } }
int create(pthread_t *t, const pthread_attr_t *, void *(*fn)(void *), void *arg)
{
	if (!libc_create) libc_create = (decltype(libc_create))dlsym(RTLD_NEXT, "pthread_create");
	if (!hooked) { hooked = true; pthread_atfork(0, 0, in_child); }
	W *x = 0; for (int i = 0; i < nw && !x; i++) if (!w[i].busy) x = &w[i];
	if (!x) {
		if (nw >= MAXT) return EAGAIN;
		x = &w[nw]; memset(x, 0, sizeof *x);
		if (int r = libc_create(&x->pt, 0, loop, x)) return r;
		++nw;
	}
	x->fn = fn; x->arg = arg; x->busy = true; *t = x->pt; fwake(&x->go);
	return 0;
}
int join(pthread_t t, void **r)
{
	for (int i = 0; i < nw; i++) if (pthread_equal(w[i].pt, t)) {
		if (!w[i].busy) return ESRCH;	// joined before (fix8 joins a finished thread again in ~_f8_threadcore)
		fwait(&w[i].fin); w[i].busy = false; if (r) *r = w[i].ret; return 0;
	}
	return ESRCH;
}
}
#endif

void die(const char *m) { char b[64]; snprintf(b, sizeof b, "E %s\n", m); tr(b); if (trace_fd == -2) { ssize_t r = syscall(SYS_write, 2, b, strlen(b)); (void)r; } _exit(3); }

// called by the running thread at a point after publishing its want; picks the next thread and hands over
void reschedule()
{
	Th& me = th[my_id];
	// the write announced by this thread's previous vs_point has happened by now: threads parked in a spin loop that looked
	// between the announcement and the write must be woken (otherwise a publish followed by a blocking call is a lost wake-up)
	if (me.dirty) { me.dirty = false; ++progress; }
	for (;;) {
		int en[MAXT], ne = 0;
		if (enabled(me)) en[ne++] = my_id;
		for (int i = 0; i < nth; i++) if (i != my_id && enabled(th[i])) en[ne++] = i;
		if (ne == 0) {
			long long w = -1; for (int i = 0; i < nth; i++) if (!th[i].done && th[i].want == W_SLEEP && (w < 0 || th[i].wake < w)) w = th[i].wake;
			if (w < 0) { bool spin = false; for (int i = 0; i < nth; i++) if (!th[i].done && th[i].want == W_YIELD) spin = true; die(spin ? "LIVELOCK" : "DEADLOCK"); }
			vnow = w; continue;
		}
		size_t c = 0;
		if (step < prefix.size()) { c = prefix[step]; if ((int)c >= ne) die("DIVERGE"); }
		if ((long)step > max_steps) die("STEPLIMIT");
		if (trace_fd >= 0 || trace_fd == -2) {
			char b[160]; int n = snprintf(b, sizeof b, "P %d %d %d %zu %d", ne, (int)(en[0] == my_id), my_id, c, me.last_tag);
			if (state_hash_fn && ne > 1) n += snprintf(b + n, sizeof b - n, " %llx", (unsigned long long)state_hash_fn());
			b[n++] = '\n'; b[n] = 0; tr(b);
		}
		++step;
		int nxt = en[c]; Th& n = th[nxt];
		if (n.want == W_LOCK) owner.set(n.lock, nxt);
		if (n.want == W_YIELD) seen_progress[nxt] = progress;
		n.want = W_NONE;
		if (nxt == my_id) return;
		fwake(&n.baton);
		if (me.done) return;
		fwait(&me.baton);
		return;
	}
}
void point(Want w) { th[my_id].want = w; reschedule(); }
void *tramp(void *p) { Th *t = (Th *)p; my_id = t->id; fwait(&t->baton); void *r = t->fn(t->arg); t->done = true; ++progress; reschedule(); return r; }
inline bool on() { return active && !suspended && my_id >= 0; }
}

extern "C" {
void vs_begin(const int *pre, int n, int tfd)
{
	prefix.assign(pre, pre + n); trace_fd = tfd; step = 0; nth = 1; owner.clear(); progress = 0; vnow = VNOW0; tlen = 0;
#ifdef VERIF_POOL
	pool::reclaim();
#endif
	suspended = false; memset(th, 0, sizeof th); memset(seen_progress, 0, sizeof seen_progress); th[0].id = 0; th[0].pt = pthread_self(); my_id = 0; active = true;
}
void vs_end() { active = false; tr("E OK\n"); }
const char *vs_trace_buf(size_t *len) { *len = tlen; return tbuf; }
int vs_leftover() { int k = 0; for (int i = 1; i < nth; i++) if (!th[i].done) ++k; return k; }
void vs_point(int tag) { if (on()) { th[my_id].last_tag = tag; ++progress; th[my_id].reads = 0; point(W_NONE); th[my_id].dirty = true; } }
// read-only point: does not count as progress; a thread that keeps reading without anybody changing shared state is
// spinning (FastFlow's retry loops have no yield) and is parked until some other thread makes progress
void vs_point_r(int tag)
{
	if (!on()) return;
	Th& me = th[my_id]; me.last_tag = tag;
	if (me.reads_progress != progress) { me.reads_progress = progress; me.reads = 0; }
	if (++me.reads > 12) { me.reads = 0; me.waiting = true; seen_progress[my_id] = progress; point(W_YIELD); me.waiting = false; }
	else point(W_NONE);
}
void vs_set_state_hash(uint64_t (*fn)()) { state_hash_fn = fn; }
long long vs_now() { return vnow; }
void vs_set_now(long long t) { vnow = t; }
int vs_self() { return my_id; }
int vs_active() { return on(); }
void vs_set_max_steps(long n) { max_steps = n; }
void vs_suspend(int s) { suspended = s != 0; }

int pthread_create(pthread_t *t, const pthread_attr_t *a, void *(*fn)(void *), void *arg)
{
#ifdef VERIF_POOL
	if (!real_create) real_create = __interceptor_pthread_create ? __interceptor_pthread_create : pool::create;
#else
	if (!real_create) real_create = __interceptor_pthread_create ? __interceptor_pthread_create : (decltype(real_create))dlsym(RTLD_NEXT, "pthread_create");
#endif
	if (!on()) { *t = (pthread_t)0xdead0000; return 0; }	// created outside the scheduler (global logger): never runs
	if (nth >= MAXT) die("TOOMANYTHREADS");
	Th& n = th[nth]; memset(&n, 0, sizeof n); n.id = nth; n.want = W_START; n.fn = fn; n.arg = arg; ++nth;
	int r = real_create(&n.pt, a, tramp, &n); *t = n.pt; ++progress;
	th[my_id].last_tag = -1; point(W_NONE);
	return r;
}
int pthread_join(pthread_t t, void **r)
{
#ifdef VERIF_POOL
	if (!real_join) real_join = __interceptor_pthread_join ? __interceptor_pthread_join : pool::join;
#else
	if (!real_join) real_join = __interceptor_pthread_join ? __interceptor_pthread_join : (decltype(real_join))dlsym(RTLD_NEXT, "pthread_join");
#endif
	if (t == (pthread_t)0xdead0000) return 0;
	if (!on()) return real_join(t, r);
	int id = -1; for (int i = 0; i < nth; i++) if (pthread_equal(th[i].pt, t)) id = i;
	if (id < 0) return ESRCH;
	th[my_id].join_id = id; th[my_id].last_tag = -2; point(W_JOIN);
	return real_join(t, r);
}
static int lk(const void *l) { if (!on()) return 0; th[my_id].lock = l; th[my_id].last_tag = -3; point(W_LOCK); TSAN_ACQ(l); return 0; }
static int ulk(const void *l) { if (!on()) return 0; TSAN_REL(l); owner.erase(l); ++progress; th[my_id].last_tag = -4; point(W_NONE); return 0; }
static int tlk(const void *l) { if (!on()) return 0; th[my_id].last_tag = -5; point(W_NONE); if (owner.has(l)) return EBUSY; owner.set(l, my_id); TSAN_ACQ(l); return 0; }
int pthread_spin_lock(pthread_spinlock_t *l) { return lk((const void *)l); }
int pthread_spin_unlock(pthread_spinlock_t *l) { return ulk((const void *)l); }
int pthread_spin_trylock(pthread_spinlock_t *l) { return tlk((const void *)l); }
int pthread_mutex_lock(pthread_mutex_t *l) { return lk(l); }
int pthread_mutex_unlock(pthread_mutex_t *l) { return ulk(l); }
int pthread_mutex_trylock(pthread_mutex_t *l) { return tlk(l); }
int sched_yield() { if (on()) { th[my_id].waiting = true; th[my_id].last_tag = -6; point(W_YIELD); th[my_id].waiting = false; } return 0; }
int clock_gettime(clockid_t, struct timespec *ts) { ts->tv_sec = vnow / 1000000000LL; ts->tv_nsec = vnow % 1000000000LL; return 0; }
int clock_nanosleep(clockid_t, int flags, const struct timespec *rq, struct timespec *)
{
	long long t = rq->tv_sec * 1000000000LL + rq->tv_nsec; if (!(flags & TIMER_ABSTIME)) t += vnow;
	if (on()) { th[my_id].wake = t; th[my_id].last_tag = -7; point(W_SLEEP); } else if (t > vnow) vnow = t;
	return 0;
}
int nanosleep(const struct timespec *rq, struct timespec *) { struct timespec a = *rq; return clock_nanosleep(0, 0, &a, 0); }
int usleep(useconds_t us) { struct timespec a { (time_t)(us / 1000000), (long)(us % 1000000) * 1000 }; return clock_nanosleep(0, 0, &a, 0); }
}
