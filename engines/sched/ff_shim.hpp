// ff_shim.hpp — force-included (-include) before any fix8 header in the `sched` and `tsan` variants.
// Includes FastFlow's atomic headers first, then re-defines its hand-written atomics as function-like macros that
// pass through a scheduling point (a function-like macro is not re-expanded inside its own expansion).
// In the tsan variant the same points carry acquire/release annotations: FastFlow relies on x86-TSO plus compiler
// barriers (volatile + WMB), which TSan cannot see; the annotation states that assumption instead of flooding reports.
#pragma once
#ifdef __cplusplus
#include <cstdlib>
#include <cassert>
#include <cstdio>
#include <fix8/ff/sysdep.h>
#include <fix8/ff/platforms/platform.h>
#include <fix8/ff/mpmc/asm/abstraction_dcas.h>
#include <fix8/ff/mpmc/asm/atomic.h>
extern "C" void vs_point(int tag);
extern "C" void vs_point_r(int tag);
#ifdef VERIF_TSAN
extern "C" void __tsan_acquire(void *addr);
extern "C" void __tsan_release(void *addr);
static inline void verif_acq(const volatile void *a) { __tsan_acquire((void *)a); }
static inline void verif_rel(const volatile void *a) { __tsan_release((void *)a); }
#else
static inline void verif_acq(const volatile void *) {}
static inline void verif_rel(const volatile void *) {}
#endif
// optional observation hooks (a harness may define them; weak = absent by default)
extern "C" void vs_hook_read(const volatile void *addr, unsigned long value, int line) __attribute__((weak));
extern "C" void vs_hook_set(const volatile void *addr, unsigned long value, int line) __attribute__((weak));
extern "C" void vs_hook_cas(const volatile void *addr, unsigned long exchange, unsigned long compare, unsigned long result, int line) __attribute__((weak));
#ifdef VERIF_TSAN
// FastFlow's atomic_long_read/set are plain volatile accesses (x86-TSO assumption).  For ThreadSanitizer the same accesses are
// made as acquire loads / release stores, so that they are atomics to it (no report on the cursor itself) and carry the
// happens-before edge the queue relies on; the functional variants (sched, schedp) run FastFlow's own code.
static inline unsigned long verif_read(atomic_long_t *x, int line) { vs_point_r(line); unsigned long v = (unsigned long)__atomic_load_n(&x->counter, __ATOMIC_ACQUIRE); if (vs_hook_read) vs_hook_read(x, v, line); return v; }
static inline void verif_set(atomic_long_t *x, unsigned long v, int line) { vs_point(line); __atomic_store_n(&x->counter, (long)v, __ATOMIC_RELEASE); if (vs_hook_set) vs_hook_set(x, v, line); vs_point(-line); }
#else
static inline unsigned long verif_read(atomic_long_t *x, int line) { vs_point_r(line); unsigned long v = atomic_long_read(x); verif_acq(x); if (vs_hook_read) vs_hook_read(x, v, line); return v; }
// a second point right after the store: a thread can lose the processor between publishing and the plain code that follows
// (invisible in a correct protocol, decisive when something is published too early)
static inline void verif_set(atomic_long_t *x, unsigned long v, int line) { vs_point(line); verif_rel(x); atomic_long_set(x, v); if (vs_hook_set) vs_hook_set(x, v, line); vs_point(-line); }
#endif
static inline atom_t verif_cas(volatile atom_t *d, atom_t e, atom_t c, int line) { vs_point(line); verif_rel((const volatile void *)d); atom_t r = abstraction_cas(d, e, c); verif_acq((const volatile void *)d); if (vs_hook_cas) vs_hook_cas((const volatile void *)d, (unsigned long)e, (unsigned long)c, (unsigned long)r, line); return r; }
#define atomic_long_read(x) verif_read((x), __LINE__)
#define atomic_long_set(x, v) verif_set((x), (v), __LINE__)
#define abstraction_cas(d, e, c) verif_cas((d), (e), (c), __LINE__)
#endif
