// explore.hpp — preemption-bounded exhaustive exploration of thread schedules (DESIGN §2.3, Appendix A).
// Every execution runs in a forked child under the cooperative scheduler (sched.cpp); the parent reads the point trace
// (enabled-set sizes, who ran) and the harness outcome from a pipe and expands the iterative context-bounding DFS.
#pragma once
#include "vh.hpp"
#include "sched/sched.h"
#include <functional>
#include <unordered_set>
#include <sys/wait.h>
#include <signal.h>

#ifdef VERIF_TSAN
#include <atomic>
// ThreadSanitizer calls this weak hook of its runtime for every report it prints: an execution during which the count moved
// is given the verdict BAD|no-data-race|... whatever its harness oracle said (the report itself is on stderr)
static std::atomic<int> sx_tsan_reports;
extern "C" void __tsan_on_report(void *) { ++sx_tsan_reports; }
static inline int sx_reports() { return sx_tsan_reports; }
#else
static inline int sx_reports() { return 0; }
#endif

namespace sx {
inline std::string with_race_verdict(int before, const std::string& out)
{ const int n = sx_reports() - before; return n ? "BAD|no-data-race|tsan:data-race reported during this execution (report on stderr)|" + out : out; }

struct Pt { int n; bool running_first; int thread; int choice; int tag; uint64_t hash; bool has_hash; };
struct Exec {
	std::vector<Pt> pts; std::string end;	// OK / DEADLOCK / LIVELOCK / DIVERGE / STEPLIMIT / CRASH:<status> / HANG
	std::string outcome;					// harness verdict line(s) written by the child
	std::string err;						// child's stderr tail (sanitizer report)
	std::vector<int> choices() const { std::vector<int> c; for (auto& p : pts) c.push_back(p.choice); return c; }
	int preemptions() const { int k = 0; for (auto& p : pts) if (p.running_first && p.choice != 0) ++k; return k; }
};

inline void parse_trace(const std::string& buf, Exec& x)
{
	size_t i = 0;
	while (i < buf.size()) {
		size_t e = buf.find('\n', i); if (e == std::string::npos) e = buf.size();
		// sscanf on a pointer into the whole buffer runs strlen over the rest of it for every line (quadratic on a trace of
		// 10^5 points): parse a copy of the one line
		char lb[256]; size_t ll = std::min(e - i, sizeof lb - 1); memcpy(lb, buf.data() + i, ll); lb[ll] = 0;
		const char *l = lb;
		if (l[0] == 'P') { Pt p {}; int rf = 0; unsigned long long h = 0; int got = sscanf(l + 2, "%d %d %d %d %d %llx", &p.n, &rf, &p.thread, &p.choice, &p.tag, &h); p.running_first = rf; p.has_hash = got == 6; p.hash = h; x.pts.push_back(p); }
		else if (l[0] == 'E') x.end.assign(buf.data() + i + 2, e - i - 2);
		else if (l[0] == 'O') x.outcome.assign(buf.data() + i + 2, e - i - 2);
		i = e + 1;
	}
}

// body: runs in the child between vs_begin and vs_end; returns the outcome string ("" = fine, judged by parent too)
inline Exec run_once(const std::function<std::string()>& body, const std::vector<int>& prefix, int timeout_s = 20)
{
	Exec x; int pf[2], ef[2];
	if (pipe(pf) || pipe(ef)) { x.end = "PIPE"; return x; }
	fflush(stdout); fflush(stderr);
	pid_t pid = fork();
	if (pid == 0) {
		close(pf[0]); close(ef[0]); dup2(ef[1], 2); close(ef[1]);
		alarm(timeout_s);
		vs_begin(prefix.data(), (int)prefix.size(), pf[1]);
		const int rb = sx_reports();
		std::string out = with_race_verdict(rb, body());
		vs_end();
		std::string line = "O " + out + "\n";
		ssize_t r = write(pf[1], line.data(), line.size()); (void)r;
		_exit(0);
	}
	close(pf[1]); close(ef[1]);
	std::string buf; char tmp[65536]; ssize_t n;
	while ((n = read(pf[0], tmp, sizeof tmp)) > 0) buf.append(tmp, n);
	close(pf[0]);
	while ((n = read(ef[0], tmp, sizeof tmp)) > 0) { x.err.append(tmp, n); if (x.err.size() > 20000) x.err.erase(0, x.err.size() - 20000); }
	close(ef[0]);
	int status = 0; waitpid(pid, &status, 0);
	parse_trace(buf, x);
	if (WIFSIGNALED(status)) x.end = WTERMSIG(status) == SIGALRM ? "HANG" : "CRASH:signal" + std::to_string(WTERMSIG(status));
	else if (WIFEXITED(status) && WEXITSTATUS(status) != 0 && x.end == "OK") x.end = "CRASH:exit" + std::to_string(WEXITSTATUS(status));
	else if (WIFEXITED(status) && WEXITSTATUS(status) != 0 && x.end.empty()) x.end = "CRASH:exit" + std::to_string(WEXITSTATUS(status));
	return x;
}

// The same execution without a process per schedule: body runs in this process, the trace stays in memory.  Process
// creation is by far the dearest step of a schedule (and is serialised system-wide on the machines this runs on), so the
// explorer runs executions this way as long as none has failed.  An execution that ends in any other way than by
// returning (deadlock, livelock, step limit, divergence, crash, sanitizer report, time-out, a thread left behind) takes
// this process down; the driver (vp/check.py) then restarts the shard with forkfrom=<index of that execution>, and from
// that index on every execution runs in a forked child as in run_once, where its ending is recorded and judged.
inline Exec run_once_inproc(const std::function<std::string()>& body, const std::vector<int>& prefix, int timeout_s = 20)
{
	Exec x;
	alarm(timeout_s);
	vs_begin(prefix.data(), (int)prefix.size(), -2);
	const int rb = sx_reports();
	x.outcome = with_race_verdict(rb, body());
	vs_end();
	alarm(0);
	if (vs_leftover()) { fprintf(stderr, "INPROC: %d thread(s) of the execution did not finish\n", vs_leftover()); fflush(stderr); _exit(4); }
	size_t len = 0; const char *t = vs_trace_buf(&len);
	parse_trace(std::string(t, len), x);
	return x;
}
inline bool same_trace(const Exec& a, const Exec& b)
{
	if (a.end != b.end || a.outcome != b.outcome || a.pts.size() != b.pts.size()) return false;
	for (size_t i = 0; i < a.pts.size(); ++i) if (a.pts[i].n != b.pts[i].n || a.pts[i].thread != b.pts[i].thread || a.pts[i].choice != b.pts[i].choice || a.pts[i].tag != b.pts[i].tag || a.pts[i].running_first != b.pts[i].running_first) return false;
	return true;
}

inline std::string choices_str(const std::vector<int>& c)
{
	// run-length: trailing zeros dropped (the default continuation)
	size_t n = c.size(); while (n && c[n - 1] == 0) --n;
	std::string s; for (size_t i = 0; i < n; ++i) { if (i) s += ','; s += std::to_string(c[i]); } return s;
}
inline std::vector<int> parse_choices(const std::string& s)
{ std::vector<int> c; std::istringstream is(s); std::string x; while (std::getline(is, x, ',')) if (!x.empty()) c.push_back(atoi(x.c_str())); return c; }

struct Stats { long long execs = 0, pruned = 0, maxpts = 0; std::map<std::string, long long> outcomes; int bound_completed = -1; bool capped = false; };

// judge(exec, choices) is called in the parent for every completed execution.
// Sharding: the default execution is run by every shard; first-level deviations are dealt round-robin.
inline void explore(vh::Run& R, const std::string& cfg, const std::function<std::string()>& body,
	const std::function<void(const Exec&, const std::string& id)>& judge, int bound, Stats& S, bool prune_by_hash = false, long long max_execs = 0)
{
	std::unordered_set<uint64_t> seen;	// (state hash, thread chosen) pairs already expanded — only with a complete state hash
	long long branch = 0;
	// inproc=1: executions with index < forkfrom run in this process (run_once_inproc), the others in a forked child.
	// The index is the position in the depth-first order, which is a function of the harness arguments and the shard only.
	const bool inproc = R.args.num("inproc", 0) != 0;
	const long long forkfrom = R.args.has("forkfrom") ? R.args.num("forkfrom", 0) : (inproc ? (1LL << 62) : 0);
	static bool warmed = false;
	if (inproc && forkfrom > S.execs && !warmed) {
		// the first in-process execution initialises whatever the code initialises lazily; run the default schedule once
		// in a child (cold) and once here (twice: first use, then warm): all three traces must agree, otherwise executions
		// in the two modes are not interchangeable and every execution is forked as before
		warmed = true;
		R.begin_case(cfg + ";", "", S.execs); --R.evaluations;
		Exec cold = run_once(body, std::vector<int>());
		if (cold.end == "OK") {
			Exec w1 = run_once_inproc(body, std::vector<int>()), w2 = run_once_inproc(body, std::vector<int>());
			if (!same_trace(cold, w1) || !same_trace(cold, w2)) { fprintf(stderr, "INPROC: default schedule differs between a forked and an in-process execution\n"); fflush(stderr); _exit(5); }
		}
		else { fflush(stderr); _exit(6); }	// the default schedule fails: fork mode from the start
	}
	// Sharding: the subtrees below the second level of deviations are dealt round-robin (dealing the first level only left
	// one shard with a quarter of the work).  Every shard runs the default execution and all executions with one deviation
	// (a few hundred), but an execution is judged and counted only by the shard that owns it.
	long long branch1 = 0;
	std::function<void(const std::vector<int>&, int, bool)> rec = [&](const std::vector<int>& prefix, int depth, bool owned) {
		if (R.out_of_time() || (max_execs && S.execs >= max_execs)) { S.capped = true; return; }
		const std::string id = cfg + ";" + choices_str(prefix);
		R.begin_case(id, "", S.execs); if (!owned) --R.evaluations;
		Exec x = (inproc && S.execs < forkfrom) ? run_once_inproc(body, prefix) : run_once(body, prefix);
		++S.execs; S.maxpts = std::max<long long>(S.maxpts, x.pts.size());
		if (owned) {
			if (x.preemptions() > 0) ++R.nontrivial;
			++R.transitions;
			judge(x, id);
		}
		if (x.end == "DIVERGE") { fprintf(stderr, "NONDETERMINISM: schedule prefix %s diverged on replay\n", id.c_str()); exit(2); }
		std::vector<int> ch = x.choices();
		int cost = 0; std::vector<int> costs;
		for (auto& p : x.pts) { costs.push_back(cost); if (p.running_first && p.choice != 0) ++cost; }
		for (size_t i = prefix.size(); i < x.pts.size(); ++i) {
			const Pt& p = x.pts[i];
			for (int alt = 1; alt < p.n; ++alt) {
				int c = costs[i] + (p.running_first ? 1 : 0);
				if (c > bound) continue;
				bool child_owned = true;
				if (depth == 0) child_owned = (branch++ % R.shard_n) == R.shard_k;
				else if (depth == 1) { ++branch1; if ((vh::fnv(std::to_string(i) + ":" + std::to_string(alt) + ":" + choices_str(prefix)) >> 7) % R.shard_n != R.shard_k) continue; }
				if (prune_by_hash && p.has_hash) { uint64_t k = p.hash * 1099511628211ULL + alt * 0x9e3779b97f4a7c15ULL + (bound >= 1000 ? 0 : (uint64_t)c * 0x632be59bd9b4e019ULL); /* without a bound the preemptions spent so far do not matter */ if (!seen.insert(k).second) { ++S.pruned; continue; } }
				std::vector<int> np(ch.begin(), ch.begin() + i); np.push_back(alt);
				rec(np, depth + 1, child_owned);
				if (S.capped) return;
			}
		}
	};
	rec(std::vector<int>(), 0, R.shard_k == 0);
	if (!S.capped) S.bound_completed = bound;
}

} // namespace sx
