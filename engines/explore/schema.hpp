// schema.hpp — loader for the independent schema model written by vp/schema_model.py (DESIGN §2.6)
#pragma once
#include <string>
#include <vector>
#include <map>
#include <fstream>
#include <sstream>
#include <stdexcept>
#include "vh.hpp"

namespace sm {

enum VClass { V_INT, V_CHAR, V_BOOL, V_FLOAT, V_STRING, V_TIMESTAMP, V_TIMEONLY, V_DATEONLY, V_LOCALMKTDATE, V_MONTHYEAR, V_DATA, V_OTHER };

struct FieldDef {
	int num = 0; std::string name, type; int realm = 0;	// 0 none, 1 set, 2 range
	struct Val { std::string value, desc; int range; };	// range: 0 none, 1 lower, 2 upper
	std::vector<Val> vals;
	VClass vclass() const
	{
		if (type == "INT" || type == "LENGTH" || type == "TAGNUM" || type == "SEQNUM" || type == "NUMINGROUP" || type == "DAYOFMONTH") return V_INT;
		if (type == "CHAR") return V_CHAR;
		if (type == "BOOLEAN") return V_BOOL;
		if (type == "FLOAT" || type == "QTY" || type == "QUANTITY" || type == "PRICE" || type == "PRICEOFFSET" || type == "AMT" || type == "PERCENTAGE") return V_FLOAT;
		if (type == "UTCTIMESTAMP") return V_TIMESTAMP;
		if (type == "UTCTIME" || type == "UTCTIMEONLY") return V_TIMEONLY;
		if (type == "UTCDATE" || type == "UTCDATEONLY") return V_DATEONLY;
		if (type == "LOCALMKTDATE") return V_LOCALMKTDATE;
		if (type == "MONTHYEAR") return V_MONTHYEAR;
		if (type == "DATA" || type == "XMLDATA") return V_DATA;
		if (type == "TZTIMEONLY" || type == "TZTIMESTAMP") return V_OTHER;
		return V_STRING;
	}
	bool is_length() const { return type == "LENGTH"; }
};

struct Member {
	int tag = 0; bool mandatory = false, group = false;
	std::vector<Member> kids;	// members of one element when group
};

struct MsgDef { std::string msgtype, name; bool admin = false; std::vector<Member> members; };

struct Schema {
	int major = 0, minor = 0; std::string beginstr;
	std::map<int, FieldDef> fields;
	std::vector<MsgDef> msgs;
	std::vector<Member> header, trailer;

	static std::string unhexs(const std::string& s) { return s == "-" ? std::string() : vh::unhex(s); }
};

// builds the member trees with indices instead of pointers (vectors reallocate)
inline void load_schema(Schema& s, const std::string& path)
{
	std::ifstream in(path);
	if (!in) throw std::runtime_error("cannot open schema model " + path);
	std::string line;
	std::vector<Member> *root = nullptr;
	std::vector<int> pathidx;	// index of the open group at each depth
	auto resolve = [&](int depth) -> std::vector<Member>* {
		std::vector<Member> *v = root;
		for (int d = 0; d < depth; ++d) v = &(*v)[pathidx[d]].kids;
		return v;
	};
	while (std::getline(in, line)) {
		std::istringstream is(line); std::string k; is >> k;
		if (k == "S") { std::string b; is >> s.major >> s.minor >> b; s.beginstr = Schema::unhexs(b); }
		else if (k == "F") { FieldDef f; std::string r; int n; is >> f.num >> f.name >> f.type >> r >> n; f.realm = r == "set" ? 1 : r == "range" ? 2 : 0; s.fields[f.num] = f; }
		else if (k == "V") { int num; std::string v, d, r; is >> num >> v >> d >> r; s.fields[num].vals.push_back({ Schema::unhexs(v), Schema::unhexs(d), r == "lower" ? 1 : r == "upper" ? 2 : 0 }); }
		else if (k == "H") { root = &s.header; pathidx.clear(); }
		else if (k == "T") { root = &s.trailer; pathidx.clear(); }
		else if (k == "M") { MsgDef m; std::string t; int a; is >> t >> m.name >> a; m.msgtype = Schema::unhexs(t); m.admin = a; s.msgs.push_back(m); root = &s.msgs.back().members; pathidx.clear(); }
		else if (k == "m") {
			int depth, tag, mand; std::string kind; is >> depth >> tag >> mand >> kind;
			pathidx.resize(depth);
			std::vector<Member> *v = resolve(depth);
			Member mm; mm.tag = tag; mm.mandatory = mand; mm.group = kind == "g";
			v->push_back(mm);
			if (mm.group) pathidx.push_back((int)v->size() - 1);
		}
	}
}

} // namespace sm
