// forkbatch.hpp — execution of an enumeration in forked batches, with a CPU-time hang watchdog (DESIGN §2.4).
//
// For harnesses whose cases may kill the process (sanitizer abort, signal), loop for ever, or leak: the parent process only
// enumerates; at the first case of every batch it forks a child that inherits the loop state, executes `batch` cases of this
// shard and exits, while the parent waits and then skips them.  A child that dies is attributed to the case announced in the
// shared cur area (vh::Run::begin_case), reported as a violation, and a new child is forked from the same loop state which
// skips the cases up to and including that one.  Nothing a case leaks or corrupts survives its batch.
//
//   fb::Batcher B(R, [&](const char *desc) { run(desc); });
//   for (...) { if (B.stop()) break; if (R.mine(id)) B.on_case(id, desc); ++id; }
//   B.end();                       // child: prints its statistics and exits;  parent: returns
//   R.finish(B.complete);
//
// Watchdog: a profiling timer ticks every 0.5 s of CPU time of the process; the fourth consecutive tick that finds the same
// case still running ends the process with SIGXCPU; the Batcher then runs that one case again, alone, with 10 s of CPU time
// before it calls it a hang (on an overloaded machine 2 s of charged CPU time are not proof of a loop).  `fb::wd_seq` must be incremented at the start of every case
// (Batcher does it).
#pragma once
#include "vh.hpp"
#include <functional>
#include <set>
#include <cerrno>
#include <csignal>
#include <sys/wait.h>
#include <sys/mman.h>
#include <poll.h>

extern "C" void __sanitizer_print_stack_trace(void);
extern "C" void __sanitizer_symbolize_pc(void *pc, const char *fmt, char *out_buf, size_t out_buf_size);

namespace fb {

static volatile long long wd_seq = 0, wd_seen = -1; static volatile int wd_ticks = 0, wd_in_report = 0, wd_limit = 4; static bool wd_trace = false;
inline void on_tick(int)
{
	if (wd_seq != wd_seen) { wd_seen = wd_seq; wd_ticks = 0; return; }
	// a sanitizer that is printing its report (symbolising the stack of a 30 MB binary costs seconds) is not a hanging case
	if (++wd_ticks < (wd_in_report ? 240 : wd_limit)) return;
	struct itimerval off; memset(&off, 0, sizeof off); setitimer(ITIMER_PROF, &off, 0);
	static const char msg[] = "\nforkbatch: the current case used more than 2 s of CPU time without returning: treated as a hang (SIGXCPU)\n";
	(void)!write(2, msg, sizeof msg - 1);
	alarm(20);
#if defined(__SANITIZE_ADDRESS__)
	if (wd_trace) __sanitizer_print_stack_trace();
#endif
	signal(SIGXCPU, SIG_DFL); raise(SIGXCPU); _exit(124);
}
inline void stop_watchdog() { struct itimerval off; memset(&off, 0, sizeof off); setitimer(ITIMER_PROF, &off, 0); }
// call block_prof() before any thread is created (the mask is inherited), start_watchdog() in the thread that runs the cases
inline void block_prof() { sigset_t ss; sigemptyset(&ss); sigaddset(&ss, SIGPROF); pthread_sigmask(SIG_BLOCK, &ss, 0); }
inline void start_watchdog(bool trace)
{
	wd_trace = trace; wd_seen = -1; wd_ticks = 0;
	sigset_t ss; sigemptyset(&ss); sigaddset(&ss, SIGPROF); pthread_sigmask(SIG_UNBLOCK, &ss, 0);
	struct sigaction sa; memset(&sa, 0, sizeof sa); sa.sa_handler = on_tick; sa.sa_flags = SA_RESTART; sigaction(SIGPROF, &sa, 0);
	struct itimerval it; it.it_interval.tv_sec = 0; it.it_interval.tv_usec = 500000; it.it_value = it.it_interval; setitimer(ITIMER_PROF, &it, 0);
}

// ---- normalised description of how a process died, from its stderr and wait status (same vocabulary as vp/check.py crash_mode;
// template arguments of the frame are dropped so that the mode does not depend on the field number)
inline std::string normalise_frame(std::string fn)
{
	size_t p = fn.find('('); if (p != std::string::npos) fn = fn.substr(0, p);
	std::string o; int depth = 0;
	for (char c : fn) { if (c == '<') { if (!depth) o += "<>"; ++depth; } else if (c == '>') { if (depth) --depth; } else if (!depth) o += c; }
	while (!o.empty() && o.back() == ' ') o.pop_back();
	size_t sp = o.rfind(' '); if (sp != std::string::npos && o.find("operator") == std::string::npos) o = o.substr(sp + 1);	// drop a leading return type
	return o;
}
inline std::string crash_mode(const std::string& err, int status)
{
	if (WIFSIGNALED(status) && WTERMSIG(status) == SIGXCPU && err.find("ERROR: AddressSanitizer: ") == std::string::npos && err.find("runtime error: ") == std::string::npos)
		return "hang:case-cpu-time-gt-2s";
	std::string kind;
	size_t p = err.find("ERROR: AddressSanitizer: ");
	if (p != std::string::npos) { size_t b = p + 25, e = b; while (e < err.size() && (isalnum((unsigned char)err[e]) || err[e] == '-' || err[e] == '_')) ++e; kind = "asan:" + err.substr(b, e - b); }
	else if ((p = err.find("runtime error: ")) != std::string::npos) {
		std::string t = err.substr(p + 15, 80); size_t nl = t.find('\n'); if (nl != std::string::npos) t = t.substr(0, nl);
		for (size_t a; (a = t.find("0x")) != std::string::npos;) {	// addresses differ from run to run
			size_t e = a + 2; while (e < t.size() && isxdigit((unsigned char)t[e])) ++e; t.replace(a, e - a, "ADDR"); }
		std::string n; bool ind = false; for (char c : t) { if (isdigit((unsigned char)c)) { if (!ind) n += 'N'; ind = true; } else { n += c; ind = false; } }
		kind = "ubsan:" + n.substr(0, 60);
		// the report line starts with <file>:<line>:<col>: keep the file's base name (line numbers move with every patch)
		size_t ls = err.rfind('\n', p); ls = ls == std::string::npos ? 0 : ls + 1;
		std::string loc = err.substr(ls, p - ls); size_t c = loc.find(':'); if (c != std::string::npos) loc = loc.substr(0, c);
		size_t sl = loc.rfind('/'); if (sl != std::string::npos) loc = loc.substr(sl + 1);
		if (!loc.empty()) kind += " at " + loc;
	}
	std::string where;
	for (size_t i = 0; (i = err.find(" in ", i)) != std::string::npos; i += 4) {
		size_t ls = err.rfind('\n', i); ls = ls == std::string::npos ? 0 : ls + 1;
		size_t h = err.find('#', ls); if (h == std::string::npos || h > i) continue;
		size_t le = err.find('\n', i); if (le == std::string::npos) le = err.size();
		std::string rest = err.substr(i + 4, le - i - 4);
		size_t sp = rest.rfind(" /"); if (sp == std::string::npos) continue;
		std::string fn = rest.substr(0, sp), path = rest.substr(sp + 1);
		if (path.find("/verif/") != std::string::npos && path.find("/build/") == std::string::npos) continue;
		if (path.find("fix8") != std::string::npos || path.find("/runtime/") != std::string::npos || path.find("/gen/") != std::string::npos) { where = normalise_frame(fn); break; }
	}
	if (kind.empty()) {
		if (WIFSIGNALED(status)) kind = "signal:" + std::to_string(WTERMSIG(status));
		else kind = "exit:" + std::to_string(WEXITSTATUS(status));
	}
	return kind + (where.empty() ? "" : " in " + where);
}

// A fork() of a process that has a second thread can leave the child with a lock (the sanitizer's allocator mutex) that nobody
// will ever release: the child then sleeps for good and looks like a hanging case.  fix8's global logger starts a thread
// when it is first touched, so it must only be touched in the children (child_init), and every fork site checks that the
// parent is still single-threaded (exit 2 = no verdict, never a wrong one).
// No process of a forkbatch harness ever has a second thread: fix8 creates threads (the global logger's) through
// pthread_create, which is answered here without starting anything — the same legal, maximally unfair schedule the sim runtime
// uses (engines/sim/sim.cpp).  Children fork grandchildren (one per encoder case), so "only the parent is single-threaded"
// would not be enough.  Logger::stop() joins: the join of a thread that never ran returns at once.
extern "C" {
int pthread_create(pthread_t *t, const pthread_attr_t *, void *(*)(void *), void *) { static unsigned long n = 0; *t = (pthread_t)(0x51300000UL + ++n); return 0; }
int pthread_join(pthread_t, void **r) { if (r) *r = 0; return 0; }
int pthread_detach(pthread_t) { return 0; }
}

inline int thread_count()
{
	int n = 0; FILE *f = fopen("/proc/self/status", "r"); if (!f) return 1;
	char l[256]; while (fgets(l, sizeof l, f)) if (sscanf(l, "Threads: %d", &n) == 1) break;
	fclose(f); return n ? n : 1;
}
inline void assert_single_threaded(const char *where)
{
	const int n = thread_count();
	if (n != 1) { fprintf(stderr, "forkbatch: %d threads in the forking process at %s: no verdict\n", n, where); fflush(stderr); _exit(2); }
}
inline void child_init()
{
	static bool done = false;
	if (!done) { done = true; FIX8::GlobalLogger::set_levels(FIX8::Logger::Levels(FIX8::Logger::None)); }
}

inline void warm_symbolizer()
{
#if defined(__SANITIZE_ADDRESS__)
	char sb[256]; __sanitizer_symbolize_pc((void *)&warm_symbolizer, "%f %s:%l", sb, sizeof sb);
#endif
}

// ---- one function in a forked child; its stderr and its result string come back through a pipe
struct Child { int status = 0; bool timed_out = false; std::string text, result; bool clean = false; };
template<class F> inline Child run_forked(F fn, int timeout_ms = 30000)
{
	Child c; int pf[2]; if (pipe(pf)) { c.text = "pipe failed"; c.status = -1; return c; }
	fflush(stderr);	// stdout is left alone: the child never writes to it and leaves with _exit
	assert_single_threaded("run_forked");
	pid_t pid = fork();
	if (pid == 0) {
		close(pf[0]); dup2(pf[1], 2); child_init();
		std::string r = fn();
		r = "\nRESULT:" + r + "\n";
		(void)!write(pf[1], r.data(), r.size());
		_exit(0);
	}
	close(pf[1]);
	char buf[4096]; int left = timeout_ms;
	for (;;) {
		struct pollfd pd { pf[0], POLLIN, 0 };
		int pr = poll(&pd, 1, 1000);
		if (pr < 0 && errno == EINTR) continue;
		if (pr > 0) { ssize_t n = read(pf[0], buf, sizeof buf); if (n < 0 && errno == EINTR) continue; if (n <= 0) break; if (c.text.size() < (1 << 20)) c.text.append(buf, n); }
		else { left -= 1000; if (left <= 0) { c.timed_out = true; kill(pid, SIGKILL); break; } }
	}
	close(pf[0]);
	while (waitpid(pid, &c.status, 0) < 0 && errno == EINTR) {}
	size_t rp = c.text.rfind("\nRESULT:");
	if (rp != std::string::npos) c.result = c.text.substr(rp + 8, c.text.find('\n', rp + 8) - rp - 8);
	c.clean = !c.timed_out && WIFEXITED(c.status) && WEXITSTATUS(c.status) == 0 && rp != std::string::npos;
	return c;
}

// ---- the batch executor
struct Batcher {
	vh::Run& R; std::function<void(const char *)> exec;
	// clause under which the death of a child inside the case `replay` is reported (mode starts with "hang:" for the watchdog)
	std::function<std::string(const std::string& replay, const std::string& mode)> clause_of;
	long long batch; bool is_child = false, complete = true;
	long long left = 0, ran = 0, resume_after = -1; int efd; bool warmed = false, nofork = false;
	long long confirm = -1;			// id of the case being re-run alone after a watchdog stop
	std::set<long long> skip;		// cases of the current batch that are settled (died, or were re-run alone): later children pass over them
	// what a child prints (statistics, violations of its own oracle) is buffered and written out together at every 256th case;
	// `flushed` (shared with the parent) is the last case id covered by what has been written.  After a death the next child
	// starts behind `flushed`, so every case is executed to its end and counted exactly once, whatever dies in between.
	struct Shm { volatile long long flushed; } *shm;
	Batcher(vh::Run& r, std::function<void(const char *)> e) : R(r), exec(e), batch(r.args.num("batch", 4000)), efd(memfd_create("fberr", 0))
	{
		nofork = r.args.has("nofork");
		shm = (Shm *)mmap(0, 4096, PROT_READ | PROT_WRITE, MAP_SHARED | MAP_ANONYMOUS, -1, 0); shm->flushed = -1;
		clause_of = [](const std::string&, const std::string& mode) { return mode.compare(0, 5, "hang:") == 0 ? std::string("no-hang") : std::string("memory-safe-and-total"); };
	}
	bool stop() const { return !complete; }
	void flush_child(long long upto)
	{
		R.finish(true); fflush(stdout); shm->flushed = upto;
		R.evaluations = R.nontrivial = R.violations = 0; R.outcomes.clear();
	}
	void child_done(long long upto) { stop_watchdog(); flush_child(upto); _exit(0); }
	static std::vector<std::string> split(const std::string& s, char c)
	{ std::vector<std::string> o; std::string x; std::istringstream is(s); while (std::getline(is, x, c)) if (!x.empty()) o.push_back(x); return o; }
	void read_cur(long long& cid, std::vector<std::string>& tags, std::string& rep)
	{
		cid = -1; if (!R.cur) return;
		long long i; size_t m, n; int h = 0;
		if (sscanf(R.cur, "%lld %zu %zu\n%n", &i, &m, &n, &h) < 3 || !h) return;
		cid = i; tags = split(std::string(R.cur + h, m), ','); rep.assign(R.cur + h + m, n);
	}
	bool late() { if (R.deadline && vh::Run::now() > R.deadline) { complete = false; return true; } return false; }
	// for every case id of this shard, in enumeration order
	void on_case(unsigned long long id, const char *d)
	{
		if (nofork) {	// developer aid (profiling): everything in this process, no protection
			child_init();
			if ((ran & 0xff) == 0 && late()) return;
			++ran; ++wd_seq; exec(d); return;
		}
		if (!is_child) {
			if (left == 0) {
				if (late()) return;
				skip.clear(); confirm = -1;
				for (;;) {
					fflush(stdout); fflush(stderr);
					(void)!ftruncate(efd, 0); lseek(efd, 0, SEEK_SET);
					if (R.cur) R.cur[0] = 0;
					if (confirm < 0) shm->flushed = resume_after;
					assert_single_threaded("batch");
					pid_t pid = fork();
					if (pid == 0) {
						child_init();
						is_child = true; ran = 0; dup2(efd, 2); wd_limit = confirm >= 0 ? 20 : 4; start_watchdog(false);
						setvbuf(stdout, nullptr, _IOFBF, 1 << 20);
						R.evaluations = R.nontrivial = R.violations = 0; R.outcomes.clear();
						break;
					}
					int st = 0; while (waitpid(pid, &st, 0) < 0 && errno == EINTR) {}
					const bool ok = WIFEXITED(st) && WEXITSTATUS(st) == 0;
					if (ok && confirm < 0) break;	// the batch is complete
					if (ok) {
						// the case the watchdog stopped ran to its end when given five times the CPU time: the machine was slow, not the case
						R.outcome("watchdog-false-alarm"); skip.insert(confirm); confirm = -1; continue;
					}
					// the child died inside a case
					std::string err; { char buf[4096]; lseek(efd, 0, SEEK_SET); ssize_t k; while ((k = read(efd, buf, sizeof buf)) > 0 && err.size() < (1 << 18)) err.append(buf, k); }
					long long cid; std::vector<std::string> tags; std::string rep; read_cur(cid, tags, rep);
					const std::string mode = crash_mode(err, st);
					const bool hang = mode.compare(0, 5, "hang:") == 0;
					if (!warmed) { warmed = true; warm_symbolizer(); }	// load the debug information once, so that the reports of later children are cheap
					if (cid < 0) { fprintf(stderr, "forkbatch: a batch child died before announcing a case; giving up on this shard\n%s", err.substr(0, 3000).c_str()); R.finish(false); exit(3); }
					if (confirm < 0) resume_after = shm->flushed;	// what the dead child had written out stays; the rest is run again
					if (hang && confirm < 0) {
						// 2 s of CPU time in one case.  On an overloaded machine that happens to innocent cases (CPU time is charged for
						// contention in the kernel); run this one case again, alone, with 10 s: a loop is still a loop then.
						if (late()) return;
						confirm = cid; continue;
					}
					confirm = -1; skip.insert(cid);
					++R.evaluations;	// the case that died counts as evaluated (its child could not report it)
					R.outcome(hang ? "hang" : "crash:" + mode);
					R.viol(clause_of(rep, mode), mode, tags, rep, hang ? "no return after 2 s (and again after 10 s) of CPU time" : mode,
						"returns or throws a library exception; no sanitizer report, no signal, no hang", err.substr(0, 1500));
					fwrite(err.data(), 1, std::min<size_t>(err.size(), 6000), stderr);
					if (late()) return;
				}
				if (!is_child) { left = batch; resume_after = -1; }
			}
			if (!is_child) { --left; return; }
		}
		// child
		if (confirm >= 0) {	// only that one case
			if ((long long)id == confirm) { ++wd_seq; exec(d); stop_watchdog(); R.finish(true); fflush(stdout); _exit(0); }
			return;
		}
		if ((long long)id > resume_after && !skip.count((long long)id)) { ++wd_seq; exec(d); }
		if (++ran >= batch) child_done((long long)id);
		if ((ran & 0xff) == 0) { ++wd_seq; flush_child((long long)id); }
	}
	void end() { if (is_child) { if (confirm >= 0) { stop_watchdog(); _exit(0); } child_done(1LL << 62); } }
};

} // namespace fb

// hooks the sanitizer runtimes call when they start a report
extern "C" __attribute__((weak)) void __asan_on_error() { fb::wd_in_report = 1; }
extern "C" __attribute__((weak)) void __ubsan_on_report() { fb::wd_in_report = 1; }
