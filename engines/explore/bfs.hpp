// bfs.hpp — explicit-state breadth-first search over event histories (DESIGN §2.2).
// Live fix8 objects cannot be copied, so a state is the history that reaches it: every explored history is replayed
// on fresh real objects; states are deduplicated by a canonical key computed by the model.
//
// Model concept:
//   int  nevents() const;                       size of the event menu (simplest first)
//   std::string evname(int) const;              printable name
//   Step run(const std::vector<int>& h, bool verbose);   fresh world, replay h, judge the LAST event
// A violating history is reported through vh::Run by the model itself (run() gets `verbose` for replays).
#pragma once
#include "vh.hpp"
#include <vector>
#include <string>
#include <unordered_set>

namespace bfs {
using Hist = std::vector<int>;

struct Step {
	bool enabled = true;	// the last event was applicable in the state reached by the prefix
	bool violated = false;	// the oracle failed on the last event (branch is not extended)
	std::string key;		// canonical state after the history
	std::string outcome;	// short label of what the last event did (vacuity histogram)
	bool terminal = false;	// probe event: judged, never extended, not a state
};

inline std::string hist_str(const Hist& h)
{ std::string s; for (size_t i = 0; i < h.size(); ++i) { if (i) s += ','; s += std::to_string(h[i]); } return s; }
inline Hist parse_hist(const std::string& s)
{ Hist h; std::istringstream is(s); std::string x; while (std::getline(is, x, ',')) if (!x.empty()) h.push_back(atoi(x.c_str())); return h; }

template<class Model>
void explore(Model& M, vh::Run& R, int depth, const std::string& cfgname, int shard_depth = 2, int first_probe_event = -1)
{
	// first_probe_event >= 0: events from that index on are probes (final steps).  Then the (small) prefix menu is explored
	// by every shard and the probes are sharded by the hash of the whole history.
	const int nev = M.nevents();
	std::unordered_set<uint64_t> seen; std::vector<uint64_t> fresh;
	std::vector<Hist> frontier(1), next;
	{
		Step r0 = M.run(Hist(), false); seen.insert(vh::fnv(r0.key)); fresh.push_back(vh::fnv(r0.key));
		// determinism rule: the same history replayed twice must give the same canonical state
		Step r1 = M.run(Hist(), false);
		if (r1.key != r0.key) { fprintf(stderr, "NONDETERMINISM: root state differs between two builds\n%s\n%s\n", r0.key.c_str(), r1.key.c_str()); exit(2); }
	}
	if (shard_depth > depth) shard_depth = depth;
	long long& id = R.case_seq; bool complete = true; int maxd = 0;
	for (int level = 0; level < depth && !frontier.empty(); ++level) {
		next.clear();
		for (const Hist& h : frontier) {
			if (R.out_of_time()) { complete = false; break; }
			for (int ev = 0; ev < nev; ++ev) {
				Hist h2(h); h2.push_back(ev);
				if (first_probe_event >= 0) { if (ev >= first_probe_event && vh::fnv(hist_str(h2)) % R.shard_n != R.shard_k) continue; }
				else if ((int)h2.size() == shard_depth && vh::fnv(hist_str(h2)) % R.shard_n != R.shard_k) continue;
				++id;
				if (id < R.from) continue;	// resume after a crash: skip what was already run
				const std::string hs = cfgname + ";" + hist_str(h2);
				R.begin_case(hs, "", id);
				Step r = M.run(h2, false);
				if (!r.enabled) { --R.evaluations; continue; }
				++R.transitions; R.outcome(M.evname(ev) + ":" + r.outcome);
				if ((int)h2.size() > maxd) maxd = (int)h2.size();
				if (r.violated || r.terminal) continue;
				uint64_t k = vh::fnv(r.key);
				if (seen.insert(k).second) {
					fresh.push_back(k); ++R.nontrivial;
					if ((int)h2.size() < depth) next.push_back(h2);
					if (fresh.size() >= 4096) { R.states(fresh); fresh.clear(); }
					if (R.samples_emitted < 3 && (int)h2.size() == std::min(depth, 3)) {
						std::string d; for (int e : h2) d += M.evname(e) + " "; R.sample(hs, d + "=> " + r.key.substr(0, 300));
					}
				}
			}
		}
		if (!complete) break;
		frontier.swap(next);
	}
	if (!fresh.empty()) R.states(fresh);
	R.counters["max_depth"] = std::max<long long>(R.counters["max_depth"], maxd);
	R.traces = R.transitions;
	if (!complete) R.hit_deadline = true;
}

} // namespace bfs
