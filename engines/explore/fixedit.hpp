// fixedit.hpp — token-level view of FIX messages for the decoder checks C04 / C05:
//   * token lists (tag text, value text) taken from the reference serializer, edit primitives, re-assembly with
//     BodyLength / CheckSum recomputed by plain loops;
//   * refaccept(): the reference acceptor — the sentence of property C04 implemented literally over the independent
//     schema model (engines/explore/schema.hpp): checksum right; every tag a field number defined for the place it
//     stands (header, body, trailer or the enclosing group; 8, 9, 35 first, second, third); no non-group field
//     repeats; all mandatory fields present; every group element begins with the group's first field.  Nothing else
//     is demanded: no order inside a section, no count == number of elements, no value syntax;
//   * comparison of a decoded (read back) tree with the parse refaccept produced (order-insensitive inside a
//     section / element, numeric fields compared by value).
// Shares nothing with fix8's decoder: no FieldTraits, no generated tables.
#pragma once
#include "msggen.hpp"
#include <cxxabi.h>
#include <climits>
#include <sys/wait.h>
#include <dirent.h>

namespace fe {
using sm::Schema; using sm::Member; using sm::MsgDef;
const char SOH = '\x01';

struct Tok { std::string tag, val; };
using Toks = std::vector<Tok>;

inline std::string exname(const std::exception& e)
{
	int st; char *d = abi::__cxa_demangle(typeid(e).name(), 0, 0, &st);
	std::string r = d ? d : typeid(e).name(); free(d);
	size_t lt = r.find('<'); if (lt != std::string::npos) r.erase(lt);	// InvalidDomainValue<std::string> -> InvalidDomainValue
	size_t p = r.rfind("::"); return p == std::string::npos ? r : r.substr(p + 2);
}

inline Toks from_wire(const Schema& s, const std::string& w)
{
	Toks o;
	for (auto& k : mg::tokenize(w, &s)) {
		if (!k.wellformed) throw std::runtime_error("reference wire image does not tokenize: " + vh::show(w));
		o.push_back({ k.tag, k.val });
	}
	return o;
}
inline std::string tokbytes(const Tok& t) { return t.tag + "=" + t.val + SOH; }

// wire image of a token list.  fix_len: token 1, when it is "9", gets the number of bytes between its SOH and the
// final "10" token (or the end); fix_sum: the final token, when it is "10", gets the byte sum mod 256 of everything before it.
inline std::string assemble(Toks& t, bool fix_len, bool fix_sum)
{
	const bool has10 = !t.empty() && t.back().tag == "10";
	if (fix_len && t.size() > 1 && t[1].tag == "9") {
		size_t n = 0; for (size_t i = 2; i < t.size() - (has10 ? 1 : 0); ++i) n += t[i].tag.size() + t[i].val.size() + 2;
		t[1].val = std::to_string(n);
	}
	std::string out;
	for (size_t i = 0; i < t.size(); ++i) {
		if (fix_sum && has10 && i + 1 == t.size()) {
			unsigned sum = 0; for (unsigned char c : out) sum += c;
			char b[8]; snprintf(b, sizeof b, "%03u", sum % 256); t[i].val = b;
		}
		out += tokbytes(t[i]);
	}
	return out;
}
inline std::string show(const Toks& t) { std::string o; for (auto& k : t) o += k.tag + "=" + vh::show(k.val) + "|"; return o; }

// The decoder checks run hundreds of thousands of throwing Message::factory calls per process (each leaks its
// half-built message) and on this machine touching fresh memory is what costs: with the driver's default ASan options
// (16 MB quarantine, freed pages handed back to the OS every 5 s) a case costs ~8 ms, with a small quarantine ~1 ms.
// ASan reads its options once at start-up, so the harness re-executes itself once with the options appended.
// All checks stay on (the quarantine only delays reuse of freed blocks; use-after-free of a block that was
// not yet reused is still reported through its poisoned shadow as long as it sits in the 1 MB quarantine).
inline void reexec_small_quarantine(char **argv)
{
	if (getenv("VERIF_ASAN_TUNED")) return;
	const char *o = getenv("ASAN_OPTIONS"); std::string s = o ? o : "";
	s += std::string(s.empty() ? "" : ":") + "quarantine_size_mb=1:thread_local_quarantine_size_kb=64:allocator_release_to_os_interval_ms=-1";
	setenv("ASAN_OPTIONS", s.c_str(), 1); setenv("VERIF_ASAN_TUNED", "1", 1);
	execv("/proc/self/exe", argv);
}

// Enumeration in forked children of `chunk` ids each (chunk <= 0: in this process).  enumerate(lo, hi, count_only) walks
// the whole id space in its fixed order, runs the ids in [lo, hi) that belong to this shard and returns the number of
// ids, or -1 when the deadline ended it.  Every child prints its own stat record (the driver adds them up); a child
// that dies inside a case makes the parent exit with 70 so that the driver attributes the case and resumes after it.
// Purpose: a throwing Message::factory leaks the half-built message, millions of cases per process would not fit.
template<class F> inline int run_chunked(vh::Run& R, long long chunk, F enumerate)
{
	if (chunk <= 0) {
		const double t0 = vh::Run::now(); long long r = enumerate(0LL, LLONG_MAX, false);
		if (getenv("VERIF_PROF")) fprintf(stderr, "enumeration: %lld cases in %.2f s\n", R.evaluations, vh::Run::now() - t0);
		R.finish(r >= 0); return 0;
	}
	const long long total = enumerate(0LL, 0LL, true);
	{	// the forking process must be single-threaded (see the harnesses: the logger thread is started in the children only)
		int nt = 0; if (DIR *d = opendir("/proc/self/task")) { while (struct dirent *e = readdir(d)) if (e->d_name[0] != '.') ++nt; closedir(d); }
		if (nt > 1) { fprintf(stderr, "run_chunked: %d threads in the forking process\n", nt); return 3; }
	}
	bool done = true;
	for (long long lo = 0; lo < total && done; lo += chunk) {
		if (lo + chunk <= R.from) continue;
		fflush(stdout);
		pid_t pid = fork();
		if (pid == 0) { long long r = enumerate(lo, lo + chunk, false); R.finish(r >= 0); fflush(stdout); _exit(r >= 0 ? 0 : 4); }
		int st = 0; waitpid(pid, &st, 0);
		if (WIFEXITED(st) && WEXITSTATUS(st) == 4) done = false;
		else if (!WIFEXITED(st) || WEXITSTATUS(st) != 0) { fflush(stdout); _exit(70); }
	}
	printf("{\"t\":\"stat\",\"evaluations\":0,\"nontrivial\":0,\"violations\":0,\"done\":%s,\"outcomes\":{},\"counters\":{\"ids\":%lld}}\n", done ? "true" : "false", R.shard_k == 0 ? total : 0LL);
	fflush(stdout);
	return 0;
}

// ------------------------------------------------------------------------------------------ reference acceptor
// where a token stands according to the reference parse
struct Ctx { int sec = -1;		// 0 header, 1 body, 2 trailer
	int depth = 0;				// number of enclosing groups
	bool first = false;			// first field of a group element
	bool count = false;			// count field of a group with elements
	int group = 0;				// tag of the innermost enclosing group's count field
	const std::vector<Member> *ms = nullptr;	// the member list (section or group) the token was found in
};
struct Verdict {
	bool ok = false;
	std::string reason;			// short class: chksum, framing, tag-syntax, unknown-msgtype, unknown-tag, tag-gt-65535, misplaced, dup, group-first, missing
	std::string detail;
	size_t at = 0;				// index of the offending token (reason != missing/chksum)
	mg::Tree tree;				// the parse (header without 8/9/35, trailer without 10)
	std::vector<Ctx> ctx;		// per token, filled up to the offending one
};

inline const Member *find_member(const std::vector<Member>& ms, int tag)
{ for (auto& m : ms) if (m.tag == tag) return &m; return nullptr; }

// decimal field number; -1 when the text is not a plain decimal number without sign / leading zero
inline long tagnum(const std::string& t)
{
	if (t.empty() || t.size() > 9) return -1;
	for (char c : t) if (!isdigit((unsigned char)c)) return -1;
	if (t.size() > 1 && t[0] == '0') return -1;
	return atol(t.c_str());
}

struct RefParser {
	const Schema& S; const Toks& T; Verdict& V; size_t end;
	bool fail(size_t i, const char *why, const std::string& d) { V.ok = false; V.reason = why; V.detail = d; V.at = i; return false; }
	// group whose count token (index i-1, value text cnt) was just consumed; elements go to node.elems
	bool group(const Member& g, size_t& i, mg::Node& node, int sec, int depth)
	{
		if (atol(node.text.c_str()) <= 0) return true;	// announces no elements: what follows is outside the group
		const size_t cnt_at = i - 1;
		while (i < end) {
			long tg = tagnum(T[i].tag);
			const Member *m = tg < 0 ? nullptr : find_member(g.kids, (int)tg);
			if (!m) break;
			if (m != &g.kids[0])
				return fail(i, "group-first", "group " + std::to_string(g.tag) + ": an element begins with " + T[i].tag + " instead of the group's first field " + std::to_string(g.kids[0].tag));
			mg::NodeList elem; std::set<int> seen;
			while (i < end) {
				tg = tagnum(T[i].tag);
				m = tg < 0 ? nullptr : find_member(g.kids, (int)tg);
				if (!m || seen.count((int)tg)) break;
				seen.insert((int)tg);
				mg::Node n; n.tag = (int)tg; n.text = T[i].val; n.group = m->group;
				V.ctx[i].sec = sec; V.ctx[i].depth = depth; V.ctx[i].first = m == &g.kids[0]; V.ctx[i].group = g.tag; V.ctx[i].ms = &g.kids;
				++i;
				if (m->group) { V.ctx[i - 1].count = atol(n.text.c_str()) > 0; if (!group(*m, i, n, sec, depth + 1)) return false; }
				elem.push_back(n);
			}
			for (auto& k : g.kids) if (k.mandatory && !seen.count(k.tag))
				return fail(i, "missing", "group " + std::to_string(g.tag) + " element " + std::to_string(node.elems.size()) + ": mandatory field " + std::to_string(k.tag) + " absent");
			node.elems.push_back(elem);
		}
		if (node.elems.empty())
			return fail(i, "group-first", "group " + std::to_string(g.tag) + " announces " + node.text + " element(s) but the next token" + (i < end ? " " + T[i].tag : "") + " is not its first field " + std::to_string(g.kids[0].tag));
		(void)cnt_at;
		return true;
	}
};

// the walk over the tokens: section by section, group by group (everything of the sentence but the checksum)
inline void refwalk(const Schema& S, const Toks& T, Verdict& V)
{
	const MsgDef *md = nullptr;
	for (auto& k : T) if (k.tag == "35") { for (auto& m : S.msgs) if (m.msgtype == k.val) md = &m; V.tree.msgtype = k.val; break; }
	static const std::vector<Member> none;
	const std::vector<Member> *secs[3] = { &S.header, md ? &md->members : &none, &S.trailer };
	std::set<int> seen[3];
	RefParser P { S, T, V, T.size() };
	int sec = 0;
	for (size_t i = 0; i < T.size();) {
		const long tg = tagnum(T[i].tag);
		if (tg < 0) { P.fail(i, "tag-syntax", "'" + vh::show(T[i].tag) + "' is not a field number"); return; }
		if (tg == 35 && !md && !seen[0].count(35)) { P.fail(i, "unknown-msgtype", "MsgType '" + T[i].val + "' is not defined by the schema"); return; }
		const Member *m = nullptr; int s = sec;
		for (; s < 3; ++s) if ((m = find_member(*secs[s], (int)tg))) break;
		if (!m) {
			if (!S.fields.count((int)tg)) P.fail(i, tg > 65535 ? "tag-gt-65535" : "unknown-tag", "tag " + T[i].tag + " is not a field of the schema");
			else P.fail(i, "misplaced", "tag " + T[i].tag + " is not defined for the " + (sec == 0 ? "header, body or trailer" : sec == 1 ? "body or trailer" : "trailer") + " at this point (position rule header < body < trailer; group members only inside their group)");
			return;
		}
		sec = s;
		if (seen[sec].count((int)tg)) { P.fail(i, "dup", "field " + T[i].tag + " repeats in the " + (sec == 0 ? "header" : sec == 1 ? "body" : "trailer")); return; }
		seen[sec].insert((int)tg);
		mg::Node n; n.tag = (int)tg; n.text = T[i].val; n.group = m->group;
		V.ctx[i].sec = sec; V.ctx[i].ms = secs[sec];
		++i;
		if (m->group) { V.ctx[i - 1].count = atol(n.text.c_str()) > 0; if (!P.group(*m, i, n, sec, 1)) return; }
		if (tg != 8 && tg != 9 && tg != 35 && tg != 10) (sec == 0 ? V.tree.header : sec == 1 ? V.tree.body : V.tree.trailer).push_back(n);
	}
	for (int s = 0; s < 3; ++s) for (auto& k : *secs[s]) if (k.mandatory && !seen[s].count(k.tag)) {
		V.reason = "missing"; V.detail = std::string("mandatory ") + (s == 0 ? "header" : s == 1 ? "body" : "trailer") + " field " + std::to_string(k.tag) + " absent"; V.at = T.size(); return;
	}
	V.ok = true;
}

inline Verdict refaccept(const Schema& S, const Toks& T)
{
	Verdict V; V.ctx.resize(T.size());
	// checksum: the last token is 10=<three digits> = byte sum mod 256 of everything before it
	{
		if (T.empty() || T.back().tag != "10") { V.reason = "chksum"; V.detail = "message does not end with a CheckSum field"; V.at = T.size(); return V; }
		unsigned sum = 0;
		for (size_t i = 0; i + 1 < T.size(); ++i) { for (unsigned char c : T[i].tag) sum += c; for (unsigned char c : T[i].val) sum += c; sum += '=' + SOH; }
		char b[8]; snprintf(b, sizeof b, "%03u", sum % 256);
		if (T.back().val != b) { V.reason = "chksum"; V.detail = "CheckSum " + T.back().val + ", byte sum mod 256 is " + b; V.at = T.size() - 1; return V; }
	}
	// BeginString, BodyLength and MsgType are the fields whose place in the header is fixed: first, second, third
	// ("defined for the position where it appears"; a message that does not begin with them is not delimited at all)
	if (T.size() < 4 || T[0].tag != "8" || T[1].tag != "9" || T[2].tag != "35") {
		V.reason = "framing"; V.detail = "the message does not begin with 8=, 9=, 35="; V.at = 0;
		for (size_t i = 0; i < 3 && i < T.size(); ++i) if (T[i].tag != (i == 0 ? "8" : i == 1 ? "9" : "35")) { V.at = i; break; }
		Verdict W; W.ctx.resize(T.size()); refwalk(S, T, W); V.ctx = W.ctx;
		return V;
	}
	refwalk(S, T, V);
	if (!V.ok) {
		// when the walk stopped at (or, closing a group, because of) a token whose tag is no field number of the schema at
		// all, that token is what is wrong with the message: name it, not the consequence (a group element cut short by it)
		for (size_t i = 0; i < T.size() && i <= V.at; ++i) {
			const long tg = tagnum(T[i].tag);
			if (tg >= 0 && S.fields.count((int)tg)) continue;
			if (i == V.at || V.reason == "missing") {
				V.reason = tg < 0 ? "tag-syntax" : tg > 65535 ? "tag-gt-65535" : "unknown-tag"; V.detail = "tag " + vh::show(T[i].tag) + " is not a field of the schema"; V.at = i;
			}
			break;
		}
	}
	return V;
}

// ------------------------------------------------------------------------------------------ comparing trees
inline bool int_syntax(const std::string& t)
{ size_t i = (!t.empty() && t[0] == '-') ? 1 : 0; if (i == t.size()) return false; for (; i < t.size(); ++i) if (!isdigit((unsigned char)t[i])) return false; return true; }
// the number a text denotes, if it denotes one: [+-] digits [. digits] | [+-] . digits   (nothing else: no blanks, no
// exponent, no hex, no trailing characters)
inline bool numeric_reading(const std::string& t, long double& v)
{
	size_t i = 0; if (i < t.size() && (t[i] == '-' || t[i] == '+')) ++i;
	size_t nd = 0, ndot = 0;
	for (size_t j = i; j < t.size(); ++j) { if (isdigit((unsigned char)t[j])) ++nd; else if (t[j] == '.') ++ndot; else return false; }
	if (!nd || ndot > 1) return false;
	v = strtold(t.c_str(), 0); return true;
}
// "value of the text": integer and float fields by the number the text denotes (a text that denotes no number equals
// nothing), everything else as mg::value_eq
inline bool val_eq(const Schema& s, int tag, const std::string& a, const std::string& b)
{
	auto f = s.fields.find(tag);
	if (f != s.fields.end() && (f->second.vclass() == sm::V_INT || f->second.vclass() == sm::V_FLOAT)) {
		long double x, y; if (!numeric_reading(a, x) || !numeric_reading(b, y)) return false;
		if (f->second.vclass() == sm::V_INT) return x == y;
		return (double)x == (double)y || fabsl(x - y) <= 1e-9L * std::max<long double>(1, fabsl(x));
	}
	if (a == b) return true;
	return mg::value_eq(s, tag, a, b);
}
inline void sort_nodes(mg::NodeList& nl)
{
	std::stable_sort(nl.begin(), nl.end(), [](const mg::Node& a, const mg::Node& b) { return a.tag < b.tag; });
	for (auto& n : nl) for (auto& e : n.elems) sort_nodes(e);
}
// `want` (input) against `got` (decoded); both sorted by tag inside each section / element.  Returns "" or
// (mode, description): field-dropped, field-added, value-differs, element-count
inline std::pair<std::string, std::string> cmp_nodes(const Schema& s, const mg::NodeList& want, const mg::NodeList& got, const std::string& where)
{
	size_t i = 0, j = 0;
	while (i < want.size() || j < got.size()) {
		if (j == got.size() || (i < want.size() && want[i].tag < got[j].tag))
			return { "field-dropped", where + ": input field " + std::to_string(want[i].tag) + "=" + vh::show(want[i].text) + " is not in the decoded message" };
		if (i == want.size() || got[j].tag < want[i].tag)
			return { "field-added", where + ": decoded message has field " + std::to_string(got[j].tag) + "=" + vh::show(got[j].text) + " that the input does not have there" };
		if (!val_eq(s, want[i].tag, want[i].text, got[j].text))
			return { "value-differs", where + ": field " + std::to_string(want[i].tag) + " text '" + vh::show(want[i].text) + "' decoded as '" + vh::show(got[j].text) + "'" };
		if (want[i].elems.size() != got[j].elems.size())
			return { "element-count", where + ": group " + std::to_string(want[i].tag) + " has " + std::to_string(want[i].elems.size()) + " element(s) in the input, " + std::to_string(got[j].elems.size()) + " decoded" };
		for (size_t e = 0; e < want[i].elems.size(); ++e) {
			auto d = cmp_nodes(s, want[i].elems[e], got[j].elems[e], where + "/" + std::to_string(want[i].tag) + "[" + std::to_string(e) + "]");
			if (!d.first.empty()) return d;
		}
		++i; ++j;
	}
	return { "", "" };
}
inline std::pair<std::string, std::string> cmp_trees(const Schema& s, mg::Tree want, mg::Tree got)
{
	if (want.msgtype != got.msgtype) return { "value-differs", "MsgType " + want.msgtype + " decoded as " + got.msgtype };
	sort_nodes(want.header); sort_nodes(want.body); sort_nodes(want.trailer);
	sort_nodes(got.header); sort_nodes(got.body); sort_nodes(got.trailer);
	auto d = cmp_nodes(s, want.header, got.header, "header"); if (!d.first.empty()) return d;
	d = cmp_nodes(s, want.body, got.body, "body"); if (!d.first.empty()) return d;
	return cmp_nodes(s, want.trailer, got.trailer, "trailer");
}

// position class of "insert before token p" in a conforming token list with contexts cx (from refaccept)
inline std::string pos_class(const std::vector<Ctx>& cx, size_t p)
{
	static const char *sn[] = { "header", "body", "trailer" };
	if (p >= cx.size() || p == 0) return "end";
	const Ctx& nx = cx[p]; const Ctx& pv = cx[p - 1];
	if (nx.depth > 0) return std::string(nx.depth > 1 ? "nested_group" : "group") + (nx.first && !(pv.count && pv.depth == nx.depth - 1) ? ":between_elements" : nx.first ? ":before_first_element" : ":inside_element");
	if (pv.depth > 0 || pv.count) return std::string("after_group:") + sn[pv.sec];	// directly after the last element of a group
	if (pv.sec == nx.sec) return sn[nx.sec];
	return std::string(sn[pv.sec]) + "/" + sn[nx.sec];
}

} // namespace fe
