// msggen.hpp — generic message lattice (DESIGN §2.7): abstract trees built from the independent schema model,
// an independent reference serializer/tokenizer, construction of the fix8 object and read-back of a fix8 object.
#pragma once
#include <fix8/f8includes.hpp>
#include "schema.hpp"
#include <cmath>
#include <algorithm>

namespace mg {
using namespace FIX8;
using sm::Schema; using sm::Member; using sm::FieldDef; using sm::MsgDef;

const char SOH = '\x01';

// ---------------------------------------------------------------------------------------------- abstract tree
struct Node {
	int tag = 0; std::string text; bool group = false;
	std::vector<std::vector<Node>> elems;	// group: elements, each an ordered member list
};
using NodeList = std::vector<Node>;
struct Tree { std::string msgtype; NodeList header, body, trailer; };	// header without 8/9/35, trailer without 10

inline void ser_nodes(const NodeList& nl, std::string& out)
{
	for (auto& n : nl) {
		out += std::to_string(n.tag); out += '='; out += n.text; out += SOH;
		for (auto& e : n.elems) ser_nodes(e, out);
	}
}
// reference serializer: what a well-formed FIX message for this tree looks like on the wire
inline std::string serialize(const Schema& s, const Tree& t)
{
	std::string mid = "35=" + t.msgtype + SOH;
	ser_nodes(t.header, mid); ser_nodes(t.body, mid); ser_nodes(t.trailer, mid);
	std::string out = "8=" + s.beginstr + SOH + "9=" + std::to_string(mid.size()) + SOH + mid;
	unsigned sum = 0; for (unsigned char c : out) sum += c;
	char b[16]; snprintf(b, sizeof b, "10=%03u%c", sum % 256, SOH);
	return out + b;
}
inline std::string show_nodes(const NodeList& nl)
{ std::string o; ser_nodes(nl, o); return vh::show(o); }
inline size_t count_nodes(const NodeList& nl)
{ size_t n = 0; for (auto& x : nl) { ++n; for (auto& e : x.elems) n += count_nodes(e); } return n; }
inline bool has_group(const NodeList& nl) { for (auto& x : nl) if (x.group && !x.elems.empty()) return true; return false; }
inline int group_depth(const NodeList& nl)
{ int d = 0; for (auto& x : nl) for (auto& e : x.elems) d = std::max(d, 1 + group_depth(e)); return d; }

// ---------------------------------------------------------------------------------------------- token level
struct Token { std::string tag, val; size_t off, len; bool wellformed; };
// independent tokenizer: splits at SOH, then at the first '='.  `datalen` support: if the previous token is a Length
// field of the schema that is paired with this tag, the value is taken by length.
inline std::vector<Token> tokenize(const std::string& m, const Schema *s = nullptr)
{
	std::vector<Token> out; size_t i = 0; long pending_len = -1; int pending_tag = 0;
	while (i < m.size()) {
		size_t eq = m.find('=', i);
		Token t; t.off = i; t.wellformed = true;
		if (eq == std::string::npos) { t.tag = m.substr(i); t.len = m.size() - i; t.wellformed = false; out.push_back(t); break; }
		t.tag = m.substr(i, eq - i);
		size_t end;
		if (pending_len >= 0 && atoi(t.tag.c_str()) == pending_tag && eq + 1 + pending_len < m.size() && m[eq + 1 + pending_len] == SOH)
			end = eq + 1 + pending_len;
		else end = m.find(SOH, eq + 1);
		pending_len = -1;
		if (end == std::string::npos) { t.val = m.substr(eq + 1); t.len = m.size() - i; t.wellformed = false; out.push_back(t); break; }
		t.val = m.substr(eq + 1, end - eq - 1); t.len = end + 1 - i;
		for (char c : t.tag) if (!isdigit((unsigned char)c)) t.wellformed = false;
		if (t.tag.empty() || (t.tag.size() > 1 && t.tag[0] == '0')) t.wellformed = false;
		out.push_back(t);
		if (s && t.wellformed) {
			auto f = s->fields.find(atoi(t.tag.c_str()));
			if (f != s->fields.end() && f->second.is_length() && f->second.num != 9) {
				auto d = s->fields.find(f->second.num + 1);
				// pairing rule of the schemas: the data field that follows a Length field in the member list; the wire rule
				// fix8 implements is "tag + 1"; 93/89 is handled by the caller through pair_of()
				pending_len = atol(t.val.c_str()); pending_tag = f->second.num + 1;
				if (f->second.num == 93) pending_tag = 89;
				(void)d;
			}
		}
		i = end + 1;
	}
	return out;
}

// ---------------------------------------------------------------------------------------------- value alphabets
inline const std::vector<std::string>& alphabet(sm::VClass c, const FieldDef& f)
{
	static const std::vector<std::string> ints { "0", "1", "7", "-1", "10", "-10", "2147483647", "-2147483648" };
	static const std::vector<std::string> dom { "1", "31" };
	static const std::vector<std::string> counts { "1" };
	static const std::vector<std::string> chars { "A", "1", "=", " ", "~" };
	static const std::vector<std::string> bools { "Y", "N" };
	// the telling values first (the quick tiers use the first 2-4 indices): zero, a negative value with a zero whole part, a fraction, a negative whole number
	static const std::vector<std::string> floats { "0", "-0.25", "400.5", "-1", "1", "0.5", "0.01", "-0.99", "123456.78", "2147483647", "-0.01" };
	static const std::vector<std::string> strs { "A", "a=b", "x y", "~!@#$%^&*()_+", "ABCDEFGHIJKLMNOPQRSTUVWXYZabcdefghijklmn", "10=000", "34=9" };
	static const std::vector<std::string> ts { "19700101-00:00:00.000", "20000229-23:59:59.999", "20380119-03:14:08.000", "20991231-23:59:59.999", "20240229-12:00:00", "20240301-00:00:00.000", "20240331-23:59:59.999", "20000101-00:00:00.000" };
	static const std::vector<std::string> to { "00:00:00.000", "23:59:59.999", "12:34:56.789" };
	static const std::vector<std::string> dt { "19700101", "20240229", "20991231", "20240301", "20000131" };
	static const std::vector<std::string> my { "197001", "209912", "20240229", "202403", "200002" };
	static const std::vector<std::string> data { "d", "a=b", "0123456789" };
	static const std::vector<std::string> lens { "0", "1", "5", "2048", "8192" };
	static const std::vector<std::string> seqs { "0", "1", "7", "10", "2147483647" };	// SeqNum / TagNum / NumInGroup domain: non-negative
	static const std::vector<std::string> tagn { "1", "7", "9999" };
	switch (c) {
	case sm::V_INT: return f.type == "DAYOFMONTH" ? dom : f.type == "LENGTH" ? lens : f.type == "SEQNUM" || f.type == "NUMINGROUP" ? seqs : f.type == "TAGNUM" ? tagn : ints;
	case sm::V_CHAR: return chars;
	case sm::V_BOOL: return bools;
	case sm::V_FLOAT: return floats;
	case sm::V_TIMESTAMP: return ts;
	case sm::V_TIMEONLY: return to;
	case sm::V_DATEONLY: case sm::V_LOCALMKTDATE: return dt;
	case sm::V_MONTHYEAR: return my;
	case sm::V_DATA: return data;
	default: return strs;
	}
}
const int MAXALPHA = 9;

// text of field `f` for value index vi (and a position salt when vi >= MAXALPHA: rotated assignment)
inline std::string value_text(const FieldDef& f, int vi, int salt)
{
	int idx = vi < MAXALPHA ? vi : vi - MAXALPHA + salt;
	if (f.realm == 1 && !f.vals.empty()) {	// enumerated set: members, then one non-member of the same type
		size_t n = f.vals.size() + 1; size_t k = idx % n;
		// a CHAR field holds one character: multi-character enum texts (FIX44 MiscFeeType "10") are outside its domain
		if (k < f.vals.size() && !(f.vclass() == sm::V_CHAR && f.vals[k].value.size() != 1)) return f.vals[k].value;
		switch (f.vclass()) { case sm::V_INT: return "9999"; case sm::V_CHAR: return "~"; case sm::V_BOOL: return "N"; case sm::V_FLOAT: return "9999.5"; default: return "ZZNOTAMEMBER"; }
	}
	if (f.realm == 2 && f.vals.size() >= 2 && f.vclass() == sm::V_INT) {
		long lo = atol(f.vals[0].value.c_str()), hi = atol(f.vals[1].value.c_str());
		long cand[] = { lo, hi, (lo + hi) / 2, lo - 1, hi + 1 };
		return std::to_string(cand[idx % 5]);
	}
	const auto& a = alphabet(f.vclass(), f);
	return a[idx % a.size()];
}

// ---------------------------------------------------------------------------------------------- shapes
// mode: 0 = mandatory only; 1 = all members, groups with n elements; 2 = mandatory + the k-th optional member
struct ShapeCtx { const Schema *s; int vi; int nelem; int *salt; };

inline NodeList make_members(const std::vector<Member>& ms, int mode, int k_opt, ShapeCtx& c, int depth = 0);

inline Node make_node(const Member& m, int submode, ShapeCtx& c, int depth, int nelem_override = -1)
{
	Node n; n.tag = m.tag; n.group = m.group;
	const FieldDef& f = c.s->fields.at(m.tag);
	if (m.group) {
		int ne = nelem_override >= 0 ? nelem_override : c.nelem;
		n.text = std::to_string(ne);
		for (int e = 0; e < ne; ++e) n.elems.push_back(make_members(m.kids, submode, -1, c, depth + 1));
	} else n.text = value_text(f, c.vi, (*c.salt)++);
	return n;
}

// fix up Length/data pairs: a LENGTH member immediately followed by a DATA member => length text = data size
inline void fix_pairs(const Schema& s, NodeList& nl)
{
	for (size_t i = 0; i + 1 < nl.size(); ++i) {
		const FieldDef& a = s.fields.at(nl[i].tag); const FieldDef& b = s.fields.at(nl[i + 1].tag);
		if (a.is_length() && b.vclass() == sm::V_DATA) nl[i].text = std::to_string(nl[i + 1].text.size());
	}
	for (auto& n : nl) for (auto& e : n.elems) fix_pairs(s, e);
}
// a data member is only ever generated together with its Length member (and vice versa when the Length directly precedes data)
inline bool pair_partner(const Schema& s, const std::vector<Member>& ms, size_t i, size_t& partner)
{
	const FieldDef& f = s.fields.at(ms[i].tag);
	if (f.is_length() && i + 1 < ms.size() && s.fields.at(ms[i + 1].tag).vclass() == sm::V_DATA) { partner = i + 1; return true; }
	if (f.vclass() == sm::V_DATA && i > 0 && s.fields.at(ms[i - 1].tag).is_length()) { partner = i - 1; return true; }
	return false;
}

inline NodeList make_members(const std::vector<Member>& ms, int mode, int k_opt, ShapeCtx& c, int depth)
{
	NodeList out; int optidx = 0;
	std::vector<bool> take(ms.size(), false);
	for (size_t i = 0; i < ms.size(); ++i) {
		const Member& m = ms[i];
		bool t = m.mandatory || mode == 1 || (depth > 0 && i == 0);	// a group element always begins with the group's first field
		if (!m.mandatory) { if (mode == 2 && optidx == k_opt) t = true; ++optidx; }
		if (t) take[i] = true;
	}
	for (size_t i = 0; i < ms.size(); ++i) { size_t p; if (take[i] && pair_partner(*c.s, ms, i, p)) take[p] = true; }
	for (size_t i = 0; i < ms.size(); ++i) {
		if (!take[i]) continue;
		// inside: mode 2 populates the chosen optional group with all members, one element
		out.push_back(make_node(ms[i], mode == 0 ? 0 : 1, c, depth, mode == 0 ? std::max(1, c.nelem) : -1));
	}
	return out;
}
inline int count_optional(const std::vector<Member>& ms) { int n = 0; for (auto& m : ms) if (!m.mandatory) ++n; return n; }

// header members the session/encoder fills in itself (8, 9, 35) and CheckSum (10) are not part of the abstract tree
inline std::vector<Member> strip(const std::vector<Member>& ms)
{ std::vector<Member> o; for (auto& m : ms) if (m.tag != 8 && m.tag != 9 && m.tag != 35 && m.tag != 10) o.push_back(m); return o; }

// ---------------------------------------------------------------------------------------------- fix8 side
// add one node (and its group elements) to a fix8 MessageBase through the metadata interface
inline void add_nodes(const F8MetaCntx& ctx, MessageBase *mb, const NodeList& nl, int order, GroupBase *parentgrp = nullptr)
{
	std::vector<size_t> idx(nl.size()); for (size_t i = 0; i < nl.size(); ++i) idx[i] = i;
	if (order == 1) std::reverse(idx.begin(), idx.end());
	else if (order == 2 && nl.size() > 1) std::rotate(idx.begin(), idx.begin() + 1, idx.end());
	for (size_t i : idx) {
		const Node& n = nl[i];
		BaseField *bf = ctx.create_field((unsigned short)n.tag, n.text.c_str());
		if (!bf) throw std::runtime_error("create_field returned null for tag " + std::to_string(n.tag));
		mb->add_field(bf);
		if (n.group && !n.elems.empty()) {
			GroupBase *gb = mb->find_add_group((unsigned short)n.tag, parentgrp);
			if (!gb) throw std::runtime_error("no group object for tag " + std::to_string(n.tag));
			for (auto& e : n.elems) {
				MessageBase *el = gb->create_group(true);
				add_nodes(ctx, el, e, order, gb);
				*gb << el;
			}
		}
	}
}
inline Message *build(const F8MetaCntx& ctx, const Tree& t, int order = 0)
{
	Message *m = ctx.create_msg(t.msgtype.c_str());
	if (!m) throw std::runtime_error("create_msg returned null for " + t.msgtype);
	try {
		add_nodes(ctx, m->Header(), t.header, order);
		add_nodes(ctx, m, t.body, order);
		add_nodes(ctx, m->Trailer(), t.trailer, order);
	} catch (...) { delete m; throw; }
	return m;
}
// read a fix8 object back into an abstract list, walking positions (the order the encoder uses)
inline NodeList readback(const Schema& s, const MessageBase *mb, bool skip_framing)
{
	NodeList out;
	for (auto& pp : mb->get_positions()) {
		const BaseField *bf = pp.second; int tag = bf->get_tag();
		if (skip_framing && (tag == 8 || tag == 9 || tag == 35 || tag == 10)) continue;
		Node n; n.tag = tag;
		auto f = s.fields.find(tag);
		// text of the decoded field: print(ostream); for floats the codec's own rendering print(char*), because the
		// stream form is a display form limited to the stream's precision (6 significant digits: 123456.78 -> "123457")
		if (f != s.fields.end() && f->second.vclass() == sm::V_FLOAT) { char b[256]; size_t l = bf->print(b); n.text.assign(b, l); }
		else { std::ostringstream os; bf->print(os); n.text = os.str(); }
		GroupBase *gb = mb->find_group((unsigned short)tag);
		if (gb) {
			n.group = true;
			for (size_t i = 0; i < gb->size(); ++i) n.elems.push_back(readback(s, gb->get_element(i), false));
		}
		out.push_back(n);
	}
	return out;
}
inline Tree readback(const Schema& s, const Message *m)
{
	Tree t; t.msgtype = m->get_msgtype();
	t.header = readback(s, m->Header(), true); t.body = readback(s, m, false); t.trailer = readback(s, m->Trailer(), true);
	return t;
}
// FIX float syntax: optional '-', digits with at most one '.', at least one digit
inline bool float_syntax(const std::string& t)
{
	size_t i = 0, nd = 0, ndot = 0; if (i < t.size() && t[i] == '-') ++i;
	for (; i < t.size(); ++i) { if (isdigit((unsigned char)t[i])) ++nd; else if (t[i] == '.') ++ndot; else return false; }
	return nd > 0 && ndot <= 1;
}
// equality of two wire texts of one field: floats denote the same number (fix8 renders 1 as "1.0"), everything else bytewise
inline bool value_eq(const Schema& s, int tag, const std::string& a, const std::string& b)
{
	if (a == b) return true;
	auto f = s.fields.find(tag);
	if (f != s.fields.end() && f->second.vclass() == sm::V_FLOAT)
		return float_syntax(a) && float_syntax(b) && strtod(a.c_str(), 0) == strtod(b.c_str(), 0);
	// a timestamp given in the seconds form "YYYYMMDD-HH:MM:SS" denotes the same instant as "YYYYMMDD-HH:MM:SS.000",
	// which is how fix8 renders it (the property speaks of values; its domain is timestamps at millisecond precision)
	if (f != s.fields.end() && f->second.vclass() == sm::V_TIMESTAMP) {
		auto canon = [](const std::string& t) { return t.size() == 17 ? t + ".000" : t; };
		return canon(a) == canon(b);
	}
	return false;
}
// structural + textual comparison; returns "" when equal, else a description of the first difference
inline std::string diff_nodes(const Schema& s, const NodeList& a, const NodeList& b, const std::string& where)
{
	if (a.size() != b.size()) return where + ": " + std::to_string(a.size()) + " fields expected, " + std::to_string(b.size()) + " found [" + show_nodes(a) + "] vs [" + show_nodes(b) + "]";
	for (size_t i = 0; i < a.size(); ++i) {
		if (a[i].tag != b[i].tag) return where + ": tag " + std::to_string(a[i].tag) + " expected at index " + std::to_string(i) + ", found " + std::to_string(b[i].tag);
 		if (!value_eq(s, a[i].tag, a[i].text, b[i].text)) return where + ": tag " + std::to_string(a[i].tag) + " value '" + vh::show(a[i].text) + "' expected, found '" + vh::show(b[i].text) + "'";
		if (a[i].elems.size() != b[i].elems.size()) return where + ": group " + std::to_string(a[i].tag) + " has " + std::to_string(b[i].elems.size()) + " elements, expected " + std::to_string(a[i].elems.size());
		for (size_t e = 0; e < a[i].elems.size(); ++e) {
			std::string d = diff_nodes(s, a[i].elems[e], b[i].elems[e], where + "/" + std::to_string(a[i].tag) + "[" + std::to_string(e) + "]");
			if (!d.empty()) return d;
		}
	}
	return "";
}
inline std::string diff_trees(const Schema& s, const Tree& a, const Tree& b)
{
	if (a.msgtype != b.msgtype) return "msgtype " + a.msgtype + " vs " + b.msgtype;
	std::string d = diff_nodes(s, a.header, b.header, "header"); if (!d.empty()) return d;
	d = diff_nodes(s, a.body, b.body, "body"); if (!d.empty()) return d;
	return diff_nodes(s, a.trailer, b.trailer, "trailer");
}
inline void flatten(const NodeList& nl, std::vector<std::pair<int, std::string>>& out)
{ for (auto& n : nl) { out.push_back({ n.tag, n.text }); for (auto& e : n.elems) flatten(e, out); } }

// C02 oracle, clause by clause, on the bytes the encoder produced for tree t.  Returns "" or (clause, description).
inline std::pair<std::string, std::string> check_wire(const Schema& s, const Tree& t, const std::string& w)
{
	std::vector<Token> tk = tokenize(w, &s);
	for (auto& k : tk) if (!k.wellformed) return { "token-syntax", "token '" + vh::show(k.tag + "=" + k.val) + "' is not decimal-tag=value<SOH>" };
	if (tk.size() < 4) return { "framing-order", "fewer than four tokens" };
	if (tk[0].tag != "8" || tk[1].tag != "9" || tk[2].tag != "35") return { "framing-order", "message does not start with 8, 9, 35 but " + tk[0].tag + "," + tk[1].tag + "," + tk[2].tag };
	if (tk[0].val != s.beginstr) return { "framing-order", "BeginString '" + tk[0].val + "'" };
	if (tk[2].val != t.msgtype) return { "framing-order", "MsgType '" + tk[2].val + "'" };
	const Token& last = tk.back();
	if (last.tag != "10" || last.off + last.len != w.size()) return { "checksum", "last token is not 10=" };
	const size_t body_start = tk[1].off + tk[1].len, body_end = last.off;
	if (tk[1].val != std::to_string(body_end - body_start)) return { "bodylength", "BodyLength " + tk[1].val + " but " + std::to_string(body_end - body_start) + " bytes between 9= and 10=" };
	unsigned sum = 0; for (size_t i = 0; i < body_end; ++i) sum += (unsigned char)w[i];
	char cs[8]; snprintf(cs, sizeof cs, "%03u", sum % 256);
	if (last.val != cs) return { "checksum", "CheckSum " + last.val + " but byte sum mod 256 is " + cs };
	std::vector<std::pair<int, std::string>> want; flatten(t.header, want); flatten(t.body, want); flatten(t.trailer, want);
	// header / body / trailer order, schema position order, group structure: the flattened reference sequence captures all of them
	if (tk.size() - 4 != want.size()) {
		// find first position where the tag sequences part
		size_t i = 0; while (i < want.size() && i + 3 < tk.size() - 1 && atoi(tk[i + 3].tag.c_str()) == want[i].first) ++i;
		return { "field-sequence", std::to_string(tk.size() - 4) + " fields on the wire, " + std::to_string(want.size()) + " in the message; sequences part at index " + std::to_string(i)
			+ (i < want.size() ? " (expected tag " + std::to_string(want[i].first) + ")" : "") + (i + 3 < tk.size() - 1 ? " (found tag " + tk[i + 3].tag + ")" : "") };
	}
	for (size_t i = 0; i < want.size(); ++i) {
		const Token& k = tk[i + 3];
		if (atoi(k.tag.c_str()) != want[i].first) return { "field-sequence", "tag " + k.tag + " at index " + std::to_string(i) + " where " + std::to_string(want[i].first) + " belongs (schema position order / group structure)" };
		if (!value_eq(s, want[i].first, want[i].second, k.val)) return { "field-value", "tag " + k.tag + " rendered '" + vh::show(k.val) + "' for value '" + vh::show(want[i].second) + "'" };
	}
	return { "", "" };
}

// typed check of one decoded field against the abstract text, through the model's type (independent parse)
__attribute__((no_sanitize("vptr"))) inline std::string typed_check(const Schema& s, const BaseField *bf, const std::string& text)
{
	const FieldDef& f = s.fields.at(bf->get_tag());
	switch (f.vclass()) {
	case sm::V_INT: { long long want = strtoll(text.c_str(), 0, 10); int got = reinterpret_cast<const Field<int, 0> *>(bf)->get();
		if ((long long)got != want) return "int value " + std::to_string(got) + " != " + std::to_string(want); break; }
	case sm::V_CHAR: { char got = reinterpret_cast<const Field<char, 0> *>(bf)->get(); if (text.size() != 1 || got != text[0]) return std::string("char value '") + got + "' != '" + text + "'"; break; }
	case sm::V_BOOL: { bool got = reinterpret_cast<const Field<Boolean, 0> *>(bf)->get(); if (got != (text == "Y")) return "boolean value differs"; break; }
	case sm::V_FLOAT: { double want = strtod(text.c_str(), 0), got = reinterpret_cast<const Field<fp_type, 0> *>(bf)->get();
		if (std::fabs(got - want) > 1e-9 * std::max(1.0, std::fabs(want))) { char b[96]; snprintf(b, sizeof b, "float value %.17g != %.17g", got, want); return b; } break; }
	case sm::V_STRING: case sm::V_DATA: { const f8String& got = reinterpret_cast<const Field<f8String, 0> *>(bf)->get(); if (got != text) return "string value '" + vh::show(got) + "' != '" + vh::show(text) + "'"; break; }
	default: break;	// date/time classes: judged through their text (and C09)
	}
	return "";
}
inline std::string typed_check_nodes(const Schema& s, const MessageBase *mb, const NodeList& nl, const std::string& where)
{
	for (auto& n : nl) {
		const BaseField *bf = mb->get_field((unsigned short)n.tag);
		if (!bf) return where + ": field " + std::to_string(n.tag) + " absent";
		std::string d = typed_check(s, bf, n.text); if (!d.empty()) return where + ": tag " + std::to_string(n.tag) + " " + d;
		if (n.group && !n.elems.empty()) {
			GroupBase *gb = mb->find_group((unsigned short)n.tag);
			if (!gb) return where + ": group " + std::to_string(n.tag) + " absent";
			if (gb->size() != n.elems.size()) return where + ": group " + std::to_string(n.tag) + " element count " + std::to_string(gb->size());
			for (size_t e = 0; e < n.elems.size(); ++e) {
				d = typed_check_nodes(s, gb->get_element(e), n.elems[e], where + "/" + std::to_string(n.tag) + "[" + std::to_string(e) + "]");
				if (!d.empty()) return d;
			}
		}
	}
	return "";
}
inline std::string typed_check_tree(const Schema& s, const Message *m, const Tree& t)
{
	std::string d = typed_check_nodes(s, m->Header(), t.header, "header"); if (!d.empty()) return d;
	d = typed_check_nodes(s, m, t.body, "body"); if (!d.empty()) return d;
	return typed_check_nodes(s, m->Trailer(), t.trailer, "trailer");
}

// ---------------------------------------------------------------------------------------------- the lattice
// A lattice point is (message index, shape, vi, nelem).  shape: 0 = mandatory only; 1 = all; 2+k = mandatory + k-th
// optional member where k runs over header optionals, then body optionals, then trailer optionals.
struct Lattice {
	const Schema& s; std::vector<Member> hdr, trl;
	Lattice(const Schema& sc) : s(sc), hdr(strip(sc.header)), trl(strip(sc.trailer)) {}
	int nshapes(const MsgDef& m) const { return 2 + count_optional(hdr) + count_optional(m.members) + count_optional(trl); }
	Tree make(const MsgDef& m, int shape, int vi, int nelem) const
	{
		int salt = 0; ShapeCtx c { &s, vi, nelem, &salt };
		Tree t; t.msgtype = m.msgtype;
		int nh = count_optional(hdr), nb = count_optional(m.members);
		int k = shape - 2;
		auto part = [&](const std::vector<Member>& ms, int lo, int n) {
			if (shape == 0) return make_members(ms, 0, -1, c);
			if (shape == 1) return make_members(ms, 1, -1, c);
			if (k >= lo && k < lo + n) return make_members(ms, 2, k - lo, c);
			return make_members(ms, 0, -1, c);
		};
		t.header = part(hdr, 0, nh); t.body = part(m.members, nh, nb); t.trailer = part(trl, nh + nb, count_optional(trl));
		fix_pairs(s, t.header); fix_pairs(s, t.body); fix_pairs(s, t.trailer);
		return t;
	}
};

} // namespace mg
