// sim.cpp — deterministic single-threaded runtime (DESIGN §2.1): the harness executable that links this TU owns
// the clock and the threads.  Strong definitions here pre-empt libc for fix8, libstdc++ and Poco alike.
//   * clock_gettime / clock_nanosleep / nanosleep / gettimeofday / time  -> one virtual clock (sleeping advances it)
//   * pthread_create / pthread_join                                      -> threads are registered, never run
//     (a legal, maximally unfair schedule; the driver calls their bodies as explicit events where it matters)
#include <pthread.h>
#include <time.h>
#include <sys/time.h>
#include <errno.h>
#include <vector>
#include "sim/sim.hpp"

namespace sim {
long long vnow_ns = 1700000000LL * 1000000000LL;	// 2023-11-14 22:13:20 UTC
long clock_reads = 0, sleeps = 0;
std::vector<FakeThread> fake_threads;
bool run_real_threads = false;
}

extern "C" {
int clock_gettime(clockid_t, struct timespec *ts)
{
	++sim::clock_reads;
	ts->tv_sec = sim::vnow_ns / 1000000000LL; ts->tv_nsec = sim::vnow_ns % 1000000000LL; return 0;
}
int gettimeofday(struct timeval *tv, void *)
{
	if (tv) { tv->tv_sec = sim::vnow_ns / 1000000000LL; tv->tv_usec = (sim::vnow_ns % 1000000000LL) / 1000; }
	return 0;
}
time_t time(time_t *t) { time_t v = sim::vnow_ns / 1000000000LL; if (t) *t = v; return v; }
int clock_nanosleep(clockid_t, int flags, const struct timespec *req, struct timespec *)
{
	++sim::sleeps;
	long long t = req->tv_sec * 1000000000LL + req->tv_nsec;
	if (flags & TIMER_ABSTIME) { if (t > sim::vnow_ns) sim::vnow_ns = t; } else sim::vnow_ns += t;
	return 0;
}
int nanosleep(const struct timespec *req, struct timespec *)
{ ++sim::sleeps; sim::vnow_ns += req->tv_sec * 1000000000LL + req->tv_nsec; return 0; }
int usleep(useconds_t us) { ++sim::sleeps; sim::vnow_ns += (long long)us * 1000; return 0; }
unsigned sleep(unsigned s) { ++sim::sleeps; sim::vnow_ns += (long long)s * 1000000000LL; return 0; }

int pthread_create(pthread_t *t, const pthread_attr_t *, void *(*fn)(void *), void *arg)
{
	sim::fake_threads.push_back({ fn, arg, false });
	*t = (pthread_t)(0x51300000UL + sim::fake_threads.size());
	return 0;
}
int pthread_join(pthread_t t, void **r) { if (r) *r = 0; return 0; }
int pthread_detach(pthread_t) { return 0; }
int pthread_cancel(pthread_t) { return 0; }
}
