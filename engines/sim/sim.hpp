// sim.hpp — deterministic runtime for the sequential session properties (DESIGN §2.1)
#pragma once
#include <string>
#include <vector>
#include <functional>
#include <cstring>

namespace sim {
struct FakeThread { void *(*fn)(void *); void *arg; bool ran; };
extern long long vnow_ns;
extern long clock_reads, sleeps;
extern std::vector<FakeThread> fake_threads;
inline void advance_ms(long long ms) { vnow_ns += ms * 1000000LL; }
inline void advance_s(long long s) { vnow_ns += s * 1000000000LL; }
inline long long now_s() { return vnow_ns / 1000000000LL; }
}

#ifdef FIX8_SESSION_HPP_
#include <Poco/Net/StreamSocketImpl.h>
#include <Poco/Net/StreamSocket.h>
#include <Poco/Net/NetException.h>

namespace sim {
using namespace FIX8;

// ------------------------------------------------------------------------------------------- scripted socket
struct ScriptSock : Poco::Net::StreamSocketImpl {
	std::string in; size_t pos = 0;
	std::vector<std::string> out;		// one entry per sendBytes call
	bool eof = false;					// receiveBytes returns 0 when the input is exhausted and eof is set
	bool closed = false, shut = false;
	// environment answer to receiveBytes(n) with `avail` bytes pending: how many to hand over (0 < r <= min(n, avail))
	std::function<size_t(size_t n, size_t avail)> chunk;
	std::function<int(const void *, int)> send_hook;	// optional: scheduling point / fault injection
	int sendBytes(const void *b, int len, int) override
	{
		if (send_hook) { int r = send_hook(b, len); if (r != len) return r; }
		out.emplace_back((const char *)b, len); return len;
	}
	int receiveBytes(void *b, int len, int) override
	{
		size_t avail = in.size() - pos;
		if (!avail) { if (eof) return 0; throw Poco::Net::ConnectionResetException("script: read past scripted input"); }
		size_t n = std::min<size_t>(len, avail);
		if (chunk) { size_t c = chunk(len, avail); if (c >= 1 && c < n) n = c; }
		memcpy(b, in.data() + pos, n); pos += n; return (int)n;
	}
	bool poll(const Poco::Timespan&, int mode) override { return (mode & Poco::Net::Socket::SELECT_READ) ? (pos < in.size() || eof) : true; }
	void setRawOption(int, int, const void *, poco_socklen_t) override {}
	void getRawOption(int, int, void *v, poco_socklen_t& l) override { memset(v, 0, l); }
	void shutdown() override { shut = true; }
	void shutdownReceive() override {}
	void shutdownSend() override {}
	void close() override { closed = true; }
	void connect(const Poco::Net::SocketAddress&, const Poco::Timespan&) override {}
	void connect(const Poco::Net::SocketAddress&) override {}
	void connectNB(const Poco::Net::SocketAddress&) override {}
	Poco::Net::SocketAddress peerAddress() override { return Poco::Net::SocketAddress("127.0.0.1", 9999); }
	Poco::Net::SocketAddress address() override { return Poco::Net::SocketAddress("127.0.0.1", 9998); }
	void feed(const std::string& s) { if (pos == in.size()) { in.clear(); pos = 0; } in += s; }
	size_t pending() const { return in.size() - pos; }
};

// ------------------------------------------------------------------------------------------- wire helpers
const char SOH = '\x01';
// independent builder of a raw FIX message (BodyLength / CheckSum by plain arithmetic)
inline std::string raw_msg(const std::string& beginstr, const std::string& afterlen)
{
	std::string m = "8=" + beginstr + SOH + "9=" + std::to_string(afterlen.size()) + SOH + afterlen;
	unsigned s = 0; for (unsigned char c : m) s += c;
	char t[16]; snprintf(t, sizeof t, "10=%03u%c", s % 256, SOH); return m + t;
}
struct Hdr { std::string type, sender, target; long seq; std::string sendtime = "20231114-22:13:20.000"; std::string extra, pre34; };
inline std::string mk(const std::string& beginstr, const Hdr& h, const std::string& body)
{
	std::string a = "35=" + h.type + SOH + "49=" + h.sender + SOH + "56=" + h.target + SOH + h.pre34 + "34=" + std::to_string(h.seq) + SOH + h.extra + "52=" + h.sendtime + SOH + body;
	return raw_msg(beginstr, a);
}
// split a byte stream into FIX messages by BodyLength (independent framing); returns false on garbage
inline bool split_wire(const std::string& s, std::vector<std::string>& msgs)
{
	size_t i = 0;
	while (i < s.size()) {
		if (s.compare(i, 2, "8=") != 0) return false;
		size_t a = s.find(SOH, i); if (a == std::string::npos) return false;
		if (s.compare(a + 1, 2, "9=") != 0) return false;
		size_t b = s.find(SOH, a + 1); if (b == std::string::npos) return false;
		long n = atol(s.c_str() + a + 3);
		size_t end = b + 1 + n + 7; if (end > s.size()) return false;
		msgs.push_back(s.substr(i, end - i)); i = end;
	}
	return true;
}
// value of tag in a raw message (first occurrence at token start), "" if absent
inline std::string tagval(const std::string& m, int tag)
{
	std::string k = std::to_string(tag) + "=";
	size_t i = 0;
	while (i < m.size()) {
		size_t e = m.find(SOH, i); if (e == std::string::npos) e = m.size();
		if (m.compare(i, k.size(), k) == 0) return m.substr(i + k.size(), e - i - k.size());
		i = e + 1;
	}
	return "";
}
inline bool hastag(const std::string& m, int tag)
{
	std::string k = std::to_string(tag) + "=";
	size_t i = 0;
	while (i < m.size()) { size_t e = m.find(SOH, i); if (e == std::string::npos) e = m.size(); if (m.compare(i, k.size(), k) == 0) return true; i = e + 1; }
	return false;
}
// body tokens (everything that is not a standard header / trailer tag the session rewrites), for replay comparison
inline std::string body_tokens(const std::string& m)
{
	static const int hdr[] = { 8, 9, 35, 49, 56, 34, 52, 43, 122, 10, 97 };
	std::string out; size_t i = 0;
	while (i < m.size()) {
		size_t e = m.find(SOH, i); if (e == std::string::npos) e = m.size();
		int t = atoi(m.c_str() + i); bool h = false; for (int x : hdr) if (x == t) h = true;
		if (!h) out += m.substr(i, e - i) + "|";
		i = e + 1;
	}
	return out;
}

} // namespace sim
#endif
