// world.hpp — one real fix8 Session (FIX42UTEST schema) over a scripted socket, on the sim runtime (DESIGN §3 "Session
// properties C16–C23: common driver").  Include after <fix8/f8includes.hpp> and the utest_* headers.
#pragma once
#include "sim/sim.hpp"
#include <memory>
#include <set>
#include <map>
#include <sys/stat.h>
#include <unistd.h>

namespace sim {

struct Rt : UTEST::utest_Router {
	mutable std::vector<std::string> got;	// ClOrdIDs delivered to the application, in order
	mutable std::vector<bool> got_possdup;
	bool operator()(const UTEST::NewOrderSingle *m) const override
	{
		UTEST::ClOrdID id; m->get(id); got.push_back(id());
		poss_dup_flag pdf(false); bool pd = m->Header()->get(pdf) && pdf(); got_possdup.push_back(pd);
		return true;
	}
};

struct Ses : Session {
	Rt rt;
	std::vector<std::string> state_log;
	Ses(const F8MetaCntx& c, const sender_comp_id& sci, Persister *p) : Session(c, sci, p) {}
	Ses(const F8MetaCntx& c, const SessionID& sid, Persister *p) : Session(c, sid, p) {}
	bool handle_application(const unsigned seqnum, const Message *&msg) override { return enforce(seqnum, msg) || msg->process(rt); }
	unsigned nr() const { return _next_receive_seq; }
	unsigned ns() const { return _next_send_seq; }
	int st() const { return _state; }
	bool tick() { return heartbeat_service(); }
	LoginParameters& lp() { return _loginParameters; }
};

enum PersistKind { P_NONE, P_MEM, P_FILE };

struct WorldCfg {
	bool acceptor = true;
	PersistKind pk = P_MEM;
	unsigned hb = 30;
	ProcessModel pm = pm_thread;
	std::string us = "SRV", them = "CLI";	// our SenderCompID, counterparty
	bool enforce_compids = true;
	bool reset_seqnum = false;
	unsigned start_send = 0, start_recv = 0;
	bool always_seqnum_assign = false;
	std::string dir = ".";
	std::string fname = "w.db";
	bool ignore_logon_seq = false;	// the library's own ignore_logon_sequence_check setting, through a real SessionConfig
};

// one connection life of one session; the persister may outlive it (restart)
struct World {
	WorldCfg cfg;
	std::unique_ptr<Persister> own_persist;	// when the session does not own it (initiator)
	Persister *persist = nullptr;
	Ses *ses = nullptr;
	ScriptSock *sock = nullptr;
	Poco::Net::StreamSocket *psock = nullptr;
	Connection *conn = nullptr;
	size_t out_seen = 0;		// sendBytes entries already consumed by take_out()
	bool started = false;
	int start_result = 0;
	std::string beginstr = "FIX.4.2";
	std::unique_ptr<SessionConfig> sf;
	std::vector<std::string> past_got;	// deliveries made to Session objects of earlier connections (acceptor)
	std::vector<bool> past_got_possdup;
	std::vector<std::string> delivered() const { std::vector<std::string> d(past_got); if (ses) d.insert(d.end(), ses->rt.got.begin(), ses->rt.got.end()); return d; }
	std::vector<bool> delivered_possdup() const { std::vector<bool> d(past_got_possdup); if (ses) d.insert(d.end(), ses->rt.got_possdup.begin(), ses->rt.got_possdup.end()); return d; }

	explicit World(const WorldCfg& c) : cfg(c) {}
	~World() { teardown(); }

	Persister *make_persister(bool purge = false)
	{
		switch (cfg.pk) {
		case P_MEM: return new MemoryPersister;
		case P_FILE: { FilePersister *fp = new FilePersister(0); fp->initialise(cfg.dir, cfg.fname, purge); return fp; }
		default: return nullptr;
		}
	}
	// (re)connect: new socket/connection; acceptor gets a new Session and persister object per connection (the library's
	// SessionInstance does the same), initiator keeps Session and persister (ReliableClientSession loop)
	void connect(Persister *reuse = nullptr)
	{
		sock = new ScriptSock; psock = new Poco::Net::StreamSocket(sock);
		Poco::Net::SocketAddress addr("127.0.0.1", 9999);
		if (cfg.acceptor) {
			persist = reuse ? reuse : make_persister();
			ses = new Ses(UTEST::ctx(), sender_comp_id(cfg.us), persist);
			conn = new ServerConnection(psock, addr, *ses, cfg.hb, cfg.pm);
		} else {
			if (!ses) {
				persist = reuse ? reuse : make_persister(cfg.reset_seqnum); own_persist.reset(persist);	// purge on reset, as sessionwrapper.hpp does
				ses = new Ses(UTEST::ctx(), SessionID(f8String(beginstr), f8String(cfg.us), f8String(cfg.them)), persist);
			}
			conn = new ClientConnection(psock, addr, *ses, cfg.hb, cfg.pm, true, false);
		}
		if (cfg.ignore_logon_seq) {
			if (!sf) {
				const std::string cf = cfg.dir + "/" + cfg.fname + ".cfg.xml";
				FILE *f = fopen(cf.c_str(), "w");
				fprintf(f, "<?xml version='1.0' encoding='ISO-8859-1'?>\n<fix8>\n<session name=\"S1\" role=\"%s\" fix_version=\"4200\" active=\"true\" "
					"ip=\"127.0.0.1\" port=\"9999\" sender_comp_id=\"%s\" target_comp_id=\"%s\" ignore_logon_sequence_check=\"true\" process_model=\"threaded\" />\n</fix8>\n",
					cfg.acceptor ? "acceptor" : "initiator", cfg.us.c_str(), cfg.them.c_str());
				fclose(f);
				sf.reset(new SessionConfig(UTEST::ctx(), cf, "S1"));
				::unlink(cf.c_str());
			}
			ses->set_session_config(sf.get());
		}
		ses->lp()._enforce_compids = cfg.enforce_compids;
		ses->lp()._reset_sequence_numbers = cfg.reset_seqnum;
		ses->lp()._always_seqnum_assign = cfg.always_seqnum_assign;
		out_seen = 0;
		start_result = ses->start(conn, false, cfg.start_send, cfg.start_recv);
		started = true;
	}
	// end of the connection; the acceptor's Session goes with it (and deletes its persister), the initiator's stays
	void disconnect()
	{
		if (!conn) return;
		ses->stop();
		delete conn; conn = nullptr;
		delete psock; psock = nullptr; sock = nullptr;
		// the acceptor's Session owns its persister, but only deletes it while it still has a connection: do it here
		if (cfg.acceptor) {
			past_got.insert(past_got.end(), ses->rt.got.begin(), ses->rt.got.end());
			past_got_possdup.insert(past_got_possdup.end(), ses->rt.got_possdup.begin(), ses->rt.got_possdup.end());
			delete ses; ses = nullptr; delete persist; persist = nullptr;
		}
	}
	void teardown()
	{
		disconnect();
		if (ses) { delete ses; ses = nullptr; }
		own_persist.reset(); persist = nullptr;
	}
	void remove_files()
	{
		std::string p = cfg.dir + "/" + cfg.fname; ::unlink(p.c_str()); ::unlink((p + ".idx").c_str());
	}
	// everything written to the socket since the last call, split into FIX messages (a batch is one write)
	std::vector<std::string> take_out(bool *garbage = nullptr)
	{
		std::vector<std::string> msgs;
		if (!sock) return msgs;
		for (; out_seen < sock->out.size(); ++out_seen)
			if (!split_wire(sock->out[out_seen], msgs) && garbage) *garbage = true;
		return msgs;
	}
	bool feed(const std::string& raw) { return ses->process(raw); }	// as the reader thread would
	std::string inbound(const std::string& type, long seq, const std::string& body, const std::string& extra = "",
		const char *sender = nullptr, const char *target = nullptr, const std::string& pre34 = "")
	{
		Hdr h; h.pre34 = pre34; h.type = type; h.sender = sender ? sender : cfg.them; h.target = target ? target : cfg.us; h.seq = seq; h.extra = extra;
		char ts[32]; time_t t = now_s(); struct tm tm; gmtime_r(&t, &tm); strftime(ts, sizeof ts, "%Y%m%d-%H:%M:%S.000", &tm); h.sendtime = ts;
		return mk(beginstr, h, body);
	}
	static Message *nos(const std::string& id)
	{
		UTEST::NewOrderSingle *m = new UTEST::NewOrderSingle;
		*m << new UTEST::ClOrdID(id) << new UTEST::HandlInst('1') << new UTEST::Symbol("IBM") << new UTEST::Side('1')
		   << new UTEST::TransactTime(Tickval(true)) << new UTEST::OrdType('1');
		return m;
	}
	static std::string nos_body(const std::string& id)
	{ return "11=" + id + SOH + "21=1" + SOH + "55=IBM" + SOH + "54=1" + SOH + "60=20231114-22:13:20.000" + SOH + "40=1" + SOH; }
	// complete the logon handshake from the counterparty's side; returns the library's reply messages
	std::vector<std::string> logon(long peer_seq = 1, const std::string& extra_body = "")
	{
		if (cfg.acceptor) feed(inbound("A", peer_seq, std::string("98=0") + SOH + "108=" + std::to_string(cfg.hb) + SOH + extra_body));
		else feed(inbound("A", peer_seq, std::string("98=0") + SOH + "108=" + std::to_string(cfg.hb) + SOH + extra_body));
		return take_out();
	}
};

} // namespace sim
