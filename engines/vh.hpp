// vh.hpp — common harness plumbing (argument parsing, sharding, deadline, record output).
// Protocol between a harness binary and vp/check.py (stdout, one JSON object per line):
//   {"t":"viol", "clause":..., "mode":..., "tags":[...], "case":"<string the harness can replay>",
//    "observed":..., "expected":..., "desc":...}
//   {"t":"sample","case":..., "desc":...}
//   {"t":"stat","evaluations":N,"nontrivial":M,"done":bool,"outcomes":{k:n,...}, ...extra counters}
//   {"t":"states","h":["hex",...]}           (bfs: canonical state hashes, unioned by the driver)
// The "cur" file (argument cur=<path>) always holds the replay string and tags of the case being run,
// so that the driver can attribute a sanitizer abort / signal / time-out to one case and resume after it.
#pragma once
#include <string>
#include <vector>
#include <map>
#include <set>
#include <sstream>
#include <cstdio>
#include <cstdlib>
#include <cstring>
#include <cstdint>
#include <ctime>
#include <unistd.h>
#include <fcntl.h>
#include <sys/mman.h>
#include <sys/time.h>

namespace vh {

inline std::string jesc(const std::string& s)
{
	std::string o; o.reserve(s.size() + 2); o += '"';
	for (unsigned char c : s) {
		if (c == '"') o += "\\\""; else if (c == '\\') o += "\\\\";
		else if (c < 0x20 || c >= 0x7f) { char b[8]; snprintf(b, sizeof b, "\\u%04x", c); o += b; }
		else o += (char)c;
	}
	o += '"'; return o;
}
// readable rendering of wire bytes: SOH -> '|', other non printables -> \xNN
inline std::string show(const std::string& s)
{
	std::string o;
	for (unsigned char c : s) {
		if (c == 1) o += '|'; else if (c < 0x20 || c >= 0x7f) { char b[8]; snprintf(b, sizeof b, "\\x%02x", c); o += b; }
		else o += (char)c;
	}
	return o;
}
inline std::string hex(const std::string& s)
{ std::string o; char b[4]; for (unsigned char c : s) { snprintf(b, sizeof b, "%02x", c); o += b; } return o; }
inline std::string unhex(const std::string& s)
{ std::string o; for (size_t i = 0; i + 1 < s.size(); i += 2) o += (char)strtol(s.substr(i, 2).c_str(), 0, 16); return o; }
inline uint64_t fnv(const std::string& s, uint64_t h = 1469598103934665603ULL)
{ for (unsigned char c : s) { h ^= c; h *= 1099511628211ULL; } return h; }

struct Json {
	std::string s; bool first = true;
	Json() { s = "{"; }
	Json& raw(const char *k, const std::string& v) { if (!first) s += ','; first = false; s += jesc(k); s += ':'; s += v; return *this; }
	Json& str(const char *k, const std::string& v) { return raw(k, jesc(v)); }
	Json& num(const char *k, long long v) { return raw(k, std::to_string(v)); }
	Json& boolean(const char *k, bool v) { return raw(k, v ? "true" : "false"); }
	Json& list(const char *k, const std::vector<std::string>& v)
	{ std::string a = "["; for (size_t i = 0; i < v.size(); ++i) { if (i) a += ','; a += jesc(v[i]); } a += ']'; return raw(k, a); }
	std::string done() const { return s + "}"; }
};

struct Args {
	std::map<std::string, std::string> kv;
	Args(int argc, char **argv)
	{
		for (int i = 1; i < argc; ++i) {
			std::string a(argv[i]); size_t p = a.find('=');
			if (p == std::string::npos) kv[a] = "1"; else kv[a.substr(0, p)] = a.substr(p + 1);
		}
	}
	bool has(const std::string& k) const { return kv.count(k); }
	std::string get(const std::string& k, const std::string& d = "") const { auto i = kv.find(k); return i == kv.end() ? d : i->second; }
	long long num(const std::string& k, long long d = 0) const { auto i = kv.find(k); return i == kv.end() ? d : atoll(i->second.c_str()); }
};

struct Run {
	Args args;
	unsigned shard_k = 0, shard_n = 1;
	long long from = 0, cur_id = 0, case_seq = 0;
	double deadline = 0;		// absolute unix time, 0 = none
	char *cur = nullptr;		// mmap'd current-case area
	size_t cur_sz = 1 << 16;
	long long evaluations = 0, nontrivial = 0, violations = 0, samples_emitted = 0, transitions = 0, traces = -1;
	std::map<std::string, long long> outcomes, counters;
	bool single = false;		// case=<...> given: run exactly that case, verbosely
	std::string single_case;
	bool hit_deadline = false;
	int max_viol = 200;			// stop reporting after this many (count continues)
	std::set<std::string> viol_classes; // clause|mode|tags -> reported count limiter

	Run(int argc, char **argv) : args(argc, argv)
	{
		std::string sh = args.get("shard", "0/1");
		sscanf(sh.c_str(), "%u/%u", &shard_k, &shard_n); if (!shard_n) shard_n = 1;
		deadline = (double)args.num("deadline", 0);
		from = args.num("from", 0);
		if (args.has("cur")) {
			int fd = open(args.get("cur").c_str(), O_RDWR | O_CREAT, 0644);
			if (fd >= 0 && ftruncate(fd, cur_sz) == 0) {
				void *p = mmap(0, cur_sz, PROT_READ | PROT_WRITE, MAP_SHARED, fd, 0);
				if (p != MAP_FAILED) cur = (char *)p;
			}
			if (fd >= 0) close(fd);
		}
		if (args.has("case")) { single = true; single_case = args.get("case"); }
		setvbuf(stdout, 0, _IOLBF, 0);
	}
	// outer-loop ids are sharded; `from` lets the driver resume after a case that killed the process
	bool mine(unsigned long long id) { if (id % shard_n != shard_k || (long long)id < from) return false; cur_id = (long long)id; return true; }
	bool verbose() const { return single || args.has("verbose"); }
	static double now()
	{ struct timeval tv; syscall_gettimeofday(&tv); return tv.tv_sec + tv.tv_usec / 1e6; }
	// the harness may have replaced clock_gettime with a virtual clock: ask the kernel directly
	static void syscall_gettimeofday(struct timeval *tv);
	bool out_of_time()
	{
		if (!deadline) return false;
		if (hit_deadline) return true;
		if ((evaluations & 0x3f) == 0 && now() > deadline) hit_deadline = true;
		return hit_deadline;
	}
	// announce the case about to run (replay string + tags); cheap (memcpy into shared page)
	void begin_case(const std::string& replay, const std::string& tags = "", long long id = -1)
	{
		++evaluations;
		if (id < 0) id = cur_id; else cur_id = id;
		if (cur) {
			size_t n = replay.size(); if (n > cur_sz - 1024) n = cur_sz - 1024;
			size_t m = tags.size(); if (m > 1000) m = 1000;
			// layout: "<len>\n<tags>\n<replay>"
			int h = snprintf(cur, 64, "%lld %zu %zu\n", id, m, n);
			memcpy(cur + h, tags.data(), m); memcpy(cur + h + m, replay.data(), n); cur[h + m + n] = 0;
		}
	}
	void outcome(const std::string& k, long long n = 1) { outcomes[k] += n; }
	void viol(const std::string& clause, const std::string& mode, const std::vector<std::string>& tags,
		const std::string& replay, const std::string& observed, const std::string& expected, const std::string& desc = "")
	{
		++violations;
		// per class cap: keep the first few of every (clause, mode, tags) class, count the rest
		std::string cls = clause + "|" + mode + "|"; for (auto& t : tags) cls += t + ",";
		long long& c = counters["violclass:" + cls]; ++c;
		if (c > 3 && !single) return;
		printf("%s\n", Json().str("t", "viol").str("clause", clause).str("mode", mode).list("tags", tags)
			.str("case", replay).str("observed", observed).str("expected", expected).str("desc", desc).done().c_str());
	}
	void sample(const std::string& replay, const std::string& desc)
	{
		if (samples_emitted >= 3) return; ++samples_emitted;
		printf("%s\n", Json().str("t", "sample").str("case", replay).str("desc", desc).done().c_str());
	}
	void states(const std::vector<uint64_t>& hs)
	{
		std::string a = "[";
		for (size_t i = 0; i < hs.size(); ++i) { char b[24]; snprintf(b, sizeof b, "%s\"%llx\"", i ? "," : "", (unsigned long long)hs[i]); a += b; }
		a += "]";
		printf("{\"t\":\"states\",\"h\":%s}\n", a.c_str());
	}
	void finish(bool done = true)
	{
		Json j; j.str("t", "stat").num("evaluations", evaluations).num("nontrivial", nontrivial)
			.num("violations", violations).boolean("done", done && !hit_deadline);
		if (transitions) j.num("transitions", transitions);
		if (traces >= 0) j.num("traces", traces);
		std::string o = "{"; bool f = true;
		for (auto& p : outcomes) { if (!f) o += ','; f = false; o += jesc(p.first) + ":" + std::to_string(p.second); }
		o += "}"; j.raw("outcomes", o);
		std::string c = "{"; f = true;
		for (auto& p : counters) { if (!f) c += ','; f = false; c += jesc(p.first) + ":" + std::to_string(p.second); }
		c += "}"; j.raw("counters", c);
		printf("%s\n", j.done().c_str());
		fflush(stdout);
	}
};

} // namespace vh

#include <sys/syscall.h>
inline void vh::Run::syscall_gettimeofday(struct timeval *tv) { syscall(SYS_gettimeofday, tv, 0); }
