// C03 — the codec is memory-safe and total on arbitrary input.
//   decode side: every member of a finite adversarial input family goes through the real Message::factory of one compiled
//                schema with (no_chksum, permissive) in {F,T}^2; the call must return a message or throw a std::exception
//                (f8Exception derives from it); ASan/UBSan report, signal, hang = violation (attributed by the driver, which
//                restarts the shard after the case: ids are per case).  A decoded message is also re-encoded (big buffer)
//                and destroyed under ASan.
//   encode side: every message type, mandatory-only shape, one string field stretched to boundary lengths, through
//                Message::encode(f8String&) and Message::encode(char**) (buffer sized exactly, followed by a PROT_NONE page);
//                each case runs in a forked child, a sanitizer report / signal there is the violation.
// Families (fam=..., comma separated):
//   tok    token sequences: preamble variant x up to ntok tokens x placement x trailer variant x flags
//   pre    every prefix of the seed messages (with and without a valid trailer appended)
//   sub    every single-byte substitution from {SOH,'=','0','9','A',0x00,0xFF} at every position of the seeds
//   sub2   all pairs of substitutions for the shortest seed
//   small  {complete header + mandatory body, bare 8/9/35 triple} + every string of length <= smalllen over {1,3,5,9,=,SOH,A} (+/- valid trailer)
//   raw    every string of length <= rawlen over {8,9,=,SOH,1,A,3,5} with nothing around it
//   enc    the encoder family
// Inputs longer than FIX8_MAX_MSG_LENGTH are outside the property's quantifier: counted as skipped, not run.
#include <fix8/f8includes.hpp>
#include "utest_types.hpp"
#include "utest_router.hpp"
#include "utest_classes.hpp"
#include "fix44_types.hpp"
#include "fix44_router.hpp"
#include "fix44_classes.hpp"
#include "explore/msggen.hpp"
#include "explore/forkbatch.hpp"
#include <cxxabi.h>
#include <functional>
#include <sys/wait.h>
#include <poll.h>
#include <sys/mman.h>
#include <signal.h>
#include <time.h>
#if defined(__SANITIZE_ADDRESS__)
#include <sanitizer/asan_interface.h>
#else
#define ASAN_POISON_MEMORY_REGION(a, b) ((void)0)
#define ASAN_UNPOISON_MEMORY_REGION(a, b) ((void)0)
#endif
using namespace FIX8;

// The field constructors are instantiated in the generated schema TUs, which are built with ASan only (build time).  The value
// parsers they call are inline / template functions of the runtime headers; emitting them here, in a TU built with ASan + UBSan
// that comes first on the link line, makes the linker keep these instrumented copies for the whole program (the generated
// code is compiled at -O0 and calls them out of line).
template int FIX8::fast_atoi<int>(const char *, const char);
template unsigned FIX8::fast_atoi<unsigned>(const char *, const char);
template unsigned short FIX8::fast_atoi<unsigned short>(const char *, const char);
template size_t FIX8::itoa<int>(int, char *, int);
template size_t FIX8::itoa<unsigned>(unsigned, char *, int);
__attribute__((used)) static void *const c03_keep_instrumented[] = {
	(void *)&FIX8::fast_atof, (void *)&FIX8::parse_decimal, (void *)&FIX8::time_to_epoch, (void *)&FIX8::date_time_parse,
	(void *)&FIX8::time_parse, (void *)&FIX8::date_parse, (void *)&FIX8::date_time_format, (void *)&FIX8::format0 };

static const char SOH = '\x01';
static const size_t MAXIN = FIX8_MAX_MSG_LENGTH;

static std::string exname(const std::exception& e)
{
	int st; char *d = abi::__cxa_demangle(typeid(e).name(), 0, 0, &st);
	std::string r = d ? d : typeid(e).name(); free(d);
	size_t p = r.rfind("::"); return p == std::string::npos ? r : r.substr(p + 2);
}
static std::string chk_of(const std::string& s)
{ unsigned sum = 0; for (unsigned char c : s) sum += c; char b[16]; snprintf(b, sizeof b, "10=%03u%c", sum % 256, SOH); return b; }

// the allocator must not hand freed pages back to the kernel between cases (madvise + page faults cost more than the cases)
extern "C" const char *__asan_default_options() { return "allocator_release_to_os_interval_ms=-1"; }

// ------------------------------------------------------------------------------------------ globals of one run
static vh::Run *RP; static const F8MetaCntx *CTX; static sm::Schema S; static std::string SCHEMA;
static char *bigbuf; static const size_t BIG = 1 << 20;

// the input lives in a heap string of exactly its size (ASan red zone right after the terminator); the unused tail of a
// short string's in-object buffer is poisoned
struct Input {
	std::string *s; const char *p0 = nullptr; size_t pn = 0;
	explicit Input(const std::string& b) : s(new std::string(b.data(), b.size()))
	{
		if (s->size() < 15) { p0 = s->data() + s->size() + 1; pn = 15 - s->size(); ASAN_POISON_MEMORY_REGION(p0, pn); }
	}
	~Input() { if (pn) ASAN_UNPOISON_MEMORY_REGION(p0, pn); delete s; }
};

// one decode case.  flags: bit0 = no_chksum, bit1 = permissive
static void judge_decode(const std::string& id, const std::vector<std::string>& tags, const std::string& in, int flags)
{
	vh::Run& R = *RP;
	const bool nc = flags & 1, pm = flags & 2;
	if (R.verbose()) fprintf(stderr, "case %s  no_chksum=%d permissive=%d  input (%zu bytes): %s\n", id.c_str(), nc, pm, in.size(), vh::show(in).substr(0, 600).c_str());
	Input I(in);
	std::string what;
	bool past_header = true;
	try {
		Message *m = Message::factory(*CTX, *I.s, nc, pm);
		if (!m) { R.outcome("returned-null"); R.viol("returns-or-throws", "factory-returned-null", tags, id, "null", "a message or an exception"); return; }
		// "encoding any message": the decoded object goes through the encoder (1 MB buffer) and is destroyed
		try { char *p = bigbuf; size_t n = m->encode(&p); what = "decoded,reencoded " + std::to_string(n) + " bytes"; R.outcome("decoded+reencoded"); }
		catch (std::exception& e) { what = "decoded, re-encode throws " + exname(e); R.outcome("decoded+reencode-throws:" + exname(e)); }
		delete m;
	}
	catch (f8Exception& e) { std::string n = exname(e); R.outcome("throws:" + n); what = "throws " + n + ": " + std::string(e.what()).substr(0, 120); if (n == "InvalidMessage") past_header = false; }
	catch (std::exception& e) { std::string n = exname(e); R.outcome("throws-std:" + n); what = "throws " + n; }
	catch (...) { R.outcome("throws-other"); R.viol("returns-or-throws", "throws-non-std-exception", tags, id, "exception not derived from std::exception", "a message or a library exception"); return; }
	if (past_header) ++R.nontrivial;
	if (R.verbose()) fprintf(stderr, " observed: %s\n expected: returns a message or throws a std::exception; no sanitizer report, no signal, < 2 s\n", what.c_str());
}

// ------------------------------------------------------------------------------------------ schema helpers
static const sm::MsgDef *find_msg(const std::string& mt) { for (auto& m : S.msgs) if (m.msgtype == mt) return &m; return nullptr; }
static const sm::FieldDef& FD(int tag) { return S.fields.at(tag); }
static const sm::Member *first_member(const std::vector<sm::Member>& ms, std::function<bool(const sm::Member&, const sm::FieldDef&)> pred)
{ for (auto& m : ms) if (S.fields.count(m.tag) && pred(m, FD(m.tag))) return &m; return nullptr; }
static std::string tv(int tag, const std::string& v) { return std::to_string(tag) + "=" + v + SOH; }
static std::string plain_value(const sm::FieldDef& f) { return mg::value_text(f, 0, 0); }
static std::string mandatory_text(const std::vector<sm::Member>& ms)
{
	std::string o;
	for (auto& m : ms) {
		if (!m.mandatory || m.tag == 8 || m.tag == 9 || m.tag == 35 || m.tag == 10) continue;
		if (m.group) { o += tv(m.tag, "1"); if (!m.kids.empty() && !m.kids[0].mandatory) o += tv(m.kids[0].tag, plain_value(FD(m.kids[0].tag))); o += mandatory_text(m.kids); }
		else o += tv(m.tag, plain_value(FD(m.tag)));
	}
	return o;
}

// ------------------------------------------------------------------------------------------ family tok
struct Tok { std::string name, bytes; bool core = false; };
struct TokFam {
	const sm::MsgDef *md; std::vector<Tok> toks; std::vector<Tok> pre;	// pre: preamble variants (complete text up to and incl. the header)
	std::string hdr_mand, body_mand;
	void add(const std::string& n, const std::string& b) { toks.push_back({ n, b, is_core(n) }); }
	// core tokens: the ones combined in sequences longer than `ntokall`
	static bool is_core(const std::string& n)
	{
		static const char *core[] = { "body-string", "hdr-string", "trl-pair-soh", "chksum-mid", "dup-msgtype", "grp-count:0", "grp-count:1", "grp-count:999999999", "grp-count:-1",
			"grp-1-elem", "grp-2-elem", "grp-count2-1elem", "grp-member-alone", "grp-starts-with-2nd", "grp-elem-unterminated", "nested-1", "nested-count-huge",
			"len-alone:1", "len-alone:2047", "len-alone:4294967295", "data-alone", "pair-1", "pair-soh", "pair-len-too-big", "pair-2047", "pair-2047-short",
			"pair-data-unterminated", "pair-wrong-partner", "unknown-9000", "alias-65536+", "tag-empty", "no-equals", "tag-only", "lone-soh", "tag-digits:31", "tag-digits:32",
			"tag-digits:2047", "strval:0", "strval:2047", "strval:2048", "strval:4096", "int:99999999999" };
		for (const char *c : core) if (n == c) return true;
		return false;
	}
	// the tokens combined in sequences of three
	static bool is_core3(const std::string& n)
	{
		static const char *core3[] = { "body-string", "hdr-string", "trl-pair-soh", "grp-count:1", "grp-count:999999999", "grp-1-elem", "grp-count2-1elem", "grp-member-alone",
			"grp-elem-unterminated", "nested-1", "len-alone:1", "len-alone:2047", "data-alone", "pair-1", "pair-soh", "pair-len-too-big", "pair-2047", "pair-data-unterminated",
			"unknown-9000", "no-equals", "lone-soh", "tag-digits:32", "strval:2047", "strval:2048" };
		for (const char *c : core3) if (n == c) return true;
		return false;
	}
	static std::string rep(char c, size_t n) { return std::string(n, c); }
	void build(const std::string& mt)
	{
		md = find_msg(mt);
		if (!md) throw std::runtime_error("no message type " + mt);
		hdr_mand = mandatory_text(S.header); body_mand = mandatory_text(md->members);
		const std::vector<size_t> lens { 0, 1, 31, 32, 33, 2047, 2048, 2049, 4096, 8000 };
		using M = sm::Member; using F = sm::FieldDef;
		auto body = [&](std::function<bool(const M&, const F&)> p) { return first_member(md->members, p); };
		auto hdr = [&](std::function<bool(const M&, const F&)> p) { return first_member(S.header, p); };
		const M *sf = body([](const M& m, const F& f) { return !m.group && f.vclass() == sm::V_STRING && f.realm == 0; });
		const int sft = sf ? sf->tag : 58;
		// 1. ordinary known fields of the three sections
		add("body-string", tv(sft, "A"));
		if (auto h = hdr([](const M& m, const F& f) { return !m.mandatory && f.vclass() == sm::V_STRING; })) add("hdr-string", tv(h->tag, "S"));
		add("hdr-dup-seqnum", tv(34, "7"));
		add("trl-siglen", tv(93, "1")); add("trl-sig", tv(89, "A")); add("trl-pair", tv(93, "1") + tv(89, "A")); add("trl-pair-soh", tv(93, "3") + tv(89, std::string("A") + SOH + "B"));
		add("chksum-mid", "10=000\x01");
		add("dup-msgtype", tv(35, mt)); add("dup-bodylen", tv(9, "5")); add("dup-begin", tv(8, S.beginstr));
		// 2. repeating groups
		const M *g = body([](const M& m, const F&) { return m.group && m.kids.size() >= 2; });
		if (g) {
			const int gt = g->tag, m1 = g->kids[0].tag, m2 = g->kids[1].tag;
			const std::string v1 = plain_value(FD(m1)), v2 = g->kids[1].group ? "1" : plain_value(FD(m2));
			for (const char *c : { "0", "1", "2", "999999999", "-1", "2147483648", "" }) add(std::string("grp-count:") + c, tv(gt, c));
			add("grp-1-elem", tv(gt, "1") + tv(m1, v1));
			add("grp-2-elem", tv(gt, "2") + tv(m1, v1) + tv(m1, v1));
			add("grp-count2-1elem", tv(gt, "2") + tv(m1, v1));
			add("grp-count1-2elem", tv(gt, "1") + tv(m1, v1) + tv(m2, v2) + tv(m1, v1));
			add("grp-member-alone", tv(m1, v1));
			add("grp-member2-alone", tv(m2, v2));
			add("grp-starts-with-2nd", tv(gt, "1") + tv(m2, v2));
			add("grp-huge-1elem", tv(gt, "999999999") + tv(m1, v1));
			add("grp-elem-unterminated", tv(gt, "1") + std::to_string(m1) + "=" + v1);
			// nested group anywhere among the members
			for (auto& k : g->kids) if (k.group && !k.kids.empty()) {
				const int n1 = k.kids[0].tag; const std::string nv = plain_value(FD(n1));
				add("nested-1", tv(gt, "1") + tv(m1, v1) + tv(k.tag, "1") + tv(n1, nv));
				add("nested-2x2", tv(gt, "2") + tv(m1, v1) + tv(k.tag, "2") + tv(n1, nv) + tv(n1, nv) + tv(m1, v1) + tv(k.tag, "1") + tv(n1, nv));
				add("nested-count-alone", tv(k.tag, "1"));
				add("nested-count-huge", tv(gt, "1") + tv(m1, v1) + tv(k.tag, "999999999"));
				break;
			}
		}
		// 3. Length / data pairs: the first pair of the body, else the header pair SecureDataLen/SecureData
		int lt = 90, dt = 91;
		for (size_t i = 0; i + 1 < md->members.size(); ++i)
			if (FD(md->members[i].tag).is_length() && FD(md->members[i + 1].tag).vclass() == sm::V_DATA) { lt = md->members[i].tag; dt = md->members[i + 1].tag; break; }
		for (const char *c : { "0", "1", "2047", "2048", "4294967295", "-1", "" }) add(std::string("len-alone:") + c, tv(lt, c));
		add("data-alone", tv(dt, "A"));
		add("pair-1", tv(lt, "1") + tv(dt, "A"));
		add("pair-0", tv(lt, "0") + tv(dt, ""));
		add("pair-soh", tv(lt, "3") + tv(dt, std::string("A") + SOH + "B"));
		add("pair-len-too-big", tv(lt, "5") + tv(dt, "A"));
		add("pair-len-too-small", tv(lt, "1") + tv(dt, "ABC"));
		add("pair-2047", tv(lt, "2047") + tv(dt, rep('d', 2047)));
		add("pair-2047-short", tv(lt, "2047") + tv(dt, "A"));
		add("pair-2048", tv(lt, "2048") + tv(dt, rep('d', 2048)));
		add("pair-len-huge", tv(lt, "4294967295") + tv(dt, "A"));
		add("pair-len-wrap", tv(lt, "4294967297") + tv(dt, "A"));
		add("pair-len-neg", tv(lt, "-1") + tv(dt, "A"));
		// small negative lengths and their 32-bit wrap-arounds: an index computed from such a length lands just in front of the
		// value (on the '=', the tag digits, the separator before the tag)
		for (int k = 2; k <= 8; ++k) {
			add("pair-len-neg:" + std::to_string(k), tv(lt, "-" + std::to_string(k)) + tv(dt, "ABC"));
			add("pair-len-wrapneg:" + std::to_string(k), tv(lt, std::to_string(4294967296ULL - (unsigned long long)k)) + tv(dt, "ABC"));
		}
		add("pair-data-unterminated", tv(lt, "1") + std::to_string(dt) + "=A");
		add("pair-data-tag-only", tv(lt, "1") + std::to_string(dt));
		add("pair-wrong-partner", tv(lt, "1") + tv(sft, "A"));
		if (lt != 90) add("hdr-pair-soh", tv(90, "3") + tv(91, std::string("A") + SOH + "B"));
		// 4. unknown and malformed tags
		add("unknown-9000", tv(9000, "x"));
		add("alias-65536+", std::to_string(65536 + sft) + "=A\x01");
		add("tag-0", "0=x\x01"); add("tag-65535", "65535=x\x01"); add("tag-empty", "=x\x01"); add("no-equals", "abc\x01"); add("tag-only", std::to_string(sft) + SOH);
		add("tag-neg", "-1=x\x01"); add("tag-alpha", "5A=x\x01"); add("lone-soh", std::string(1, SOH)); add("lone-eq", "=");
		for (size_t n : { 5, 10, 31, 32, 33, 2047, 2048, 2049, 8000 }) add("tag-digits:" + std::to_string(n), rep('1', n) + "=x\x01");
		// 5. value lengths of a string field (the 2048-byte value buffer) and of typed fields
		for (size_t n : lens) if (n != 1) add("strval:" + std::to_string(n), tv(sft, rep('v', n)));
		add("strval-nul", tv(sft, std::string("a\0b", 3))); add("strval-ff", tv(sft, "\xff\xfe"));
		const M *inf = hdr([](const M& m, const F& f) { return !m.mandatory && f.vclass() == sm::V_INT && !f.is_length(); });
		if (!inf) inf = body([](const M& m, const F& f) { return !m.group && f.vclass() == sm::V_INT && !f.is_length(); });
		if (inf) for (const char *c : { "", "-", "2147483647", "2147483648", "-2147483648", "-2147483649", "99999999999", "-99999999999", "A", "1A", "+1", " 1" }) add(std::string("int:") + c, tv(inf->tag, c));
		if (inf) { add("int-digits:31", tv(inf->tag, rep('9', 31))); add("int-digits:2047", tv(inf->tag, rep('9', 2047))); }
		const M *tsf = hdr([](const M& m, const F& f) { return !m.mandatory && f.vclass() == sm::V_TIMESTAMP; });
		if (tsf) {
			for (const char *c : { "", "2", "20240101", "20240101-", "20240101-00:00:00", "20240101-00:00:00.000", "99999999-99:99:99.999", "00000000-00:00:00", "20240101-00:00:00.1234567890123", "-0240101-00:00:00", "AAAAAAAA-AA:AA:AA", "20240230-24:60:61" })
				add(std::string("ts:") + c, tv(tsf->tag, c));
			add("ts-digits:2047", tv(tsf->tag, rep('9', 2047)));
		}
		const M *ff = body([](const M& m, const F& f) { return !m.group && f.vclass() == sm::V_FLOAT; });
		if (ff) {
			for (const char *c : { "", ".", "-", "-.", "1e5", "1.5e400", "1..2", "0.0000000000000000000000001", "A" }) add(std::string("float:") + c, tv(ff->tag, c));
			add("float-digits:400", tv(ff->tag, rep('9', 400))); add("float-frac:2000", tv(ff->tag, "0." + rep('9', 2000)));
		}
		if (auto cf = body([](const M& m, const F& f) { return !m.group && f.vclass() == sm::V_CHAR; })) { add("char-empty", tv(cf->tag, "")); add("char-long", tv(cf->tag, "ABC")); }
		if (auto bf = hdr([](const M& m, const F& f) { return !m.mandatory && f.vclass() == sm::V_BOOL; })) { add("bool-empty", tv(bf->tag, "")); add("bool-other", tv(bf->tag, "\xff")); }
		for (auto vc : { sm::V_TIMEONLY, sm::V_DATEONLY, sm::V_LOCALMKTDATE, sm::V_MONTHYEAR }) {
			if (auto df = body([vc](const M& m, const F& f) { return !m.group && f.vclass() == vc; })) {
				for (const char *c : { "", "2", "99999999", "2024", "20240229w9", "99:99:99", "00:00" }) add("dt" + std::to_string((int)vc) + ":" + c, tv(df->tag, c));
				add("dt" + std::to_string((int)vc) + "-digits:2047", tv(df->tag, rep('9', 2047)));
			}
		}
		// ---- preamble variants: index 0 = well-formed with the mandatory header fields
		auto P = [&](const std::string& n, const std::string& bs, const std::string& bl, const std::string& mtv, bool mand) {
			pre.push_back({ n, "8=" + bs + SOH + "9=" + bl + SOH + "35=" + mtv + SOH + (mand ? hdr_mand : std::string()) });
		};
		P("ok", S.beginstr, "100", mt, true);
		P("no-mandatory-header", S.beginstr, "100", mt, false);
		for (size_t n : lens) P("beginstring:" + std::to_string(n), rep('F', n), "100", mt, true);
		for (size_t n : lens) if (n > 1) P("msgtype:" + std::to_string(n), S.beginstr, "100", rep('D', n), true);
		P("msgtype-empty", S.beginstr, "100", "", true); P("msgtype-unknown", S.beginstr, "100", "ZZ", true);
		for (size_t n : { 0, 10, 11, 31, 32, 33, 2047 }) P("bodylen-digits:" + std::to_string(n), S.beginstr, rep('9', n), mt, true);
		P("bodylen-neg", S.beginstr, "-1", mt, true); P("bodylen-alpha", S.beginstr, "X5", mt, true); P("bodylen-wrap", S.beginstr, "4294967297", mt, true);
		// long tags in the three framing fields (extract_header's own 32-byte tag buffer)
		for (size_t n : { 31, 32, 33, 2047, 2049 }) {
			pre.push_back({ "tag1-digits:" + std::to_string(n), rep('8', n) + "=" + S.beginstr + SOH + "9=100\x01" "35=" + mt + SOH + hdr_mand });
			pre.push_back({ "tag2-digits:" + std::to_string(n), "8=" + S.beginstr + SOH + rep('9', n) + "=100\x01" "35=" + mt + SOH + hdr_mand });
			pre.push_back({ "tag3-digits:" + std::to_string(n), "8=" + S.beginstr + SOH + "9=100\x01" + "35" + rep('5', n - 2) + "=" + mt + SOH + hdr_mand });
		}
		pre.push_back({ "tag88", "88=" + S.beginstr + SOH + "9=100\x01" "35=" + mt + SOH + hdr_mand });
		pre.push_back({ "no-9", "8=" + S.beginstr + SOH + "35=" + mt + SOH + hdr_mand });
		pre.push_back({ "no-35", "8=" + S.beginstr + SOH + "9=100\x01" + hdr_mand });
		pre.push_back({ "35-first", "35=" + mt + SOH + "8=" + S.beginstr + SOH + "9=100\x01" + hdr_mand });
		pre.push_back({ "350", "8=" + S.beginstr + SOH + "9=100\x01" "350=" + mt + SOH + hdr_mand });
		pre.push_back({ "3", "8=" + S.beginstr + SOH + "9=100\x01" "3=" + mt + SOH + hdr_mand });
		pre.push_back({ "no-soh", "8=" + S.beginstr + "9=100" "35=" + mt });
		pre.push_back({ "8-only", "8=" + S.beginstr + SOH });
		pre.push_back({ "8-9-only", "8=" + S.beginstr + SOH + "9=100\x01" });
		pre.push_back({ "header-unterminated", "8=" + S.beginstr + SOH + "9=100\x01" "35=" + mt });
		pre.push_back({ "empty", "" });
	}
	// place: 0 = tokens, then the mandatory body fields; 1 = mandatory body fields, then tokens; 2 = tokens only
	// trl:   0 = correct CheckSum; 1 = none; 2 = wrong CheckSum; 3 = correct but without the final SOH
	std::string make(int pv, int place, int trl, const std::vector<int>& ti) const
	{
		std::string m = pre[pv].bytes, t;
		for (int i : ti) t += toks[i].bytes;
		if (place == 0) m += t + body_mand; else if (place == 1) m += body_mand + t; else m += t;
		switch (trl) {
		case 0: m += chk_of(m); break;
		case 2: { std::string c = chk_of(m); m += (c == "10=000\x01" ? "10=001\x01" : "10=000\x01"); } break;
		case 3: { std::string c = chk_of(m); m += c.substr(0, 6); } break;
		default: break;
		}
		return m;
	}
};

// ------------------------------------------------------------------------------------------ seeds (pre / sub / sub2)
struct Seeds {
	std::vector<std::pair<std::string, std::string>> v;	// name, wire (independent reference serializer)
	void build()
	{
		mg::Lattice L(S);
		const sm::MsgDef *logon = find_msg("A"), *nos = find_msg("D");
		// 0: Logon, mandatory fields + the RawDataLength/RawData pair (shortest)
		{
			mg::Tree t = L.make(*logon, 0, 0, 1);
			mg::Node a, b; a.tag = 95; a.text = "3"; b.tag = 96; b.text = "a=b";
			t.body.push_back(a); t.body.push_back(b);
			v.push_back({ "logon-rawdata", mg::serialize(S, t) });
		}
		v.push_back({ "logon-all", mg::serialize(S, L.make(*logon, 1, 1, 1)) });
		v.push_back({ "nos-all-2elem", mg::serialize(S, L.make(*nos, 1, 0, 2)) });
		// the message with the deepest group nesting (first of them), all members, one element per level
		int best = -1, bd = 0;
		for (size_t i = 0; i < S.msgs.size(); ++i) { int d = mg::group_depth(L.make(S.msgs[i], 1, 0, 1).body); if (d > bd) { bd = d; best = (int)i; } }
		if (best >= 0) v.push_back({ "deepest-nesting:" + S.msgs[best].name + ":depth" + std::to_string(bd), mg::serialize(S, L.make(S.msgs[best], 1, 0, 1)) });
	}
};
static const unsigned char SUBST[7] = { 0x01, '=', '0', '9', 'A', 0x00, 0xFF };

// ------------------------------------------------------------------------------------------ small-scope strings
static std::string nth_string(const char *alpha, int na, int len, unsigned long long idx)
{ std::string s(len, ' '); for (int i = len - 1; i >= 0; --i) { s[i] = alpha[idx % na]; idx /= na; } return s; }
static unsigned long long ipow(unsigned long long b, int e) { unsigned long long r = 1; while (e-- > 0) r *= b; return r; }
static const char SMALL_ALPHA[] = { '1', '3', '5', '9', '=', SOH, 'A' };
static const char RAW_ALPHA[] = { '8', '9', '=', SOH, '1', 'A', '3', '5' };

// ------------------------------------------------------------------------------------------ encoder family
struct EncFam {
	mg::Lattice L; EncFam() : L(S) {}
	static const int NLEN = 12;
	// the stretched field: first depth-0 body string field without an enumerated domain in the mandatory-only shape, else SenderCompID
	static mg::Node *pick(mg::Tree& t)
	{
		for (auto& n : t.body) if (!n.group && FD(n.tag).vclass() == sm::V_STRING && FD(n.tag).realm == 0) return &n;
		for (auto& n : t.header) if (n.tag == 49) return &n;
		return nullptr;
	}
	// length for index li; the boundary ones place the end of "35=...10=ccc|" + terminator at 8191..8194 bytes, the capacity
	// of the stack buffer of encode(f8String&) behind HEADER_CALC_OFFSET being FIX8_MAX_MSG_LENGTH
	static long length_for(int li, size_t payload0)
	{
		static const long fixed[] = { 100, 2047, 2048, 4096, 8000 };
		if (li < 5) return fixed[li];
		if (li < 9) return (long)(FIX8_MAX_MSG_LENGTH - 1 + (li - 5)) - 1 - (long)payload0;	// payload + NUL = 8191, 8192, 8193, 8194
		static const long big[] = { 8193, 20000, 70000 };
		return big[li - 9];
	}
	void run(const std::string& id, int api, int mi, int li)
	{
		vh::Run& R = *RP;
		const sm::MsgDef& md = S.msgs[mi];
		mg::Tree t = L.make(md, 0, 0, 1);
		mg::Node *n = pick(t);
		if (!n) { R.outcome("enc:no-string-field"); return; }
		n->text = "";
		const std::string ref0 = mg::serialize(S, t);
		const size_t payload0 = ref0.size() - ref0.find("\x01" "35=") - 1;
		const long len = length_for(li, payload0);
		if (len < 0) { R.outcome("enc:length-not-reachable"); return; }
		n->text = std::string((size_t)len, 'x');
		const int stretched = n->tag;
		std::unique_ptr<Message> m;
		try { m.reset(mg::build(*CTX, t, 0)); }
		catch (std::exception& e) { R.outcome("enc:build-throws"); return; }
		// what the encoder produces when it has room (heap buffer with slack): the comparison value and the exact size
		std::string wire;
		std::vector<char> roomy((size_t)len + 65536);
		try { char *p = roomy.data(); size_t k = m->encode(&p); wire.assign(p, k); }
		catch (std::exception& e) { R.outcome("enc:throws:" + exname(e)); return; }
		const size_t payload = wire.size() - wire.find("\x01" "35=") - 1;
		std::vector<std::string> tags { api == 0 ? "api:encode_string" : "api:encode_ptr" };
		if (wire.size() > FIX8_MAX_MSG_LENGTH) tags.push_back("encoded_len_gt:8192");
		if (payload + 1 > FIX8_MAX_MSG_LENGTH) tags.push_back("payload_plus_nul_gt:8192");
		std::string tagstr; for (auto& x : tags) tagstr += (tagstr.empty() ? "" : ",") + x;
		R.begin_case(id, tagstr);
		if (wire.size() > 2048) ++R.nontrivial;
		if (R.verbose()) fprintf(stderr, "case %s  %s field %d stretched to %ld bytes: encoded message %zu bytes, payload from 35= %zu bytes (+1 terminator)\n", id.c_str(), md.name.c_str(), stretched, len, wire.size(), payload);
		// a Message object is encoded once: encode() clears the suppress flags of 8/9/10, a second encode of the same object emits them twice
		m.reset(mg::build(*CTX, t, 0));
		Message *mp = m.get();
		auto job = [&]() -> std::string {
			try {
				if (api == 0) { f8String out; mp->encode(out); return out == wire ? "same" : "differs"; }
				// caller-supplied buffer of exactly HEADER_CALC_OFFSET + payload + 1 bytes, ending at an inaccessible page
				const size_t need = HEADER_CALC_OFFSET + payload + 1, PG = 4096, span = (need + PG - 1) / PG * PG + 2 * PG;
				char *reg = (char *)mmap(0, span, PROT_READ | PROT_WRITE, MAP_PRIVATE | MAP_ANONYMOUS, -1, 0);
				mprotect(reg, PG, PROT_NONE); mprotect(reg + span - PG, PG, PROT_NONE);
				char *buf = reg + span - PG - need, *p = buf;
				memset(reg + PG, 0x5a, span - 2 * PG);
				size_t k = mp->encode(&p);
				if (p < buf || p + k + 1 > buf + need) return "result-outside-buffer";
				for (char *q = reg + PG; q < buf; ++q) if (*q != 0x5a) return "wrote-before-buffer";
				return std::string(p, k) == wire ? "same" : "differs";
			}
			catch (std::exception& e) { return "throws:" + exname(e); }
			catch (...) { return "throws-other"; }
		};
		fb::Child c = fb::run_forked(job, 120000);
		if (c.timed_out) c = fb::run_forked(job, 120000);	// a loaded machine is not a hanging encoder: once more
		const std::string& res = c.result; const bool clean = c.clean;
		const std::string desc = md.name + ": field " + std::to_string(stretched) + " of " + std::to_string(len) + " bytes, encoded message " + std::to_string(wire.size()) + " bytes";
		if (R.verbose()) fprintf(stderr, " observed: %s\n%s expected: the encoded bytes or an exception, no write outside the buffer\n", clean ? res.c_str() : fb::crash_mode(c.text, c.status).c_str(), clean ? "" : c.text.substr(0, 3000).c_str());
		if (c.timed_out) { R.outcome("enc:hang"); R.viol("no-hang", "encoder-child-timeout", tags, id, "no result after 2 x 120 s", "returns or throws", desc); return; }
		if (!clean) {
			const std::string mode = fb::crash_mode(c.text, c.status);
			R.outcome("enc:crash:" + mode);
			if (!R.verbose()) fwrite(c.text.data(), 1, std::min<size_t>(c.text.size(), 3000), stderr);
			R.viol("encode-within-buffer", mode, tags, id, mode, "the encoded bytes or an exception; no write outside the output buffer", desc);
			return;
		}
		if (res == "same") R.outcome(std::string("enc:ok:") + (api == 0 ? "string" : "ptr-exact-buffer"));
		else if (res.compare(0, 7, "throws:") == 0) R.outcome("enc:" + res);
		else { R.outcome("enc:" + res); R.viol("encode-produces-bytes", res, tags, id, res, "the same bytes as encoding into a roomy buffer", desc); }
	}
};

// ------------------------------------------------------------------------------------------ main
static std::vector<std::string> split(const std::string& s, char c)
{ std::vector<std::string> o; std::string x; std::istringstream is(s); while (std::getline(is, x, c)) o.push_back(x); if (!s.empty() && s.back() == c) o.push_back(""); return o; }

int main(int argc, char **argv)
{
	vh::Run R(argc, argv); RP = &R;
	fb::block_prof();	// inherited by the logger thread
	// the global logger (and its thread) is first touched in the forked children only: see forkbatch.hpp child_init
	SCHEMA = R.args.get("schema", "utest");
	CTX = SCHEMA == "utest" ? &UTEST::ctx() : &F44::ctx();
	sm::load_schema(S, std::string(getenv("VERIF_BUILD") ? getenv("VERIF_BUILD") : "build/main") + "/gen/" + SCHEMA + ".model");
	bigbuf = (char *)malloc(BIG);
	const std::string fams = "," + R.args.get("fam", "tok,pre,sub,sub2,small,raw,enc") + ",";
	auto has = [&](const char *f) { return fams.find(std::string(",") + f + ",") != std::string::npos; };
	const std::vector<std::string> ntoks = split(R.args.get("ntok", "2"), ',');	// per message of msgs= (the last value repeats)
	const int ntokall = (int)R.args.num("ntokall", 1), smalllen = (int)R.args.num("smalllen", 4), rawlen = (int)R.args.num("rawlen", 5);
	const size_t subseeds = (size_t)R.args.num("subseeds", 99);	// sub: the first n seeds
	const int encstep = (int)R.args.num("encstep", 1);			// enc: every n-th message type
	const int sub2max = (int)R.args.num("sub2max", 0);		// sub2: positions < sub2max of seed 0 (0 = whole seed)
	const std::vector<std::string> tokmsgs = split(R.args.get("msgs", "D,A"), ',');

	std::map<std::string, TokFam> tf;
	auto tokfam = [&](const std::string& mt) -> TokFam& { auto i = tf.find(mt); if (i == tf.end()) { i = tf.emplace(mt, TokFam()).first; i->second.build(mt); } return i->second; };
	Seeds seeds; seeds.build();
	std::unique_ptr<EncFam> enc;

	// ---- executes the case described by `d` (the replay string).  Returns false if the descriptor is malformed.
	auto run_desc = [&](const std::string& d) -> bool {
		std::vector<std::string> f = split(d, ':');
		if (f.empty()) return false;
		std::string in; int flags = 0; std::vector<std::string> tags;
		if (f[0] == "tok" && f.size() == 7) {
			TokFam& T = tokfam(f[1]);
			std::vector<int> ti; for (auto& x : split(f[6], '.')) if (!x.empty() && x != "-") ti.push_back(atoi(x.c_str()));
			const int pv = atoi(f[2].c_str()), place = atoi(f[3].c_str()), trl = atoi(f[4].c_str()); flags = atoi(f[5].c_str());
			in = T.make(pv, place, trl, ti);
			tags.push_back("fam:tok"); tags.push_back("preamble:" + T.pre[pv].name);
			for (int i : ti) tags.push_back("tok:" + T.toks[i].name);
		}
		else if (f[0] == "pre" && f.size() == 5) {
			const std::string& w = seeds.v.at(atoi(f[1].c_str())).second; in = w.substr(0, atoi(f[2].c_str()));
			if (atoi(f[3].c_str())) in += chk_of(in);
			flags = atoi(f[4].c_str()); tags.push_back("fam:pre");
		}
		else if (f[0] == "sub" && f.size() == 5) {
			in = seeds.v.at(atoi(f[1].c_str())).second; in[atoi(f[2].c_str())] = (char)SUBST[atoi(f[3].c_str())];
			flags = atoi(f[4].c_str()); tags.push_back("fam:sub");
		}
		else if (f[0] == "sub2" && f.size() == 7) {
			in = seeds.v.at(atoi(f[1].c_str())).second; in[atoi(f[2].c_str())] = (char)SUBST[atoi(f[3].c_str())]; in[atoi(f[4].c_str())] = (char)SUBST[atoi(f[5].c_str())];
			flags = atoi(f[6].c_str()); tags.push_back("fam:sub2");
		}
		else if (f[0] == "sm" && f.size() == 7) {
			TokFam& T = tokfam(f[1]);
			const int pv = atoi(f[2].c_str()), trl = atoi(f[3].c_str()), len = atoi(f[4].c_str());
			// after the well-formed header come the mandatory body fields, so that the string is decoded inside a complete message
			in = T.pre[pv].bytes + (pv == 0 ? T.body_mand : std::string()) + nth_string(SMALL_ALPHA, 7, len, strtoull(f[5].c_str(), 0, 10));
			if (trl) in += chk_of(in);
			flags = atoi(f[6].c_str()); tags.push_back("fam:small");
		}
		else if (f[0] == "raw" && f.size() == 4) {
			in = nth_string(RAW_ALPHA, 8, atoi(f[1].c_str()), strtoull(f[2].c_str(), 0, 10));
			flags = atoi(f[3].c_str()); tags.push_back("fam:raw");
		}
		else if (f[0] == "enc" && f.size() == 4) {
			if (!enc) enc.reset(new EncFam);
			enc->run(d, atoi(f[1].c_str()), atoi(f[2].c_str()), atoi(f[3].c_str()));
			return true;
		}
		else return false;
		if (in.size() > MAXIN) { R.outcome("skipped:input-longer-than-max-msg-length"); return true; }
		std::string tagstr; for (auto& x : tags) tagstr += (tagstr.empty() ? "" : ",") + x;
		R.begin_case(d, tagstr);
		judge_decode(d, tags, in, flags);
		return true;
	};

	if (R.single) {
		fb::child_init();	// no fork in this mode
		fb::start_watchdog(true);
		if (!run_desc(R.single_case)) { fprintf(stderr, "malformed case descriptor %s\n", R.single_case.c_str()); return 2; }
		R.finish(); return R.violations ? 1 : 0;
	}
	if (R.args.has("list")) {	// developer aid: print the token / preamble / seed tables
		for (auto& mt : tokmsgs) { TokFam& T = tokfam(mt); printf("msg %s: %zu tokens, %zu preambles\n", mt.c_str(), T.toks.size(), T.pre.size());
			for (size_t i = 0; i < T.toks.size(); ++i) printf("  tok %zu %s (%zu bytes) %s\n", i, T.toks[i].name.c_str(), T.toks[i].bytes.size(), vh::show(T.toks[i].bytes).substr(0, 60).c_str());
			for (size_t i = 0; i < T.pre.size(); ++i) printf("  pre %zu %s (%zu bytes)\n", i, T.pre[i].name.c_str(), T.pre[i].bytes.size()); }
		for (size_t i = 0; i < seeds.v.size(); ++i) printf("seed %zu %s (%zu bytes) %s\n", i, seeds.v[i].first.c_str(), seeds.v[i].second.size(), vh::show(seeds.v[i].second).substr(0, 300).c_str());
		return 0;
	}

	// ---- execution in forked batches (engines/explore/forkbatch.hpp): the parent enumerates, children execute; a child that dies
	// (sanitizer report, signal, CPU-time watchdog) is attributed to its case and the batch is resumed after it.  Memory that a
	// case leaks (Message::factory does not free the message when decode throws) never accumulates beyond one batch.
	unsigned long long id = 0; char db[256];
	fb::Batcher B(R, [&](const char *d) { run_desc(d); });
	B.clause_of = [](const std::string& rep, const std::string& mode) {
		return mode.compare(0, 5, "hang:") == 0 ? std::string("no-hang") : rep.compare(0, 4, "enc:") == 0 ? std::string("encode-within-buffer") : std::string("memory-safe-and-total"); };
	bool& complete = B.complete;
#define CASE(...) do { if (R.mine(id)) { snprintf(db, sizeof db, __VA_ARGS__); B.on_case(id, db); } ++id; } while (0)
#define STOP_IF_LATE if (!complete) break;

	if (has("tok")) for (size_t mti = 0; mti < tokmsgs.size(); ++mti) {
		const std::string& mt = tokmsgs[mti];
		const int ntok = atoi(ntoks[std::min(mti, ntoks.size() - 1)].c_str());
		TokFam& T = tokfam(mt); const int NPRE = (int)T.pre.size();
		std::vector<int> all, core, core3;
		for (size_t i = 0; i < T.toks.size(); ++i) { all.push_back((int)i); if (T.toks[i].core) core.push_back((int)i); if (TokFam::is_core3(T.toks[i].name)) core3.push_back((int)i); }
		bool sampled = false;
		// sequences of k tokens: over all tokens for k <= ntokall, over the core tokens for k = 2, over the smaller core3 set beyond.  Preamble variants: all of them
		// with no token (a broken preamble ends decoding before any token is looked at); {well-formed, without the mandatory header
		// fields} with one or two tokens; the well-formed one beyond.  Three and more tokens: two placements, two trailers.
		for (int k = 0; k <= ntok && complete; ++k) {
			const std::vector<int>& sel = k <= ntokall ? all : k <= 2 ? core : core3; const int NT = (int)sel.size();
			std::vector<int> oi(k, 0);
			for (bool more = true; more && complete;) {
				STOP_IF_LATE;
				std::vector<int> ti(k); for (int i = 0; i < k; ++i) ti[i] = sel[oi[i]];
				std::string ts; for (int i = 0; i < k; ++i) ts += (i ? "." : "") + std::to_string(ti[i]); if (ts.empty()) ts = "-";
				const int npv = k == 0 ? NPRE : k <= 2 ? 2 : 1, nplace = k <= 2 ? 3 : 2;
				for (int pv = 0; pv < npv; ++pv) for (int place = 0; place < nplace; ++place) for (int trl = 0; trl < (k <= 2 ? 4 : 2); ++trl) for (int fl = 0; fl < 4; ++fl)
					CASE("tok:%s:%d:%d:%d:%d:%s", mt.c_str(), pv, place, trl, fl, ts.c_str());
				if (!sampled && k == 2 && R.shard_k == 0) { sampled = true; R.sample("tok:" + mt + ":0:1:0:0:" + ts, "token sequence after a well-formed header: " + vh::show(T.make(0, 1, 0, ti)).substr(0, 300)); }
				int p = k - 1; while (p >= 0 && ++oi[p] == NT) oi[p--] = 0; more = p >= 0;
			}
		}
	}
	if (has("pre")) for (size_t s = 0; s < seeds.v.size() && complete; ++s) {
		for (size_t len = 0; len <= seeds.v[s].second.size(); ++len) {
			STOP_IF_LATE;
			for (int wt = 0; wt < 2; ++wt) for (int fl = 0; fl < 4; ++fl) CASE("pre:%zu:%zu:%d:%d", s, len, wt, fl);
		}
		if (R.shard_k == 0) R.sample("pre:" + std::to_string(s) + ":40:0:0", "prefix of seed " + seeds.v[s].first + " (" + std::to_string(seeds.v[s].second.size()) + " bytes): " + vh::show(seeds.v[s].second).substr(0, 200));
	}
	if (has("sub")) for (size_t s = 0; s < std::min<size_t>(seeds.v.size(), subseeds) && complete; ++s)
		for (size_t pos = 0; pos < seeds.v[s].second.size(); ++pos) {
			STOP_IF_LATE;
			for (int b = 0; b < 7; ++b) for (int fl = 0; fl < 4; ++fl) CASE("sub:%zu:%zu:%d:%d", s, pos, b, fl);
		}
	if (has("sub2")) {
		const size_t n = sub2max ? std::min<size_t>(sub2max, seeds.v[0].second.size()) : seeds.v[0].second.size();
		for (size_t p1 = 0; p1 < n && complete; ++p1) for (size_t p2 = p1 + 1; p2 < n; ++p2) {
			STOP_IF_LATE;
			for (int b1 = 0; b1 < 7; ++b1) for (int b2 = 0; b2 < 7; ++b2) for (int fl = 0; fl < 4; fl += 3) CASE("sub2:0:%zu:%d:%zu:%d:%d", p1, b1, p2, b2, fl);
		}
	}
	if (has("small")) {
		const std::string mt = tokmsgs.back(); (void)tokfam(mt);
		for (int len = 0; len <= smalllen && complete; ++len) {
			const unsigned long long n = ipow(7, len);
			for (unsigned long long i = 0; i < n; ++i) {
				STOP_IF_LATE;
				for (int pv = 0; pv < 2; ++pv) for (int trl = 0; trl < 2; ++trl) for (int fl = 0; fl < 4; ++fl) CASE("sm:%s:%d:%d:%d:%llu:%d", mt.c_str(), pv, trl, len, i, fl);
			}
		}
	}
	if (has("raw")) for (int len = 0; len <= rawlen && complete; ++len) {
		const unsigned long long n = ipow(8, len);
		for (unsigned long long i = 0; i < n; ++i) { STOP_IF_LATE; for (int fl = 0; fl < 4; fl += 3) CASE("raw:%d:%llu:%d", len, i, fl); }
	}
	if (has("enc")) {
		enc.reset(new EncFam);
		fb::warm_symbolizer();	// load the debug information once, before the children are forked
		for (int li = 0; li < EncFam::NLEN && complete; ++li) for (size_t mi = 0; mi < S.msgs.size(); mi += encstep) {
			STOP_IF_LATE;
			for (int api = 0; api < 2; ++api) CASE("enc:%d:%zu:%d", api, mi, li);
		}
	}
	B.end();
	R.finish(complete);
	return 0;
}
