// C32 — the XML configuration parser preserves element trees; arbitrary bytes give a tree or a parse error.
//
// part=trees   Reference trees are generated, serialised by the harness' own writer (markup characters < > & " '
//              always written as references, in five styles: named, decimal, hex, decimal with a leading zero,
//              upper-case hex with leading zeros), parsed by the real XmlElement::Factory(istream&, docpath) with
//              the documented `noextensions` flag set, and compared node by node with the reference: tag, attribute
//              map, text, child order; then every path lookup (find first / find all / find_child / attribute
//              filter) from every element, for every real path and a fixed list of near misses, is compared with an
//              independent path evaluator over the reference tree.
//   family A  (labels)   every ordered tree shape with <= maxn nodes x every assignment of tags {a,b,a:b} to its
//                        nodes x 2 layouts; attribute sets and values by the rotating default rule below.
//   family B  (one slot) every shape with <= maxn nodes (+ the big shapes when big=1) x rotation r in 0..4 x every
//                        slot (text of a node / one attribute of a node) x every value of the 13-value alphabet x
//                        5 reference styles x 2 layouts; all other slots keep the rotating default.
//   family C  (product)  every shape with <= 3 nodes x every combination of (attribute set, value of every slot)
//                        with values from the reduced alphabet (first `ralpha` entries of RALPHA = {v, empty, &lt;, &, <}; `ralpha3`
//                        entries for 3 nodes); tags, layout and
//                        reference style rotate with the combination index.
//   rotating default rule (r = rotation): node k (preorder) has tag TAGS[(k+r)%3] (families B, C) and attribute set
//              CFG[(k+r)%5] of {none, x, y, x y, y x}; slots are numbered in preorder (text of node 0, attributes of
//              node 0 in written order, text of node 1, ...); slot j has value DEF[(j+r)%9]; markup characters in
//              default slots are written with style (style0 + running count) % 5.
//   layouts    0: compact, text before children, double quotes, <t/> for empty elements, docpath = nullptr;
//              1: <?xml ...?> declaration, comments before the root and before every child, attributes on their own
//                 lines with single quotes, text after the children, <t ></t> for empty elements, children of
//                 text-less elements indented with newline + blanks, docpath = "doc" (the parser adds a root
//                 attribute docpath=doc, which the oracle expects in that layout).
//
// part=bytes   every string of length <= maxlen over {< > / a = " space ! - &} (and, with ltlen=n > maxlen, every string of
//              length n over the same alphabet that begins with '<'); every prefix and every single-byte
//              substitution (from SUBST) of the seed documents (kitchen sink with declaration, comment, CDATA, both
//              quote kinds, references of every form, a failing xi:include; element nesting at MaxDepth = 128 and at
//              MaxDepth + 1; a 4 KB document).  Oracle: Factory returns a tree (which is then walked and deleted) or
//              nullptr, or throws XMLError / std::exception; ASan + UBSan silent; the driver's watchdog bounds time.
//              For strings of length <= 4 and for every prefix of a seed the parse is repeated with the dead stack
//              pre-filled with 'a', '\n', '<', '"': the result (tree dump + line count, or exception text) must not
//              depend on the fill (catches reads of never-written stack memory, which the sanitizers do not see).
#include <fix8/f8includes.hpp>
#include <unordered_set>
#include "vh.hpp"
using namespace FIX8;

// a 256 MB quarantine makes every shard touch fresh pages all the time (page faults dominate the run here); the
// objects of one parse are a few KB, so 16 MB still keeps freed memory poisoned for thousands of cases
extern "C" const char *__asan_default_options() { return "quarantine_size_mb=16:allocator_release_to_os_interval_ms=-1"; }

//-----------------------------------------------------------------------------------------------------------------
static const char *TAGS[3] = { "a", "b", "a:b" };
static const char *ANAME[2] = { "x", "y" };
static const int CFG[5][3] = { { 0, 0, 0 }, { 1, 0, 0 }, { 1, 1, 0 }, { 2, 0, 1 }, { 2, 1, 0 } };	// count, names
static std::string allprint() { std::string s; for (int c = 0x20; c < 0x7f; ++c) s += (char)c; return s; }
static const std::vector<std::string> ALPHA = { "v", "", "a b", "<", ">", "&", "\"", "'", "&lt;", "&#65;",
	"~!@#$%^*()[]{}", "x=y", allprint() };
static const std::vector<std::string> DEF = { "v", "a b", "<", "x=y", "&", ">", "\"", "'", "" };
static const std::vector<std::string> RALPHA = { "v", "", "&lt;", "&", "<" };
static const int NSTYLE = 5;
static const char *STYLENAME[NSTYLE] = { "named", "dec", "hex", "dec0", "HEX00" };

struct RNode { std::string tag, text; std::vector<std::pair<std::string, std::string>> attrs; std::vector<int> kids; int parent = -1, depth = 0; };
typedef std::vector<RNode> RTree;

//-----------------------------------------------------------------------------------------------------------------
// shapes: depth sequences d[0]=0, 1 <= d[i] <= d[i-1]+1, lexicographic; Catalan(n-1) of them
static std::vector<std::vector<std::vector<int>>> SHAPES;
static void gen_shapes(int maxn)
{
	SHAPES.assign(maxn + 1, {});
	for (int n = 1; n <= maxn; ++n) {
		std::vector<int> d(n, 0);
		std::function<void(int)> rec = [&](int i) {
			if (i == n) { SHAPES[n].push_back(d); return; }
			for (int v = 1; v <= d[i - 1] + 1; ++v) { d[i] = v; rec(i + 1); }
		};
		rec(1);
	}
}
// big shapes, n code 100..: 100 caterpillar depth 6 x width 6 (37 nodes), 101 complete binary tree of depth 6
// (127 nodes), 102 complete 6-ary tree of depth 2 (43 nodes)
static const int NBIG = 3;
static void kary(std::vector<int>& d, int depth, int maxdepth, int k)
{ d.push_back(depth); if (depth < maxdepth) for (int i = 0; i < k; ++i) kary(d, depth + 1, maxdepth, k); }
static std::vector<int> shape_of(int n, int s)
{
	if (n < 100) return SHAPES[n][s];
	std::vector<int> d;
	if (n == 100) {	// a chain of depth 6 whose every inner element has 6 children: the chain first, then 5 leaves
		std::function<void(int)> rec = [&](int lev) { d.push_back(lev); if (lev < 6) { rec(lev + 1); for (int i = 0; i < 5; ++i) d.push_back(lev + 1); } };
		rec(0);
	}
	else if (n == 101) kary(d, 0, 6, 2);
	else kary(d, 0, 2, 6);
	return d;
}
static int nshapes(int n) { return n < 100 ? (int)SHAPES[n].size() : 1; }

static RTree tree_of(const std::vector<int>& d)
{
	RTree t(d.size()); std::vector<int> last(d.size() + 1, -1);
	for (size_t i = 0; i < d.size(); ++i) {
		t[i].depth = d[i];
		if (d[i] > 0) { t[i].parent = last[d[i] - 1]; t[t[i].parent].kids.push_back((int)i); }
		last[d[i]] = (int)i;
	}
	return t;
}
struct Slot { int node, attr; };	// attr -1 = text
static std::vector<Slot> slots_of(const RTree& t)
{ std::vector<Slot> v; for (size_t k = 0; k < t.size(); ++k) { v.push_back({ (int)k, -1 }); for (size_t a = 0; a < t[k].attrs.size(); ++a) v.push_back({ (int)k, (int)a }); } return v; }
static std::string& slot_val(RTree& t, const Slot& s) { return s.attr < 0 ? t[s.node].text : t[s.node].attrs[s.attr].second; }
static void apply_defaults(RTree& t, int r, bool tags)
{
	for (size_t k = 0; k < t.size(); ++k) {
		if (tags) t[k].tag = TAGS[(k + r) % 3];
		const int *c = CFG[(k + r) % 5];
		for (int a = 0; a < c[0]; ++a) t[k].attrs.push_back({ ANAME[c[1 + a]], "" });
	}
	auto sl = slots_of(t);
	for (size_t j = 0; j < sl.size(); ++j) slot_val(t, sl[j]) = DEF[(j + r) % DEF.size()];
}

//-----------------------------------------------------------------------------------------------------------------
// the harness' own writer
struct Writer {
	const RTree& t; int layout, ctr; std::vector<int> slot_style;	// per slot: -1 = rotate
	std::string out; int slotno = 0; int nrefs = 0;
	Writer(const RTree& tt, int l, int style0) : t(tt), layout(l), ctr(style0) {}
	void esc(const std::string& v, int fixed)
	{
		for (unsigned char c : v) {
			const char *nm = c == '<' ? "lt" : c == '>' ? "gt" : c == '&' ? "amp" : c == '"' ? "quot" : c == '\'' ? "apos" : nullptr;
			if (!nm) { out += (char)c; continue; }
			const int st = fixed >= 0 ? fixed : (ctr++ % NSTYLE); char b[16]; ++nrefs;
			switch (st) {
			case 0: out += '&'; out += nm; out += ';'; break;
			case 1: snprintf(b, sizeof b, "&#%d;", c); out += b; break;
			case 2: snprintf(b, sizeof b, "&#x%x;", c); out += b; break;
			case 3: snprintf(b, sizeof b, "&#0%d;", c); out += b; break;
			default: snprintf(b, sizeof b, "&#x00%X;", c); out += b; break;
			}
		}
	}
	int style_of(int slot) const { return slot < (int)slot_style.size() ? slot_style[slot] : -1; }
	void node(int k)
	{
		const RNode& n = t[k]; const char q = layout ? '\'' : '"';
		const int textslot = slotno++;
		out += '<'; out += n.tag;
		for (auto& a : n.attrs) {
			out += layout ? "\n  " : " "; out += a.first; out += '='; out += q; esc(a.second, style_of(slotno++)); out += q;
		}
		if (layout) out += ' ';
		const bool empty = n.text.empty() && n.kids.empty();
		if (empty && !layout) { out += "/>"; return; }
		out += '>';
		const bool indent = layout && n.text.empty();
		if (!layout) esc(n.text, style_of(textslot));
		for (int c : n.kids) {
			if (indent) { out += '\n'; out.append(2 * (n.depth + 1), ' '); }
			if (layout) out += "<!-- c -->";
			node(c);
		}
		if (layout) esc(n.text, style_of(textslot));
		if (indent && !n.kids.empty()) { out += '\n'; out.append(2 * n.depth, ' '); }
		out += "</"; out += n.tag; out += '>';
	}
	const std::string& doc()
	{
		if (layout) out += "<?xml version=\"1.0\" encoding=\"UTF-8\"?>\n<!-- c32 -->\n";
		node(0);
		if (layout) out += '\n';
		return out;
	}
};

//-----------------------------------------------------------------------------------------------------------------
// independent single-pass reference decoder: only used to *name* the failure mode (decoded twice or something else)
static std::string decode_once(const std::string& s)
{
	static const std::map<std::string, char> ent = { { "amp", '&' }, { "lt", '<' }, { "gt", '>' }, { "apos", '\'' }, { "quot", '"' } };
	std::string o;
	for (size_t i = 0; i < s.size();) {
		size_t e;
		if (s[i] == '&' && (e = s.find(';', i)) != std::string::npos) {
			const std::string b = s.substr(i + 1, e - i - 1);
			auto it = ent.find(b);
			if (it != ent.end()) { o += it->second; i = e + 1; continue; }
			if (b.size() > 1 && b[0] == '#') {
				char *end; long v = b[1] == 'x' ? strtol(b.c_str() + 2, &end, 16) : strtol(b.c_str() + 1, &end, 10);
				if (!*end && end != b.c_str() + (b[1] == 'x' ? 2 : 1) && v > 0 && v < 256) { o += (char)v; i = e + 1; continue; }
			}
		}
		o += s[i++];
	}
	return o;
}
// scope predicate: the value contains an ampersand followed by text with the syntax of a reference, i.e. the
// serialised form contains an *escaped* ampersand directly followed by "name;" or "#digits;"
static bool has_amp_reference(const std::string& s)
{
	for (size_t i = 0; i < s.size(); ++i) {
		if (s[i] != '&') continue;
		size_t e = s.find(';', i); if (e == std::string::npos) continue;
		const std::string b = s.substr(i + 1, e - i - 1); if (b.empty()) continue;
		bool ok = true;
		if (b[0] == '#') { size_t j = 1; if (j < b.size() && b[j] == 'x') { ++j; ok = j < b.size(); for (; j < b.size(); ++j) ok = ok && isxdigit((unsigned char)b[j]); }
			else { ok = j < b.size(); for (; j < b.size(); ++j) ok = ok && isdigit((unsigned char)b[j]); } }
		else { size_t j = 0; while (j < b.size() && islower((unsigned char)b[j])) ++j; ok = j >= 2; while (j < b.size() && b[j] >= '1' && b[j] <= '4') ++j; ok = ok && j == b.size(); }
		if (ok) return true;
	}
	return false;
}

//-----------------------------------------------------------------------------------------------------------------
static std::string qs(const std::string& s) { return "\"" + vh::show(s) + "\""; }
static std::string pathname(const RTree& t, int k) { return k < 0 ? std::string() : (t[k].parent < 0 ? t[k].tag : pathname(t, t[k].parent) + "/" + t[k].tag) ; }
static std::string idx_list(const std::vector<int>& v) { std::string s = "{"; for (size_t i = 0; i < v.size(); ++i) { if (i) s += ','; s += std::to_string(v[i]); } return s + "}"; }

// reference path evaluator: components separated by '/', a leading "//" starts at the root; an element matches when the
// components equal the tags on the way from the base element down to it.  Result in document order.
static std::vector<int> ref_find(const RTree& t, int base, std::string path, const std::string *an = nullptr, const std::string *av = nullptr)
{
	if (path.compare(0, 2, "//") == 0) { base = 0; path.erase(0, 2); }
	std::vector<std::string> comps; size_t p = 0;
	for (;;) { size_t q = path.find('/', p); comps.push_back(path.substr(p, q == std::string::npos ? q : q - p)); if (q == std::string::npos) break; p = q + 1; }
	std::vector<int> cur; if (t[base].tag == comps[0]) cur.push_back(base);
	for (size_t i = 1; i < comps.size(); ++i) {
		std::vector<int> nx;
		for (int k : cur) for (int c : t[k].kids) if (t[c].tag == comps[i]) nx.push_back(c);
		cur.swap(nx);
	}
	std::sort(cur.begin(), cur.end());
	if (an && av) {
		std::vector<int> f;
		for (int k : cur) for (auto& a : t[k].attrs) if (a.first == *an && a.second == *av) f.push_back(k);
		cur.swap(f);
	}
	return cur;
}

struct TreeCase { std::string coords, family; RTree t; int layout = 0, style0 = 0; std::vector<int> slot_style; int var_slot = -1, lookup_level = 2; };

struct Judge {
	vh::Run& R; const TreeCase& c; std::string doc;
	std::vector<const XmlElement *> pe; std::map<const XmlElement *, int> idx;
	bool structure_ok = true, attrs_ok = true; int nviol = 0; long long lookups = 0;
	Judge(vh::Run& r, const TreeCase& cc) : R(r), c(cc), pe(cc.t.size(), nullptr) {}

	std::vector<std::string> base_tags() const { return { "family:" + c.family, "layout:" + std::to_string(c.layout) }; }
	void viol(const std::string& clause, const std::string& mode, std::vector<std::string> tags, const std::string& obs, const std::string& exp)
	{
		auto b = base_tags(); tags.insert(tags.end(), b.begin(), b.end());
		++nviol; R.viol(clause, mode, tags, c.coords, obs, exp, "document: " + vh::show(doc));
		if (R.verbose()) fprintf(stderr, "VIOLATION clause=%s mode=%s\n   observed: %s\n   expected: %s\n", clause.c_str(), mode.c_str(), obs.c_str(), exp.c_str());
	}
	void value_mismatch(const char *clause, const std::string& what, const std::string& got, const std::string& want, bool attr)
	{
		std::vector<std::string> tags; tags.push_back(attr ? "slot:attr" : "slot:text");
		if (has_amp_reference(want)) tags.push_back("value_contains_escaped_ampersand_reference");
		const std::string mode = got == decode_once(want) && got != want ? "reference-decoded-twice" : "value-differs";
		viol(clause, mode, tags, what + " = " + qs(got), what + " = " + qs(want));
	}
	void compare(const XmlElement *e, int k)
	{
		const RNode& n = c.t[k]; pe[k] = e; idx[e] = k;
		auto where = [&] { return "element #" + std::to_string(k) + " (" + pathname(c.t, k) + ")"; };
		if (e->GetTag() != n.tag) { structure_ok = false; viol("same-tags", "tag-differs", {}, where() + " tag " + qs(e->GetTag()), where() + " tag " + qs(n.tag)); }
		// attributes: expected map (+ docpath on the root when a docpath was given)
		std::map<std::string, std::string> want(n.attrs.begin(), n.attrs.end());
		if (k == 0 && c.layout) want["docpath"] = "doc";
		std::map<std::string, std::string> got(e->abegin(), e->aend());
		for (auto& w : want) {
			std::string v; const bool has = e->GetAttr(w.first, v);
			if (!has) { attrs_ok = false; viol("same-attributes", "attribute-missing", {}, where() + " has no attribute " + w.first, where() + " " + w.first + " = " + qs(w.second)); }
			else if (v != w.second) { attrs_ok = false; value_mismatch("same-attributes", where() + " attribute " + w.first, v, w.second, true); }
			if (has && (!got.count(w.first) || got[w.first] != v || !e->HasAttr(w.first)))
				{ attrs_ok = false; viol("same-attributes", "attribute-accessors-disagree", {}, where() + " GetAttr/abegin/HasAttr disagree on " + w.first, "one attribute map"); }
		}
		for (auto& g : got) if (!want.count(g.first)) { attrs_ok = false; viol("same-attributes", "attribute-extra", {}, where() + " extra attribute " + g.first + " = " + qs(g.second), where() + " no such attribute"); }
		// text
		const std::string *val = e->GetVal();
		if (n.text.empty()) { if (val && !val->empty()) viol("same-text", "text-where-none", { "slot:text" }, where() + " text " + qs(*val), where() + " no text"); }
		else if (!val) viol("same-text", "text-missing", { "slot:text" }, where() + " no text", where() + " text " + qs(n.text));
		else if (*val != n.text) value_mismatch("same-text", where() + " text", *val, n.text, false);
		// children, in order
		std::vector<const XmlElement *> ch(e->begin(), e->end());
		if (ch.size() != n.kids.size() || (size_t)e->GetChildCnt() != n.kids.size()) {
			structure_ok = false;
			std::string g; for (auto *x : ch) g += x->GetTag() + " "; std::string w; for (int x : n.kids) w += c.t[x].tag + " ";
			viol("same-child-order", "child-count-differs", {}, where() + " children [" + g + "] GetChildCnt=" + std::to_string(e->GetChildCnt()), where() + " children [" + w + "]");
			return;
		}
		for (size_t i = 0; i < ch.size(); ++i) {
			if (ch[i]->GetParent() != e) { structure_ok = false; viol("same-child-order", "parent-link-wrong", {}, where() + " child " + std::to_string(i) + " has another parent", "parent link"); }
			compare(ch[i], n.kids[i]);
		}
	}
	std::vector<int> to_idx(const XmlElement::XmlSet& s, bool& foreign)
	{ std::vector<int> v; for (auto *x : s) { auto it = idx.find(x); if (it == idx.end()) foreign = true; else v.push_back(it->second); } return v; }

	std::string lwhat(int base, const std::string& path, const std::string *an, const std::string *av) const
	{ return "from element #" + std::to_string(base) + " (" + pathname(c.t, base) + ") find(" + qs(path) + (an ? ", " + *an + "=" + qs(*av) : "") + ")"; }
	void lookup(int base, const std::string& path, const std::string *an = nullptr, const std::string *av = nullptr)
	{
		++lookups;
		const std::vector<int> want = ref_find(c.t, base, path, an, av);
		XmlElement::XmlSet es; bool foreign = false;
		const int cnt = pe[base]->find(path, es, an, av);
		const std::vector<int> got = to_idx(es, foreign);	// XmlSet iterates in source order
		const XmlElement *f = pe[base]->find(path, an, av);
		const int gi = f ? (idx.count(f) ? idx[f] : -2) : -1, wi = want.empty() ? -1 : want[0];
		if (!foreign && got == want && cnt == (int)want.size() && gi == wi) return;
		const std::string what = lwhat(base, path, an, av);
		std::vector<std::string> tags; if (an) tags.push_back("lookup:attribute-filter");
		if (foreign || got != want) viol("path-lookup", "find-all-set-differs", tags, what + " all -> " + idx_list(got) + (foreign ? " + foreign elements" : ""), what + " all -> " + idx_list(want));
		else if (cnt != (int)want.size()) viol("path-lookup", "find-all-count-differs", tags, what + " returned " + std::to_string(cnt), what + " returns " + std::to_string(want.size()));
		if (gi != wi) viol("path-lookup", gi == -1 ? "find-first-misses" : wi == -1 ? "find-first-finds-nonmatching" : "find-first-not-first", tags,
			what + " first -> #" + std::to_string(gi), what + " first -> #" + std::to_string(wi));
	}
	// level 2: every real path below base + near misses + find_child + attribute filters; level 1: real paths and
	// attribute filters only
	void lookups_from(int base, int level)
	{
		std::set<std::string> paths;
		std::function<void(int, const std::string&)> rec = [&](int k, const std::string& p) { paths.insert(p); for (int ch : c.t[k].kids) rec(ch, p + "/" + c.t[ch].tag); };
		rec(base, c.t[base].tag);
		std::set<std::string> all(paths);
		static const char *others[] = { "a", "b", "a:b", "zz", "A", "" };
		if (level >= 2) {
			for (auto& p : paths) {
				const size_t ls = p.rfind('/'); const std::string head = ls == std::string::npos ? "" : p.substr(0, ls + 1);
				for (auto o : others) { all.insert(p + "/" + o); all.insert(head + o); }
				all.insert("/" + p); all.insert("//" + p); all.insert(" " + p); all.insert(p + " ");
				const size_t fs = p.find('/'); if (fs != std::string::npos) all.insert(p.substr(fs + 1));
				std::string up(p); for (auto& ch : up) ch = toupper(ch); all.insert(up);
			}
			if (base != 0) all.insert("//" + pathname(c.t, base));
		}
		for (auto& p : all) lookup(base, p);
		// find_child(tag): all children of base with that tag
		if (level >= 2)
			for (auto o : others) {
				++lookups;
				XmlElement::XmlSet es; bool foreign = false; pe[base]->find_child(o, es);
				std::vector<int> want; for (int ch : c.t[base].kids) if (c.t[ch].tag == o) want.push_back(ch);
				const std::vector<int> got = to_idx(es, foreign);
				const XmlElement *f = pe[base]->find_child(o);
				const int gi = f ? (idx.count(f) ? idx[f] : -2) : -1, wi = want.empty() ? -1 : want[0];
				if (!foreign && got == want && gi == wi) continue;
				const std::string what = "element #" + std::to_string(base) + " find_child(" + qs(o) + ")";
				if (foreign || got != want) viol("path-lookup", "find-child-set-differs", {}, what + " -> " + idx_list(got), what + " -> " + idx_list(want));
				if (gi != wi) viol("path-lookup", "find-child-first-differs", {}, what + " first -> #" + std::to_string(gi), what + " first -> #" + std::to_string(wi));
			}
		// attribute filter: only when the attribute maps are right (else one defect would be reported twice)
		if (attrs_ok && c.t.size() <= 40)
			for (auto& p : paths) {
				std::set<std::pair<std::string, std::string>> av;
				for (int k : ref_find(c.t, base, p)) for (auto& a : c.t[k].attrs) av.insert(a);
				av.insert({ "x", "nomatch" }); av.insert({ "z", "v" });
				for (auto& a : av) lookup(base, p, &a.first, &a.second);
			}
	}

	// returns outcome name
	const char *run()
	{
		Writer w(c.t, c.layout, c.style0); w.slot_style = c.slot_style; doc = w.doc();
		if (R.verbose()) {
			fprintf(stderr, "case %s\ndocument (%zu bytes):\n%s\nreference tree:\n", c.coords.c_str(), doc.size(), doc.c_str());
			for (size_t k = 0; k < c.t.size(); ++k) {
				std::string a; for (auto& x : c.t[k].attrs) a += " " + x.first + "=" + qs(x.second);
				fprintf(stderr, "  #%zu %*s%s%s text=%s\n", k, 2 * c.t[k].depth, "", c.t[k].tag.c_str(), a.c_str(), qs(c.t[k].text).c_str());
			}
		}
		std::istringstream is(doc); XmlElement *root = nullptr;
		try { root = XmlElement::Factory(is, c.layout ? "doc" : nullptr); }
		catch (std::exception& e) { viol("returns-same-tree", "well-formed-document-rejected", {}, std::string("exception: ") + e.what(), "a tree"); return "rejected"; }
		if (!root) { viol("returns-same-tree", "well-formed-document-rejected", {}, "nullptr", "a tree"); return "rejected"; }
		if (R.verbose()) { std::ostringstream os; os << *root; fprintf(stderr, "parsed tree (XmlElement printer):\n%s", os.str().c_str()); }
		compare(root, 0);
		if (structure_ok && c.lookup_level >= 2)
			for (size_t k = 0; k < c.t.size(); ++k) { if (c.t.size() > 40 && k % 9 != 0) continue; lookups_from((int)k, 2); }
		else if (structure_ok && c.lookup_level == 1) lookups_from(0, 1);
		delete root;
		R.counters["lookups"] += lookups; R.counters["references_written"] += w.nrefs;
		return nviol ? "tree-differs" : "same-tree";
	}
};

//-----------------------------------------------------------------------------------------------------------------
static long long ipow(long long b, int e) { long long r = 1; while (e-- > 0) r *= b; return r; }
static long long per_node_options(int ra) { long long s = 0; for (int c = 0; c < 5; ++c) s += ipow(ra, 1 + CFG[c][0]); return s; }

static bool build_A(TreeCase& c, int n, int s, long long t, int L)
{
	if (n >= (int)SHAPES.size() || s >= nshapes(n) || t >= ipow(3, n)) return false;
	c.family = "A"; c.t = tree_of(shape_of(n, s)); c.layout = L; c.style0 = (int)(t % NSTYLE);
	apply_defaults(c.t, (int)((s + t) % 5), false);
	long long q = t; for (auto& nd : c.t) { nd.tag = TAGS[q % 3]; q /= 3; }
	char b[96]; snprintf(b, sizeof b, "A,%d,%d,%lld,%d", n, s, t, L); c.coords = b; return true;
}
static bool build_B(TreeCase& c, int n, int s, int r, int j, int v, int w, int L)
{
	if ((n < 100 && n >= (int)SHAPES.size()) || n >= 100 + NBIG || s >= nshapes(n)) return false;
	c.family = "B"; c.t = tree_of(shape_of(n, s)); c.layout = L; c.style0 = r;
	apply_defaults(c.t, r, true);
	auto sl = slots_of(c.t); if (j >= (int)sl.size() || v >= (int)ALPHA.size() || w >= NSTYLE) return false;
	slot_val(c.t, sl[j]) = ALPHA[v]; c.slot_style.assign(sl.size(), -1); c.slot_style[j] = w; c.var_slot = j;
	char b[128]; snprintf(b, sizeof b, "B,%d,%d,%d,%d,%d,%d,%d", n, s, r, j, v, w, L); c.coords = b; return true;
}
static bool build_C(TreeCase& c, int n, int s, long long p, int ra)
{
	const long long P = per_node_options(ra);
	if (n > 3 || s >= nshapes(n) || p >= ipow(P, n)) return false;
	c.family = "C"; c.t = tree_of(shape_of(n, s)); c.layout = (int)((p / NSTYLE) % 2); c.style0 = (int)(p % NSTYLE);
	long long q = p;
	for (size_t k = 0; k < c.t.size(); ++k) {
		long long o = q % P; q /= P; int cf = 0;
		for (; cf < 5; ++cf) { const long long cnt = ipow(ra, 1 + CFG[cf][0]); if (o < cnt) break; o -= cnt; }
		RNode& nd = c.t[k]; nd.tag = TAGS[(k + p) % 3];
		nd.text = RALPHA[o % ra]; o /= ra;
		for (int a = 0; a < CFG[cf][0]; ++a) { nd.attrs.push_back({ ANAME[CFG[cf][1 + a]], RALPHA[o % ra] }); o /= ra; }
	}
	char b[96]; snprintf(b, sizeof b, "C,%d,%d,%lld,%d", n, s, p, ra); c.coords = b; return true;
}

static std::unordered_set<uint64_t> seen_docs;
static void run_tree_case(vh::Run& R, const TreeCase& c)
{
	R.begin_case(c.coords, "family:" + c.family);
	Judge j(R, c); const char *o = j.run(); R.outcome(o);
	// non-trivial: at least two elements, or at least one character reference in the document; distinct by document
	bool refs = j.doc.find('&') != std::string::npos;
	if ((c.t.size() >= 2 || refs) && seen_docs.insert(vh::fnv(j.doc)).second) ++R.nontrivial;
}

static int trees_main(vh::Run& R)
{
	const int maxn = (int)R.args.num("maxn", 5), big = (int)R.args.num("big", 0), ra12 = (int)R.args.num("ralpha", 3), ra3 = (int)R.args.num("ralpha3", ra12);
	gen_shapes(std::max(maxn, 3));
	XmlElement::XmlFlags fl; fl.set(XmlElement::noextensions); XmlElement::set_flags(fl);
	if (R.single) {
		TreeCase c; char fam = 0; long long v[8] = { 0 }; int k = 0;
		{ std::stringstream ss(R.single_case); std::string tok; std::getline(ss, tok, ','); fam = tok.empty() ? 0 : tok[0]; while (k < 8 && std::getline(ss, tok, ',')) v[k++] = atoll(tok.c_str()); }
		gen_shapes(std::max<int>(7, v[0] < 100 ? (int)v[0] : 7));
		bool ok = fam == 'A' ? build_A(c, (int)v[0], (int)v[1], v[2], (int)v[3])
			: fam == 'B' ? build_B(c, (int)v[0], (int)v[1], (int)v[2], (int)v[3], (int)v[4], (int)v[5], (int)v[6])
			: fam == 'C' ? build_C(c, (int)v[0], (int)v[1], v[2], (int)v[3]) : false;
		if (!ok) { fprintf(stderr, "bad case string %s\n", R.single_case.c_str()); return 2; }
		run_tree_case(R, c); R.finish(); return R.violations ? 1 : 0;
	}
	unsigned long long id = 0; bool done = true;
	const std::string fams = R.args.get("fam", "ABC");	// development aid: restrict to some families
	// family A
	for (int n = 1; n <= maxn && done && fams.find('A') != std::string::npos; ++n)
		for (int s = 0; s < nshapes(n) && done; ++s) {
			const long long nt = ipow(3, n);
			for (long long t = 0; t < nt; ++t, ++id) {
				if (!R.mine(id)) continue;
				if (R.out_of_time()) { done = false; break; }
				for (int L = 0; L < 2; ++L) { TreeCase c; build_A(c, n, s, t, L); run_tree_case(R, c);
					if (n == maxn && s == nshapes(n) / 2 && t == nt / 2 && L == 1) R.sample(c.coords, "family A: shape " + std::to_string(s) + " of " + std::to_string(n) + " nodes, tags #" + std::to_string(t) + ", layout 1"); }
			}
		}
	// family B
	std::vector<int> ns; for (int n = 1; n <= maxn; ++n) ns.push_back(n); if (big) for (int b = 0; b < NBIG; ++b) ns.push_back(100 + b);
	for (int n : ns)
		for (int s = 0; s < nshapes(n) && done && fams.find('B') != std::string::npos; ++s)
			for (int r = 0; r < 5 && done; ++r) {
				RTree t0 = tree_of(shape_of(n, s)); apply_defaults(t0, r, true); const int nsl = (int)slots_of(t0).size();
				for (int j = 0; j < nsl; ++j, ++id) {
					if (!R.mine(id)) continue;
					if (R.out_of_time()) { done = false; break; }
					for (int v = 0; v < (int)ALPHA.size(); ++v) for (int w = 0; w < NSTYLE; ++w) for (int L = 0; L < 2; ++L) {
						if (n >= 100 && (w > 2 || (L == 1 && v % 2))) continue;	// big shapes: 3 styles, layout 1 for every other value
						TreeCase c; build_B(c, n, s, r, j, v, w, L); c.lookup_level = (v == 0 && w == 0) ? 2 : 1; run_tree_case(R, c);
						if (n == maxn && s == 1 && r == 2 && j == 1 && v == 8 && w == 1 && L == 0) R.sample(c.coords, "family B: slot 1 takes the literal text &lt; written with a decimal reference for the ampersand");
					}
				}
			}
	// family C
	const long long chunk = 64;
	for (int n = 1; n <= 3 && done && fams.find('C') != std::string::npos; ++n)
		for (int s = 0; s < nshapes(n) && done; ++s) {
			const int ra = n == 3 ? ra3 : ra12;
			const long long np = ipow(per_node_options(ra), n);
			for (long long p0 = 0; p0 < np; p0 += chunk, ++id) {
				if (!R.mine(id)) continue;
				if (R.out_of_time()) { done = false; break; }
				for (long long p = p0; p < std::min(np, p0 + chunk); ++p) { TreeCase c; build_C(c, n, s, p, ra); c.lookup_level = 1; run_tree_case(R, c);
					if (n == 3 && s == 1 && p == np / 3) R.sample(c.coords, "family C: 3 nodes, combination #" + std::to_string(p)); }
			}
		}
	R.finish(done);
	return 0;
}

//-----------------------------------------------------------------------------------------------------------------
// part b
static const char BALPHA[] = { '<', '>', '/', 'a', '=', '"', ' ', '!', '-', '&' };
static const unsigned char SUBST_FULL[] = { '<', '>', '/', '=', '"', '\'', '&', ';', '#', '!', '-', '?', '[', ']', ' ', '\n', 'a', 'x', '0', ':', 0x00, 0xff };
static const unsigned char SUBST_SMALL[] = { '<', '>', '/', '"', '&', '!', ' ', 0x00 };

static std::string nest(int levels)
{ std::string s; for (int i = 0; i < levels; ++i) s += i % 2 ? "<b>" : "<a>"; s += "t"; for (int i = levels - 1; i >= 0; --i) s += i % 2 ? "</b>" : "</a>"; return s; }
static std::vector<std::string> seeds()
{
	std::vector<std::string> v;
	v.push_back("<?xml version=\"1.0\" encoding='UTF-8'?>\n<!-- c - c -->\n<r x=\"1&lt;&#62;&#x26;&quot;\" y='&apos;&zz;&#0;&#256;&#x100;&#99999999999;'>t&amp;amp;"
		"<![CDATA[ <raw> & ]] ]]><e/><e  z = \"2\" /><!-- k --><n:s a=\"\">u<d>v</d>w</n:s><xi:include href=\"/nonexistent/c32.xml\"/></r>\n");
	v.push_back(nest(129));		// deepest element at depth 128 = MaxDepth: accepted
	v.push_back(nest(130));		// one more: "maximum depth exceeded"
	// 4 KB document: siblings with attributes, references and text
	std::string big = "<?xml version=\"1.0\"?>\n<cfg>\n";
	for (int i = 0; big.size() < 4096 - 60; ++i) { char b[96]; snprintf(b, sizeof b, " <s%d n=\"v%d\" q='&lt;%d&#62;'>t&amp;%d<k/></s%d>\n", i % 7, i, i, i, i % 7); big += b; }
	big += "</cfg>\n"; v.push_back(big);
	return v;
}
static void walk(const XmlElement *e, long long& n, long long& bytes)
{
	++n; bytes += e->GetTag().size(); if (e->GetVal()) bytes += e->GetVal()->size(); if (e->GetDecl()) bytes += e->GetDecl()->size();
	for (auto a = e->abegin(); a != e->aend(); ++a) bytes += a->first.size() + a->second.size();
	std::string v; e->GetAttr("x", v); e->find(e->GetTag()); e->find("//" + e->GetTag());
	for (auto c = e->begin(); c != e->end(); ++c) walk(*c, n, bytes);
}
// The result of a parse must be a function of the input bytes.  For short inputs and for every truncated seed the
// case is repeated with the dead stack below the caller pre-filled with different byte values; a result that changes
// with the fill depends on memory the parser never wrote (an uninitialised read that ASan/UBSan cannot see).
static void __attribute__((noinline)) fill_stack(unsigned char b)
{ char buf[1 << 16]; memset(buf, b, sizeof buf); asm volatile("" : : "r"(buf) : "memory"); }
static std::string __attribute__((noinline)) parse_canon(const std::string& in, const char *docpath)
{
	std::istringstream is(in); std::ostringstream os;
	try {
		XmlElement *e = XmlElement::Factory(is, docpath);
		if (!e) return "nullptr";
		os << "tree lines=" << e->GetLineCnt() << " errors=" << e->GetErrorCnt() << " maxdepth=" << e->GetMaxDepth() << "\n" << *e; delete e;
	}
	catch (std::exception& x) { os << "exception: " << x.what(); }
	catch (...) { os << "foreign exception"; }
	return os.str();
}
static void run_bytes_case(vh::Run& R, const std::string& in, const std::string& replay, bool stackdiff)
{
	R.begin_case(replay);
	if (in.find('<') != std::string::npos) ++R.nontrivial;
	std::istringstream is(in); XmlElement *e = nullptr; const char *o;
	try {
		e = XmlElement::Factory(is, (in.size() & 1) ? "doc" : nullptr);
		if (!e) o = "nullptr";
		else { long long n = 0, b = 0; walk(e, n, b); o = e->GetTag().empty() ? "tree-without-root-tag" : n > 1 ? "tree-with-children" : "tree-single-element";
			if (R.verbose()) { std::ostringstream os; os << *e; fprintf(stderr, "returned a tree of %lld element(s):\n%s", n, os.str().c_str()); }
			delete e; }
	}
	catch (XMLError& x) { o = "XMLError"; if (R.verbose()) fprintf(stderr, "threw XMLError: %s\n", x.what()); }
	catch (std::exception& x) { o = "std-exception"; if (R.verbose()) fprintf(stderr, "threw std::exception: %s\n", x.what()); }
	catch (...) { o = "foreign-exception"; R.viol("tree-or-parse-error", "throws-non-exception-object", {}, replay, "threw an object not derived from std::exception", "tree, nullptr or parse error"); }
	R.outcome(o);
	if (stackdiff) {
		static const unsigned char fills[] = { 'a', '\n', '<', '"' };
		std::string first;
		for (size_t i = 0; i < sizeof fills; ++i) {
			fill_stack(fills[i]);
			const std::string r = parse_canon(in, nullptr);
			if (R.verbose()) fprintf(stderr, "dead stack filled with 0x%02x: %s\n", fills[i], vh::show(r).c_str());
			if (i == 0) first = r;
			else if (r != first) {
				std::vector<std::string> tags; if (in.empty()) tags.push_back("input_empty");
				R.viol("memory-safe-and-total", "result-depends-on-uninitialised-memory", tags, replay, "with the dead stack filled with 0x" + vh::hex(std::string(1, (char)fills[i])) + ": " + r,
					"the same result as with the dead stack filled with 0x61: " + first, "input: " + vh::show(in));
				R.outcome("result-depends-on-stack-garbage"); break;
			}
		}
		R.counters["stack_fill_differentials"] += 1;
	}
}
static int bytes_main(vh::Run& R)
{
	const int maxlen = (int)R.args.num("maxlen", 6), nseeds = (int)R.args.num("seeds", 3), full = (int)R.args.num("subst", 0);
	XmlElement::XmlFlags fl; fl.set(XmlElement::noextensions); XmlElement::set_flags(fl);
	const std::vector<std::string> sd = seeds();
	const unsigned char *sub = full ? SUBST_FULL : SUBST_SMALL; const int nsub = full ? (int)sizeof SUBST_FULL : (int)sizeof SUBST_SMALL;
	if (R.single) {
		std::stringstream ss(R.single_case); std::string kind, a, b, c; std::getline(ss, kind, ','); std::getline(ss, a, ','); std::getline(ss, b, ','); std::getline(ss, c, ',');
		std::string in;
		if (kind == "s") in = vh::unhex(a);
		else if (kind == "p" && atoi(a.c_str()) < (int)sd.size()) in = sd[atoi(a.c_str())].substr(0, atoi(b.c_str()));
		else if (kind == "m" && atoi(a.c_str()) < (int)sd.size()) { in = sd[atoi(a.c_str())]; in[atoi(b.c_str()) % in.size()] = (char)SUBST_FULL[atoi(c.c_str()) % sizeof SUBST_FULL]; }
		else { fprintf(stderr, "bad case string\n"); return 2; }
		fprintf(stderr, "input (%zu bytes): %s\n", in.size(), vh::show(in).c_str());
		run_bytes_case(R, in, R.single_case, kind == "p" || (kind == "s" && in.size() <= 4)); R.finish(); return R.violations ? 1 : 0;
	}
	unsigned long long id = 0; bool done = true;
	// all strings, shortest first, lexicographic in BALPHA order; one id per string
	// (then, when ltlen is given, the strings of length ltlen whose first byte is '<')
	const int ltlen = (int)R.args.num("ltlen", 0);
	for (int len = 0; len <= std::max(maxlen, ltlen) && done; ++len) {
		if (len > maxlen && len != ltlen) continue;
		const long long cnt = len > maxlen ? ipow(10, len - 1) : ipow(10, len); std::string s(len, '<');
		for (long long i = 0; i < cnt; ++i, ++id) {
			if (!R.mine(id)) continue;
			if ((i & 0xfff) == 0 && R.out_of_time()) { done = false; break; }
			long long q = i; for (int k = len - 1; k >= 0; --k) { s[k] = BALPHA[q % 10]; q /= 10; }
			static const char HX[] = "0123456789abcdef"; std::string rp("s,"); rp.reserve(2 + 2 * len);
			for (unsigned char ch : s) { rp += HX[ch >> 4]; rp += HX[ch & 15]; }
			run_bytes_case(R, s, rp, len <= 4);
			if (len == maxlen && i == 1234) R.sample("s," + vh::hex(s), "string " + vh::show(s));
		}
	}
	for (int k = 0; k < nseeds && k < (int)sd.size() && done; ++k) {
		const std::string& d = sd[k];
		for (size_t l = 0; l <= d.size(); ++l, ++id) {
			if (!R.mine(id)) continue;
			if (R.out_of_time()) { done = false; break; }
			run_bytes_case(R, d.substr(0, l), "p," + std::to_string(k) + "," + std::to_string(l), true);
		}
		for (size_t pos = 0; pos < d.size() && done; ++pos)
			for (int b = 0; b < nsub; ++b, ++id) {
				if (!R.mine(id)) continue;
				if (R.out_of_time()) { done = false; break; }
				int fi = 0; while (SUBST_FULL[fi] != sub[b]) ++fi;
				if ((unsigned char)d[pos] == sub[b]) { continue; }
				std::string in(d); in[pos] = (char)sub[b];
				run_bytes_case(R, in, "m," + std::to_string(k) + "," + std::to_string(pos) + "," + std::to_string(fi), false);
				if (k == 0 && pos == 60 && b == 0) R.sample("m,0,60," + std::to_string(fi), "seed 0 with byte 60 replaced by '<'");
			}
	}
	R.finish(done);
	return 0;
}

int main(int argc, char **argv)
{
	vh::Run R(argc, argv);
	const std::string part = R.args.get("part", "trees");
	return part == "bytes" ? bytes_main(R) : trees_main(R);
}
