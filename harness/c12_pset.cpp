// C12 part b — presorted_set behaves like a sorted set of unique keys under any sequence of inserts, lookups and clears.
// Explicit-state breadth-first search over operation histories on the real container (DESIGN §2.2): a state is the history
// that reaches it, replayed on a fresh object; after every step the complete observation battery is compared with a
// std::map reference.  Two instantiations of the real template code:
//   gen  presorted_set<int, KV, KVLess>                         the generic template of f8types.hpp with a plain key/value struct
//   ft   presorted_set<unsigned short, FieldTrait, Compare>     the specialisation of traits.hpp (FieldTraits' Presence) without hash array
// Start states: default constructed / sized constructor / built from a sorted array of 0, 1, 3 elements; reserve 0 % and 30 %.
// Events: insert(k, payload A|B) k = 1..5, clear, insert-range {2,4}, insert-range {1,3,5}, insert-range {}.
// Observations after every step (not events: they are const or must not change the set): size, empty, iteration order,
// find(key) / find(value) const and non-const, find-with-answer (hit flag and insertion position), at(i) for i <= size+1.
// Every history is also run a second time with the battery only at the end (lookups in between must not matter).
// A sanitizer abort kills the process; the driver restarts it after that case; the aborted cases are remembered in a file
// next to the `cur` file so that the restarted search skips exactly them (as violating branches) and rebuilds the rest.
// args: depth=N    replay: <type>/<config>;e1,e2,...
#include <fix8/f8includes.hpp>
#include "vh.hpp"
#include <unordered_set>
#include <fstream>
using namespace FIX8;

static vh::Run *RR;

struct KV { int k, v; KV() : k(0), v(0) {} KV(int kk) : k(kk), v(-1) {} KV(int kk, int vv) : k(kk), v(vv) {} };
struct KVLess { bool operator()(const KV& a, const KV& b) const { return a.k < b.k; } };
using GenSet = presorted_set<int, KV, KVLess>;
using FtSet = presorted_set<unsigned short, FieldTrait, FieldTrait::Compare>;

template<class S> struct Ops;
template<> struct Ops<GenSet> {
	using T = KV; using K = int; static const char *name() { return "gen"; }
	static T elem(int k, int p) { return KV(k, p); } static int key(const T& e) { return e.k; } static int pay(const T& e) { return e.v; }
};
template<> struct Ops<FtSet> {
	using T = FieldTrait; using K = unsigned short; static const char *name() { return "ft"; }
	static T elem(int k, int p) { return FieldTrait((unsigned short)k, FieldTrait::ft_int, (unsigned short)p); }
	static int key(const T& e) { return e._fnum; } static int pay(const T& e) { return e._pos; }
};

enum { EV_INS_A = 0, EV_INS_B = 5, EV_CLEAR = 10, EV_RANGE24 = 11, EV_RANGE135 = 12, EV_RANGE0 = 13, EV_N = 14 };
enum { PAY_A = 1, PAY_B = 2, PAY_C = 3, PAY_D = 4 };
static std::string evname(int e)
{
	if (e < EV_INS_B) return "insert(" + std::to_string(e + 1) + ",A)";
	if (e < EV_CLEAR) return "insert(" + std::to_string(e - EV_INS_B + 1) + ",B)";
	return e == EV_CLEAR ? "clear" : e == EV_RANGE24 ? "insert-range{2,4}" : e == EV_RANGE135 ? "insert-range{1,3,5}" : "insert-range{}";
}

struct Cfg { const char *name; int ctor; int n; int reserve; };	// ctor 0 = S() default, 1 = S(sz, reserve), 2 = S(array, n, reserve)
static const Cfg CFGS[] = {
	{ "default", 0, 0, 30 }, { "sized0-r0", 1, 0, 0 }, { "sized0-r30", 1, 0, 30 }, { "sized2-r30", 1, 2, 30 },
	{ "arr0-r0", 2, 0, 0 }, { "arr0-r30", 2, 0, 30 }, { "arr1-r0", 2, 1, 0 }, { "arr1-r30", 2, 1, 30 }, { "arr3-r0", 2, 3, 0 }, { "arr3-r30", 2, 3, 30 },
};
static const int NCFG = sizeof CFGS / sizeof CFGS[0];
static const int ARR1[] = { 3 }, ARR3[] = { 1, 3, 5 };

struct Step { bool violated = false, soft = false; std::string key, outcome; };

template<class S>
struct World {
	using O = Ops<S>; using T = typename O::T; using K = typename O::K;
	const Cfg& cfg; std::unique_ptr<S> s; std::map<int, int> ref; std::vector<T> src;
	std::string fail;	// clause|mode|detail of the first failed check
	std::string soft;	// a failed check that leaves the set comparable with the reference: reported, the branch is still extended
	std::vector<std::string> tags;
	bool verbose = false;

	explicit World(const Cfg& c) : cfg(c)
	{
		if (c.ctor == 0) s.reset(new S());
		else if (c.ctor == 1) s.reset(new S((size_t)c.n, (size_t)c.reserve));
		else {
			const int *a = c.n == 1 ? ARR1 : ARR3;
			for (int i = 0; i < c.n; ++i) { src.push_back(O::elem(a[i], PAY_D)); ref[a[i]] = PAY_D; }
			static T dummy = O::elem(0, 0);
			s.reset(new S(c.n ? src.data() : &dummy, (size_t)c.n, (size_t)c.reserve));
		}
	}
	bool bad(const std::string& clause, const std::string& mode, const std::string& detail) { if (fail.empty()) fail = clause + "|" + mode + "|" + detail; return false; }
	std::string refstr() const { std::string o = "{"; for (auto& kv : ref) o += std::to_string(kv.first) + ":" + std::to_string(kv.second) + " "; return o + "}"; }
	std::string setstr() const { if (!s->begin() && s->size()) return "<size() " + std::to_string(s->size()) + " but no array>"; std::string o = "{"; size_t n = 0; for (auto i = s->begin(); i != s->end() && n < 12; ++i, ++n) o += std::to_string(O::key(*i)) + ":" + std::to_string(O::pay(*i)) + " "; return o + "}"; }
	bool inside(const T *p) const { return p >= s->begin() && p < s->end(); }

	// the complete observation battery; false on the first disagreement with the reference
	bool observe(const char *when)
	{
		const S& cs = *s;
		if (s->size() != ref.size()) return bad("size-is-number-of-keys", "size-wrong", std::string(when) + ": size()=" + std::to_string(s->size()) + " reference " + std::to_string(ref.size()));
		if (s->empty() != ref.empty()) return bad("size-is-number-of-keys", "empty-wrong", std::string(when) + ": empty()=" + std::to_string(s->empty()));
		if (s->rsize() < s->size() && s->begin()) return bad("size-is-number-of-keys", "capacity-below-size", std::string(when) + ": rsize()=" + std::to_string(s->rsize()) + " size()=" + std::to_string(s->size()));
		if (ref.empty()) { if (s->begin() != s->end()) return bad("iteration-sorted-unique", "empty-set-iterates", when); }
		{ auto it = ref.begin(); size_t i = 0;
		  for (const T *p = cs.begin(); p != cs.end(); ++p, ++it, ++i)
			if (O::key(*p) != it->first || O::pay(*p) != it->second)
				return bad("iteration-sorted-unique", O::key(*p) != it->first ? "contents-differ-keys" : "contents-differ-payload", std::string(when) + ": set " + setstr() + " reference " + refstr()); }
		for (int k = 0; k <= 6; ++k) {
			auto r = ref.find(k); const bool in = r != ref.end();
			const T probe = O::elem(k, 9);
			const T *f[4] = { cs.find((K)k), cs.find(probe), s->find((K)k), s->find(probe) };
			static const char *fn[4] = { "find(key) const", "find(value) const", "find(key)", "find(value)" };
			for (int j = 0; j < 4; ++j) {
				if (!in) { if (f[j] != cs.end()) return bad("find-hit-iff-present", "find-absent-key-not-end", std::string(when) + ": " + fn[j] + " for " + std::to_string(k) + " in " + refstr()); continue; }
				if (f[j] == cs.end() || !inside(f[j])) return bad("find-hit-iff-present", "find-present-key-missed", std::string(when) + ": " + fn[j] + " for " + std::to_string(k) + " in " + refstr());
				if (O::key(*f[j]) != k || O::pay(*f[j]) != r->second) return bad("find-returns-that-entry", "find-returns-other-entry", std::string(when) + ": " + fn[j] + " for " + std::to_string(k) + " gave " + std::to_string(O::key(*f[j])) + ":" + std::to_string(O::pay(*f[j])));
			}
			size_t lb = 0; for (auto& kv : ref) if (kv.first < k) ++lb;
			for (int j = 0; j < 2; ++j) {
				bool ans = !in; const T *p = j ? s->find(probe, ans) : s->find((K)k, ans);
				const char *nm = j ? "find(value, answer)" : "find(key, answer)";
				if (ans != in) return bad("find-hit-iff-present", ans ? "answer-true-for-absent-key" : "answer-false-for-present-key", std::string(when) + ": " + nm + " for " + std::to_string(k) + " in " + refstr());
				if (p != cs.begin() + lb) return bad("find-returns-that-entry", in ? "answer-position-not-the-element" : "answer-position-not-insertion-point", std::string(when) + ": " + nm + " for " + std::to_string(k) + " gave offset " + std::to_string(p - cs.begin()) + " expected " + std::to_string(lb));
			}
		}
		for (size_t i = 0; i <= ref.size() + 1; ++i) {
			const T *p = cs.at(i);
			if (i < ref.size()) { if (p != cs.begin() + i) return bad("at-indexes-in-order", "at-wrong-element", std::string(when) + ": at(" + std::to_string(i) + ")"); }
			else if (p != cs.end()) return bad("at-indexes-in-order", "at-past-size-not-end", std::string(when) + ": at(" + std::to_string(i) + ") with size " + std::to_string(ref.size()));
		}
		return true;
	}

	// apply one event to the real set and to the reference, judge what the event itself returned
	bool apply(int ev, std::string& outcome)
	{
		tags.clear(); soft.clear();	// scope tags / soft failures describe the event being judged (the last one)
		if (ev < EV_CLEAR) {
			const int k = (ev % 5) + 1, p = ev < EV_INS_B ? PAY_A : PAY_B;
			const T e = O::elem(k, p);
			const bool want = !ref.count(k); if (want) ref[k] = p;
			const size_t cap0 = s->rsize(), sz0 = s->size(); const bool had_arr = s->begin() != nullptr;
			auto r = s->insert(&e);
			outcome = r.second ? (sz0 && sz0 >= cap0 ? "inserted-grew" : !sz0 && had_arr ? "inserted-into-cleared" : "inserted") : "refused-duplicate";
			if (r.second != want) return bad("insert-unique", r.second ? "duplicate-accepted" : "new-key-refused", evname(ev) + " into " + refstr());
			if (want) {
				if (!inside(r.first)) { if (sz0 && sz0 >= cap0) tags.push_back("insert_grew_array"); soft = std::string("insert-returns-position|returned-position-outside-set|") + evname(ev) + ": returned iterator is not inside [begin, end)" + (sz0 && sz0 >= cap0 ? " (array was reallocated)" : ""); }
				else if (O::key(*r.first) != k || O::pay(*r.first) != p) return bad("insert-returns-position", "returned-position-other-element", evname(ev) + ": returned iterator points at " + std::to_string(O::key(*r.first)));
			} else if (r.first != s->end()) return bad("insert-returns-position", "refused-insert-not-end", evname(ev));
			return true;
		}
		if (ev == EV_CLEAR) { s->clear(); ref.clear(); outcome = "cleared"; return true; }
		std::vector<T> rg; int added = 0; bool dup_before_new = false, seen_dup = false;
		if (ev == EV_RANGE24) { rg.push_back(O::elem(2, PAY_C)); rg.push_back(O::elem(4, PAY_C)); }
		else if (ev == EV_RANGE135) { rg.push_back(O::elem(1, PAY_C)); rg.push_back(O::elem(3, PAY_C)); rg.push_back(O::elem(5, PAY_C)); }
		for (auto& e : rg) { if (ref.count(O::key(e))) seen_dup = true; else { if (seen_dup) dup_before_new = true; ref[O::key(e)] = PAY_C; ++added; } }
		static T none = O::elem(0, 0);
		const T *b = rg.empty() ? &none : rg.data();
		s->insert(b, b + rg.size());
		outcome = "range-added-" + std::to_string(added) + (dup_before_new ? "-after-duplicate" : "");
		if (dup_before_new) tags.push_back("range_has_duplicate_before_new_key");
		return true;
	}
	std::string canon() const
	{
		std::string k = std::string(O::name()) + "/" + cfg.name + "|";
		for (auto& kv : ref) k += std::to_string(kv.first) + ":" + std::to_string(kv.second) + ",";
		return k + "|cap" + std::to_string(s->rsize()) + "|arr" + std::to_string(s->begin() != nullptr);
	}
};

// replay h on a fresh object; judge the last event (and everything observable after it)
template<class S>
static Step run_hist(const Cfg& cfg, const std::vector<int>& h, const std::string& id, bool verbose)
{
	Step st; std::string fail, softfail; std::vector<std::string> tags { std::string("type:") + Ops<S>::name(), std::string("ctor:") + cfg.name };
	for (int mode = 0; mode < 2 && fail.empty(); ++mode) {	// 0: battery after every step; 1: battery only at the end
		World<S> w(cfg); w.verbose = verbose;
		if (verbose) fprintf(stderr, " run %d (%s): start %s capacity %zu\n", mode, mode ? "battery at the end only" : "battery after every step", w.setstr().c_str(), w.s->rsize());
		bool ok = true;
		if (w.s->size() != w.ref.size()) { ok = w.bad("constructed-with-given-contents", "size-after-construction-wrong", "size()=" + std::to_string(w.s->size()) + " after construction, expected " + std::to_string(w.ref.size())); }
		else if (mode == 0 || h.empty()) ok = w.observe("after construction");
		for (size_t i = 0; ok && i < h.size(); ++i) {
			std::string oc; ok = w.apply(h[i], oc);
			if (i + 1 == h.size()) st.outcome = oc;
			if (ok && (mode == 0 || i + 1 == h.size())) ok = w.observe(("after " + evname(h[i])).c_str());
			if (verbose) fprintf(stderr, "   %-22s -> %-26s set %s capacity %zu   reference %s%s\n", evname(h[i]).c_str(), oc.c_str(), ok || w.fail.find("size") == std::string::npos ? w.setstr().c_str() : "?", w.s->rsize(), w.refstr().c_str(), ok ? "" : "   <-- DIFFERS");
			if (!ok && i + 1 < h.size()) { fprintf(stderr, "c12_pset: prefix of %s violates at step %zu: %s\n", id.c_str(), i, w.fail.c_str()); }
		}
		if (!ok) { fail = w.fail; for (auto& t : w.tags) tags.push_back(t); if (mode == 1) tags.push_back("only_without_intermediate_lookups"); }
		else if (mode == 0 && !w.soft.empty()) { softfail = w.soft; for (auto& t : w.tags) tags.push_back(t); }
		if (mode == 0) st.key = w.canon();
	}
	if (fail.empty() && !softfail.empty()) { fail = softfail; st.soft = true; }
	if (!fail.empty()) {
		st.violated = !st.soft;
		size_t a = fail.find('|'), b = fail.find('|', a + 1);
		std::string desc; for (int e : h) desc += evname(e) + " ";
		RR->viol(fail.substr(0, a), fail.substr(a + 1, b - a - 1), tags, id, fail.substr(b + 1), "behaviour of std::map<int,int> (sorted, unique keys)", std::string(Ops<S>::name()) + "/" + cfg.name + ": " + desc);
		if (verbose) fprintf(stderr, " VIOLATED %s\n", fail.c_str());
	}
	return st;
}

static std::string hist_str(const std::vector<int>& h) { std::string s; for (size_t i = 0; i < h.size(); ++i) { if (i) s += ','; s += std::to_string(h[i]); } return s; }

template<class S>
static void explore(vh::Run& R, const Cfg& cfg, int depth, long long& id, const std::set<long long>& crashed, bool& complete)
{
	const std::string pre = std::string(Ops<S>::name()) + "/" + cfg.name + ";";
	std::unordered_set<uint64_t> seen; std::vector<uint64_t> fresh;
	std::vector<std::vector<int>> frontier(1), next;
	++id;
	if (crashed.count(id)) { R.outcome("construction:crashed"); return; }
	R.begin_case(pre, "", id);
	Step r0 = run_hist<S>(cfg, {}, pre, false);
	R.outcome(std::string("construct:") + (r0.violated ? "VIOLATED" : "ok"));
	if (r0.violated) return;
	{ Step r1 = run_hist<S>(cfg, {}, pre, false); if (r1.key != r0.key) { fprintf(stderr, "NONDETERMINISM: root state differs\n"); exit(2); } }
	seen.insert(vh::fnv(r0.key)); fresh.push_back(vh::fnv(r0.key));
	int maxd = 0;
	for (int level = 0; level < depth && !frontier.empty(); ++level) {
		next.clear();
		for (auto& h : frontier) {
			if (R.out_of_time()) { complete = false; break; }
			for (int ev = 0; ev < EV_N; ++ev) {
				std::vector<int> h2(h); h2.push_back(ev);
				++id;
				if (crashed.count(id)) { R.outcome(evname(ev) + ":crashed"); continue; }	// reported by the driver when it happened; a violating branch is not extended
				const std::string hs = pre + hist_str(h2);
				R.begin_case(hs, std::string("type:") + Ops<S>::name() + ",ctor:" + cfg.name, id);
				Step r = run_hist<S>(cfg, h2, hs, false);
				++R.transitions; R.outcome(evname(ev).substr(0, evname(ev).find('(')) + ":" + r.outcome + (r.violated ? ":VIOLATED" : r.soft ? ":VIOLATED(return value only, branch extended)" : ""));
				maxd = std::max(maxd, (int)h2.size());
				if (r.violated) continue;
				if (seen.insert(vh::fnv(r.key)).second) {
					fresh.push_back(vh::fnv(r.key)); ++R.nontrivial;
					if ((int)h2.size() < depth) next.push_back(h2);
					if ((int)h2.size() == 3 && R.samples_emitted < 2) { std::string d; for (int e : h2) d += evname(e) + " "; R.sample(hs, d + "=> " + r.key); }
				}
			}
		}
		if (!complete) break;
		frontier.swap(next);
	}
	R.states(fresh);
	++R.counters["start-states-explored-to-depth-" + std::to_string(maxd)];	// counters are summed over shards: one count per (type, start state)
}

int main(int argc, char **argv)
{
	vh::Run R(argc, argv); RR = &R;
	const int depth = (int)R.args.num("depth", 6);
	if (R.single) {
		const std::string c = R.single_case; size_t sl = c.find('/'), sc = c.find(';');
		const std::string ty = c.substr(0, sl), cn = c.substr(sl + 1, sc - sl - 1);
		std::vector<int> h; { std::istringstream is(c.substr(sc + 1)); std::string x; while (std::getline(is, x, ',')) if (!x.empty()) h.push_back(atoi(x.c_str())); }
		for (int i = 0; i < NCFG; ++i) if (cn == CFGS[i].name) {
			fprintf(stderr, "presorted_set %s, start state %s (%s, n=%d, reserve=%d)\n", ty == "gen" ? "<int, KV, KVLess> (generic template)" : "<unsigned short, FieldTrait, Compare> (specialisation, no hash array)",
				CFGS[i].name, CFGS[i].ctor == 0 ? "default constructor" : CFGS[i].ctor == 1 ? "sized constructor" : "from sorted array", CFGS[i].n, CFGS[i].reserve);
			R.begin_case(c);
			if (ty == "gen") run_hist<GenSet>(CFGS[i], h, c, true); else run_hist<FtSet>(CFGS[i], h, c, true);
		}
		R.finish(); return R.violations ? 1 : 0;
	}
	// cases that killed an earlier incarnation of this shard
	std::set<long long> crashed;
	const std::string cf = R.args.get("cur", "c12pset") + ".crashed";
	if (R.from > 0) { std::ofstream o(cf, std::ios::app); o << (R.from - 1) << "\n"; }
	{ std::ifstream in(cf); long long x; while (in >> x) crashed.insert(x); }
	R.from = 0;	// everything is re-run (cheap) so that the frontier is rebuilt; only the recorded cases are skipped
	long long id = 0; bool complete = true; int unit = 0;
	for (int ty = 0; ty < 2; ++ty) for (int i = 0; i < NCFG; ++i, ++unit) {
		if (unit % R.shard_n != R.shard_k) continue;
		if (R.out_of_time()) { complete = false; break; }
		if (ty == 0) explore<GenSet>(R, CFGS[i], depth, id, crashed, complete); else explore<FtSet>(R, CFGS[i], depth, id, crashed, complete);
	}
	R.traces = R.transitions;
	R.counters["crashed-cases-skipped"] += (long long)crashed.size();
	R.finish(complete);
	return 0;
}
