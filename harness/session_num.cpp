// session_num — C16 (outbound numbers consecutive + control record) and C17 (sent application messages stored exactly)
// History search over one real Session (DESIGN §3 C16/C17).  args: prop=C16|C17 depth=N cfgs=a,b,...
#include <fix8/f8includes.hpp>
#include "utest_types.hpp"
#include "utest_router.hpp"
#include "utest_classes.hpp"
#include "sim/world.hpp"
#include "explore/bfs.hpp"
using namespace FIX8;
using namespace sim;

static vh::Run *RR; static std::string PROP;

struct Cfg { std::string name; WorldCfg w; bool pre_ctl = false; };
static std::vector<Cfg> all_cfgs()
{
	std::vector<Cfg> v;
	auto add = [&](const char *n, bool acc, PersistKind pk, std::function<void(Cfg&)> f = nullptr) { Cfg c; c.name = n; c.w.acceptor = acc; c.w.pk = pk; if (!acc) { c.w.us = "CLI"; c.w.them = "SRV"; } if (f) f(c); v.push_back(c); };
	add("acc-mem", true, P_MEM); add("ini-mem", false, P_MEM); add("acc-file", true, P_FILE); add("ini-file", false, P_FILE);
	add("acc-none", true, P_NONE);
	add("ini-file-ctl57", false, P_FILE, [](Cfg& c) { c.pre_ctl = true; });
	add("ini-mem-start10", false, P_MEM, [](Cfg& c) { c.w.start_send = 10; });
	add("ini-file-reset", false, P_FILE, [](Cfg& c) { c.w.reset_seqnum = true; c.pre_ctl = true; });
	return v;
}

enum Ev { E_S, E_H, E_IA, E_B2, E_IT, E_T, E_IR, E_B3, E_R, E_IRA, E_IRD, E_IAX, E_N };
static const char *EVN[] = { "send", "hb", "in-app", "batch2", "in-testreq", "testreq", "in-resendreq", "batch3", "restart", "in-resendreq-ahead", "in-resendreq-possdup-low", "in-app-rejected" };

struct Model {
	Cfg cfg;
	int nevents() const { return E_N; }
	std::string evname(int e) const { return EVN[e]; }

	struct Ref { long n_send = 1; std::map<long, std::string> store; std::set<long> used; bool has_persist = true; };

	static bool is_admin(const std::string& t) { return t.size() == 1 && strchr("012345A", t[0]); }

	// judge the wire output of one event against the reference; returns "" or (clause|mode|detail)
	std::string judge_out(Ref& ref, const std::vector<std::string>& out, bool garbage)
	{
		if (garbage) return "numbering|wire-unparseable|output is not a sequence of FIX messages";
		long maxnew = 0;
		for (auto& m : out) {
			std::string t = tagval(m, 35); long seq = atol(tagval(m, 34).c_str());
			if (t == "4") { long n = atol(tagval(m, 36).c_str()); if (n > maxnew) maxnew = n; continue; }	// gap fill: excluded
			if (tagval(m, 43) == "Y") continue;	// retransmission: excluded
			if (seq != ref.n_send) return "consecutive-numbers|new-message-number-not-previous-plus-one|35=" + t + " carries 34=" + std::to_string(seq) + ", expected " + std::to_string(ref.n_send);
			if (!ref.used.insert(seq).second) return "consecutive-numbers|number-reused|34=" + std::to_string(seq);
			++ref.n_send;
			if (!is_admin(t)) ref.store[seq] = m;
		}
		if (maxnew > ref.n_send) ref.n_send = maxnew;
		return "";
	}
	std::string judge_store(World& w, Ref& ref)
	{
		if (!w.persist) return "";
		unsigned s = 0, r = 0; bool ok = w.persist->get(s, r);
		if (PROP == "C16") {
			if (!ok) return "control-record|control-record-missing|get(ctl) failed; session next_send=" + std::to_string(w.ses->ns()) + " next_recv=" + std::to_string(w.ses->nr());
			if (s != w.ses->ns() || r != w.ses->nr())
				return "control-record|control-record-differs|persisted (" + std::to_string(s) + "," + std::to_string(r) + ") session (" + std::to_string(w.ses->ns()) + "," + std::to_string(w.ses->nr()) + ")";
		}
		if (PROP == "C17") {
			long hi = ref.n_send + 3;
			for (long q = 1; q <= hi; ++q) {
				f8String v; bool g = w.persist->get((unsigned)q, v);
				auto it = ref.store.find(q);
				if (it == ref.store.end()) { if (g) return "admin-not-stored|unexpected-record|store holds a record under " + std::to_string(q) + ": " + vh::show(v).substr(0, 120); }
				else {
					if (!g) return "stored-as-transmitted|record-missing|no record under " + std::to_string(q);
					if (v != it->second) return std::string("stored-as-transmitted|") + (v.empty() ? "record-empty" : "record-differs") + "|under " + std::to_string(q) + " store has '" + vh::show(v).substr(0, 160) + "' wire had '" + vh::show(it->second).substr(0, 160) + "'";
				}
			}
		}
		return "";
	}

	bfs::Step run(const bfs::Hist& h, bool verbose)
	{
		bfs::Step st;
		static int wn = 0; ++wn;
		WorldCfg wc = cfg.w; wc.fname = "s" + std::to_string(getpid()) + ".db";
		World w(wc); w.remove_files();
		sim::vnow_ns = 1700000000LL * 1000000000LL;
		Ref ref; int idn = 0; long peer_next = 1;
		if (cfg.pre_ctl) { std::unique_ptr<Persister> p(w.make_persister()); p->put(5u, 7u); ref.n_send = 5; peer_next = 7; }
		if (wc.start_send) ref.n_send = wc.start_send;
		if (wc.reset_seqnum) { ref.n_send = 1; peer_next = 1; }
		std::string fail; int failed_at = -1;
		auto after = [&](int i) {
			bool garbage = false; auto out = w.take_out(&garbage);
			if (verbose) for (auto& m : out) fprintf(stderr, "    OUT %s\n", vh::show(m).c_str());
			std::string f = judge_out(ref, out, garbage);
			if (f.empty()) f = judge_store(w, ref);
			if (verbose) fprintf(stderr, "    state=%s next_send=%u next_recv=%u ref.n_send=%ld\n", Session::get_session_state_string((States::SessionStates)w.ses->st()).c_str(), w.ses->ns(), w.ses->nr(), ref.n_send);
			if (!f.empty() && fail.empty()) { fail = f; failed_at = i; }
		};
		// establish the session
		w.connect();
		w.cfg.start_send = w.cfg.start_recv = 0;	// explicit start numbers apply to the first connection only (as in sessionwrapper.hpp)
		w.feed(w.inbound("A", peer_next, std::string("98=0") + SOH + "108=30" + SOH)); ++peer_next;
		after(-1);
		if (!fail.empty()) {	// the establishment itself violates: report on the empty history only
			st.violated = true;
			if (h.empty()) report(h, fail);
			st.key = "fail"; w.teardown(); w.remove_files(); return st;
		}
		for (size_t i = 0; i < h.size(); ++i) {
			int ev = h[i]; bool last = i + 1 == h.size();
			if (verbose) fprintf(stderr, "  event %zu: %s\n", i, EVN[ev]);
			if (w.ses->is_shutdown() || !w.conn) { st.enabled = false; break; }
			peer_next = w.ses->nr();	// the counterparty stays in sequence
			switch (ev) {
			case E_S: w.ses->send(World::nos("ID" + std::to_string(++idn))); st.outcome = "sent"; break;
			case E_H: w.ses->send(w.ses->generate_heartbeat("")); st.outcome = "sent"; break;
			case E_T: w.ses->send(w.ses->generate_test_request("TR")); st.outcome = "sent"; break;
			case E_B2: case E_B3: {
				std::vector<Message *> b; for (int k = 0; k < (ev == E_B2 ? 2 : 3); ++k) b.push_back(World::nos("ID" + std::to_string(++idn)));
				size_t n = w.ses->send_batch(b); st.outcome = "sent" + std::to_string(n); break; }
			case E_IA: st.outcome = w.feed(w.inbound("D", peer_next, World::nos_body("P" + std::to_string(i)))) ? "processed" : "rejected"; break;
			// an application message in sequence that fails a non-fatal check (mandatory Side missing): answered with a Reject, the session goes on
			case E_IAX: { std::string b = World::nos_body("X" + std::to_string(i)); size_t p54 = b.find(std::string(1, SOH) + "54=1" + SOH); if (p54 != std::string::npos) b.erase(p54 + 1, 5);
				st.outcome = w.feed(w.inbound("D", peer_next, b)) ? "processed" : "rejected"; break; }
			case E_IT: st.outcome = w.feed(w.inbound("1", peer_next, std::string("112=X") + SOH)) ? "processed" : "rejected"; break;
			case E_IR: st.outcome = w.feed(w.inbound("2", peer_next, std::string("7=1") + SOH + "16=0" + SOH)) ? "processed" : "rejected"; break;
			// a ResendRequest that does not carry the expected number is still acted on: two numbers ahead of sequence, and a
			// PossDup copy one below the expected number
			case E_IRA: st.outcome = w.feed(w.inbound("2", peer_next + 2, std::string("7=1") + SOH + "16=0" + SOH)) ? "processed" : "rejected"; break;
			case E_IRD: if (peer_next < 2) { st.enabled = false; break; }
				st.outcome = w.feed(w.inbound("2", peer_next - 1, std::string("7=1") + SOH + "16=0" + SOH, std::string("43=Y") + SOH + "122=20231114-22:13:20.000" + SOH)) ? "processed" : "rejected"; break;
			case E_R:
				if (wc.pk != P_FILE && wc.acceptor) { st.enabled = false; break; }	// an acceptor's memory store dies with its session (by design)
				if (wc.pk == P_NONE) { st.enabled = false; break; }
				w.disconnect(); w.connect();
				// the session restarts from the persisted control record; the counterparty continues its own numbering
				// (peer_next = what the session expected before the restart), or starts at 1 when sequence reset is configured
				if (wc.reset_seqnum) { peer_next = 1; ref.n_send = 1; ref.used.clear(); ref.store.clear(); }
				w.feed(w.inbound("A", peer_next, std::string("98=0") + SOH + "108=30" + SOH));
				st.outcome = "restarted";
				// logon messages of the new connection were consumed above for the initiator; re-judge them
				break;
			}
			if (!st.enabled) break;
			if (ev == E_R) {
				// new connection: everything the new connection wrote (Logon or Logon reply) must continue the numbering
				w.out_seen = 0; after((int)i);
			} else after((int)i);
			if (!fail.empty()) {
				st.violated = true;
				if (failed_at == (int)i && last) report(h, fail);
				else if (failed_at < (int)i || !last) { st.enabled = false; }	// a prefix already violated: not a new state
				break;
			}
		}
		// canonical key
		std::string k = cfg.name + "|st" + std::to_string(w.ses ? w.ses->st() : -1) + "|ns" + std::to_string(w.ses ? w.ses->ns() : 0) + "|nr" + std::to_string(w.ses ? w.ses->nr() : 0)
			+ "|ref" + std::to_string(ref.n_send) + "|sd" + std::to_string(w.ses && w.ses->is_shutdown()) + "|bb" + std::to_string(w.ses ? w.ses->_batchmsgs_buffer.size() : 0) + "|store";
		for (auto& p : ref.store) k += "," + std::to_string(p.first);
		if (w.persist) { unsigned s = 0, r = 0; if (w.persist->get(s, r)) k += "|ctl" + std::to_string(s) + "," + std::to_string(r); }
		st.key = k;
		w.teardown(); w.remove_files();
		return st;
	}
	void report(const bfs::Hist& h, const std::string& f)
	{
		size_t a = f.find('|'), b = f.find('|', a + 1);
		std::string clause = f.substr(0, a), mode = f.substr(a + 1, b - a - 1), detail = f.substr(b + 1);
		std::vector<std::string> tags { "cfg:" + cfg.name };
		std::set<std::string> evs; for (int e : h) evs.insert(EVN[e]);
		if (!h.empty()) tags.push_back(std::string("last:") + EVN[h.back()]);
		for (auto& e : evs) tags.push_back("has:" + e);
		if (cfg.w.reset_seqnum && evs.count("restart")) tags.push_back("reset_then_reconnect");
		std::string desc; for (int e : h) desc += std::string(EVN[e]) + " ";
		RR->viol(clause, mode, tags, cfg.name + ";" + bfs::hist_str(h), detail, "reference numbering/store model", desc);
	}
};

int main(int argc, char **argv)
{
	vh::Run R(argc, argv); RR = &R;
	GlobalLogger::set_levels(Logger::Levels(Logger::None));
	PROP = R.args.get("prop", "C16");
	const int depth = (int)R.args.num("depth", 4);
	std::string want = R.args.get("cfgs", "acc-mem,ini-mem,acc-file,ini-file,acc-none,ini-file-ctl57,ini-mem-start10,ini-file-reset");
	std::vector<Cfg> cfgs;
	for (auto& c : all_cfgs()) if (("," + want + ",").find("," + c.name + ",") != std::string::npos) cfgs.push_back(c);
	if (R.single) {
		size_t sc = R.single_case.find(';'); std::string cn = R.single_case.substr(0, sc);
		for (auto& c : cfgs) if (c.name == cn) { Model M; M.cfg = c; R.begin_case(R.single_case); M.run(bfs::parse_hist(R.single_case.substr(sc + 1)), true); }
		R.finish(); return R.violations ? 1 : 0;
	}
	for (auto& c : cfgs) { Model M; M.cfg = c; bfs::explore(M, R, depth, c.name); if (R.hit_deadline) break; }
	R.finish(true);
	return 0;
}
