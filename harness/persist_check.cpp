// persist_check — C26 (store contract, history search) and C27 (file persister crash points, fault enumeration)
// part=contract kind=mem|file depth=N      part=crash depth=N
#include <fix8/f8includes.hpp>
#include "utest_types.hpp"
#include "utest_router.hpp"
#include "utest_classes.hpp"
#include "sim/world.hpp"
#include "explore/bfs.hpp"
#include <sys/syscall.h>
using namespace FIX8;
using namespace sim;

static vh::Run *RR;

// ------------------------------------------------------------------------------------------------ syscall layer (C27)
// a crash = the call completes, then control leaves the persister for good (longjmp: lseek is declared nothrow, so an
// exception cannot be used); the abandoned object is never touched again, only its descriptors are closed
#include <csetjmp>
static jmp_buf g_crash_jb;
static int g_fd_a = -1, g_fd_b = -1; static long g_calls = 0, g_crash_at = -1; static bool g_armed = false;
static inline void point(int fd) { if (g_armed && (fd == g_fd_a || fd == g_fd_b)) { if (++g_calls == g_crash_at) { g_armed = false; longjmp(g_crash_jb, 1); } } }
extern "C" ssize_t write(int fd, const void *b, size_t n) { ssize_t r = syscall(SYS_write, fd, b, n); point(fd); return r; }
extern "C" off_t lseek(int fd, off_t o, int w) { off_t r = syscall(SYS_lseek, fd, o, w); point(fd); return r; }
extern "C" off_t lseek64(int fd, off_t o, int w) { off_t r = syscall(SYS_lseek, fd, o, w); point(fd); return r; }

// session that records range retrieval callbacks
struct CbSes : Session {
	std::vector<std::pair<unsigned, std::string>> seen; int done_calls = 0;
	CbSes() : Session(UTEST::ctx(), sender_comp_id("X"), nullptr) {}
	bool handle_application(const unsigned, const Message *&) override { return true; }
	bool retrans_callback(const SequencePair& with, RetransmissionContext& rctx) override
	{ if (rctx._no_more_records) { ++done_calls; return true; } seen.push_back({ with.first, with.second }); return true; }
};

struct RefStore { std::map<unsigned, std::string> m; bool has_ctl = false; unsigned cs = 0, cr = 0; };

static Persister *open_p(bool file, const std::string& name)
{
	if (!file) return new MemoryPersister;
	FilePersister *fp = new FilePersister(0); fp->initialise(".", name, false); return fp;
}

// full observation battery against the reference; returns "" or clause|mode|detail
static std::string observe(Persister *p, const RefStore& ref, CbSes& ses)
{
	for (unsigned s = 0; s <= 7; ++s) {
		f8String v; bool g = p->get(s, v); auto it = ref.m.find(s);
		if (s == 0) { if (g) return "get-returns-stored|get-zero-succeeds|get(0) returned a record"; continue; }
		if (it == ref.m.end()) { if (g) return "get-returns-stored|get-unstored-succeeds|get(" + std::to_string(s) + ") returned '" + vh::show(v).substr(0, 40) + "' though nothing was stored"; }
		else { if (!g) return "get-returns-stored|get-stored-fails|get(" + std::to_string(s) + ") failed"; if (v != it->second) return "get-returns-stored|get-returns-other-bytes|get(" + std::to_string(s) + ")='" + vh::show(v).substr(0, 40) + "' stored '" + vh::show(it->second).substr(0, 40) + "'"; }
	}
	{ unsigned a = 0, b = 0; bool g = p->get(a, b);
	  if (ref.has_ctl) { if (!g) return "control-record-last-stored|control-get-fails|get(ctl) failed, last stored (" + std::to_string(ref.cs) + "," + std::to_string(ref.cr) + ")";
		if (a != ref.cs || b != ref.cr) return "control-record-last-stored|control-differs|got (" + std::to_string(a) + "," + std::to_string(b) + ") last stored (" + std::to_string(ref.cs) + "," + std::to_string(ref.cr) + ")"; }
	  else if (g && (a || b)) return "control-record-last-stored|control-invented|got (" + std::to_string(a) + "," + std::to_string(b) + ") though none was stored"; }
	const unsigned want_last = ref.m.empty() ? 0 : ref.m.rbegin()->first;
	{ unsigned l = 99; unsigned r = p->get_last_seqnum(l); if (l != want_last || r != want_last) return "last-is-largest|last-wrong|get_last_seqnum=" + std::to_string(l) + " largest stored " + std::to_string(want_last); }
	for (unsigned r = 0; r <= 7; ++r) {
		unsigned want = 0; for (auto& kv : ref.m) if (kv.first >= r && kv.first <= want_last) { want = kv.first; break; }
		if (r == 0) continue;	// requested 0 is not a sequence number
		unsigned got = p->find_nearest_highest_seqnum(r, want_last);
		if (got != want) return "nearest-highest|nearest-wrong|find_nearest_highest_seqnum(" + std::to_string(r) + "," + std::to_string(want_last) + ")=" + std::to_string(got) + " expected " + std::to_string(want);
	}
	for (unsigned from : { 1u, 2u, 4u }) for (unsigned to : { 0u, 2u, 3u, 9u }) {
		ses.seen.clear(); ses.done_calls = 0;
		p->get(from, to, ses, &Session::retrans_callback);
		std::vector<std::pair<unsigned, std::string>> want;
		const unsigned fin = to == 0 ? want_last : to;
		if (from >= 1) for (auto& kv : ref.m) if (kv.first >= from && kv.first <= fin) want.push_back({ kv.first, kv.second });
		if (ses.seen != want) {
			std::string g, w; for (auto& x : ses.seen) g += std::to_string(x.first) + " "; for (auto& x : want) w += std::to_string(x.first) + " ";
			return "range-visits-stored-ascending|range-wrong|range(" + std::to_string(from) + "," + std::to_string(to) + ") visited {" + g + "} expected {" + w + "}";
		}
		if (ses.done_calls != 1) return "range-signals-completion|completion-not-signalled-once|range(" + std::to_string(from) + "," + std::to_string(to) + ") signalled completion " + std::to_string(ses.done_calls) + " times";
	}
	return "";
}

// ------------------------------------------------------------------------------------------------ C26
enum { M_PUT0 = 0, M_PUTCTL0 = 10, M_REOPEN = 12, M_N = 13 };
static const unsigned PUT_S[] = { 1, 2, 3, 5, 0 }; static const char *PUT_B[] = { "a", "bb" };
struct Contract {
	bool file;
	int nevents() const { return M_N; }
	std::string evname(int e) const
	{
		if (e < M_PUTCTL0) return "put(" + std::to_string(PUT_S[e / 2]) + "," + PUT_B[e % 2] + ")";
		if (e < M_REOPEN) return e == M_PUTCTL0 ? "putctl(1,1)" : "putctl(2,7)";
		return "reopen";
	}
	bfs::Step run(const bfs::Hist& h, bool verbose)
	{
		bfs::Step st; static CbSes *ses = new CbSes;
		const std::string name = "c" + std::to_string(getpid()) + ".db";
		::unlink(name.c_str()); ::unlink((name + ".idx").c_str());
		std::unique_ptr<Persister> p(open_p(file, name)); RefStore ref; std::string fail;
		for (size_t i = 0; i < h.size(); ++i) {
			int ev = h[i]; const bool last = i + 1 == h.size();
			if (verbose) fprintf(stderr, "  event %zu: %s\n", i, evname(ev).c_str());
			if (ev < M_PUTCTL0) {
				unsigned s = PUT_S[ev / 2]; std::string b = PUT_B[ev % 2];
				bool r = p->put(s, b); bool want = s != 0 && !ref.m.count(s);
				if (want) ref.m[s] = b;
				st.outcome = r ? "stored" : "refused";
				if (r != want && last) fail = std::string("put-refuses-zero-and-occupied|") + (r ? "put-accepted-but-must-refuse" : "put-refused-but-must-accept") + "|" + evname(ev);
			} else if (ev < M_REOPEN) {
				unsigned a = ev == M_PUTCTL0 ? 1 : 2, b = ev == M_PUTCTL0 ? 1 : 7;
				bool r = p->put(a, b); ref.has_ctl = true; ref.cs = a; ref.cr = b; st.outcome = r ? "stored" : "refused";
				if (!r && last) fail = "control-record-last-stored|control-put-refused|" + evname(ev);
			} else {
				if (!file) { st.enabled = false; break; }
				p.reset(); p.reset(open_p(true, name)); st.outcome = "reopened";
			}
			if (fail.empty()) { std::string f = observe(p.get(), ref, *ses); if (!f.empty()) { if (last) fail = f; else { st.enabled = false; break; } } }
			if (!fail.empty()) break;
		}
		if (st.enabled && !fail.empty()) {
			st.violated = true;
			size_t a = fail.find('|'), b = fail.find('|', a + 1);
			std::vector<std::string> tags { file ? "persister:file" : "persister:mem" };
			bool msg_before_ctl = false, seen_ctl = false, reopen = false; for (int e : h) { if (e >= M_PUTCTL0 && e < M_REOPEN) seen_ctl = true; if (e < M_PUTCTL0 && PUT_S[e / 2] && !seen_ctl) msg_before_ctl = true; if (e == M_REOPEN) reopen = true; }
			if (msg_before_ctl) tags.push_back("message_before_first_control"); if (reopen) tags.push_back("has_reopen");
			std::string desc; for (int e : h) desc += evname(e) + " ";
			RR->viol(fail.substr(0, a), fail.substr(a + 1, b - a - 1), tags, std::string(file ? "file" : "mem") + ";" + bfs::hist_str(h), fail.substr(b + 1), "reference map + control record", desc);
		}
		std::string k = file ? "file|" : "mem|"; for (auto& kv : ref.m) k += std::to_string(kv.first) + "=" + kv.second + ","; k += ref.has_ctl ? "|ctl" + std::to_string(ref.cs) + "," + std::to_string(ref.cr) : "|noctl";
		// the order of the first message relative to the first control record shapes the index file: keep it in the key
		{ bool seen_ctl = false; int first = 0; for (int e : h) { if (e >= M_PUTCTL0 && e < M_REOPEN) { if (!first) first = 1; seen_ctl = true; } else if (e < M_PUTCTL0 && PUT_S[e / 2] && !first) first = 2; } k += "|first" + std::to_string(first); (void)seen_ctl; }
		st.key = k;
		p.reset(); ::unlink(name.c_str()); ::unlink((name + ".idx").c_str());
		return st;
	}
};

// ------------------------------------------------------------------------------------------------ C27
// operations: put(s, payload) s in {1,2,3}, payload in {short, long}; putctl(k)
struct Op { int kind; unsigned s; int pl; };	// kind 0 put, 1 putctl
static std::string payload(unsigned s, int pl) { return pl ? "L" + std::to_string(s) + std::string(40, 'x') : "S" + std::to_string(s); }
static std::string op_str(const Op& o) { return o.kind ? "ctl" + std::to_string(o.s) : "put" + std::to_string(o.s) + (o.pl ? "L" : "S"); }

static void crash_case(vh::Run& R, const std::vector<Op>& ops, long crash_at, const std::string& id)
{
	const std::string name = "k" + std::to_string(getpid()) + ".db";
	::unlink(name.c_str()); ::unlink((name + ".idx").c_str());
	static CbSes *ses = new CbSes;
	// what was ever passed to put for each number; what completed
	std::map<unsigned, std::set<std::string>> ever; std::map<unsigned, std::string> completed; std::vector<std::pair<unsigned, unsigned>> ctl_done; bool ctl_inflight = false; std::pair<unsigned, unsigned> ctl_if;
	bool crashed = false; size_t crashed_op = 0; bool msg_before_ctl = false, any_ctl = false;
	{
		FilePersister *fp = new FilePersister(0); fp->initialise(".", name, false);
		g_fd_a = fp->_fod; g_fd_b = fp->_iod; g_calls = 0; g_crash_at = crash_at; g_armed = true;
		static volatile size_t vi; static std::string cur_payload;
		for (vi = 0; vi < ops.size() && !crashed; ++vi) {
			const Op& o = ops[vi];
			if (setjmp(g_crash_jb)) { crashed = true; crashed_op = vi; break; }
			if (o.kind == 0) { cur_payload = payload(o.s, o.pl); if (!completed.count(o.s)) ever[o.s].insert(cur_payload); if (!any_ctl) msg_before_ctl = true; bool r = fp->put(o.s, cur_payload); if (r) completed[o.s] = cur_payload; }
			else { ctl_inflight = true; ctl_if = { o.s, o.s + 10 }; bool r = fp->put(o.s, o.s + 10); ctl_inflight = false; if (r) { ctl_done.push_back(ctl_if); any_ctl = true; } }
		}
		g_armed = false;
		if (crashed) { ::close(g_fd_a); ::close(g_fd_b); }	// the process is gone: its descriptors are closed, the object is abandoned (leaked on purpose)
		else delete fp;
	}
	R.begin_case(id, msg_before_ctl ? "message_before_first_control" : "");
	if (!crashed) { R.outcome("no-crash-point"); --R.evaluations; ::unlink(name.c_str()); ::unlink((name + ".idx").c_str()); return; }
	++R.nontrivial;
	std::vector<std::string> tags; if (msg_before_ctl) tags.push_back("message_before_first_control");
	tags.push_back(std::string("crashed_in:") + (ops[crashed_op].kind ? "putctl" : "put"));
	auto check = [&](Persister *p, const char *when) -> bool {
		for (unsigned s = 1; s <= 6; ++s) {
			f8String v; bool g = p->get(s, v);
			auto c = completed.find(s);
			if (c != completed.end()) {
				if (!g) { R.viol("completed-store-survives", "completed-record-lost", tags, id, std::string(when) + ": get(" + std::to_string(s) + ") failed", "'" + c->second.substr(0, 20) + "'"); return false; }
				if (v != c->second) { R.viol("completed-store-survives", "completed-record-differs", tags, id, std::string(when) + ": get(" + std::to_string(s) + ")='" + vh::show(v).substr(0, 30) + "'", "'" + c->second.substr(0, 20) + "'"); return false; }
			} else if (g && !(ever.count(s) && ever[s].count(v))) { R.viol("no-foreign-bytes", "returns-bytes-never-stored-for-number", tags, id, std::string(when) + ": get(" + std::to_string(s) + ")='" + vh::show(v).substr(0, 30) + "'", "failure or bytes once passed to put(" + std::to_string(s) + ")"); return false; }
		}
		unsigned a = 0, b = 0; bool g = p->get(a, b);
		bool ok = false;
		if (!ctl_done.empty() && g && a == ctl_done.back().first && b == ctl_done.back().second) ok = true;
		if (ctl_inflight && g && a == ctl_if.first && b == ctl_if.second) ok = true;
		if (ctl_done.empty() && (!g || (a == 0 && b == 0))) ok = true;
		if (!ok) { R.viol("control-is-last-completed", g ? "control-differs" : "control-lost", tags, id, std::string(when) + ": control " + (g ? "(" + std::to_string(a) + "," + std::to_string(b) + ")" : "missing"), ctl_done.empty() ? "none" : "(" + std::to_string(ctl_done.back().first) + "," + std::to_string(ctl_done.back().second) + ")"); return false; }
		return true;
	};
	bool good = true;
	{
		std::unique_ptr<Persister> p(open_p(true, name));
		good = check(p.get(), "after reopen");
		if (good) {
			// continuation: a new number, a number whose store was interrupted (if any), a control record
			unsigned nn = 4; std::string nb = payload(nn, 1);
			ever[nn].insert(nb); if (p->put(nn, nb)) completed[nn] = nb; else { R.viol("further-stores-retrievable", "continuation-put-refused", tags, id, "put(4) refused after reopen", "stored"); good = false; }
			if (good && !ops[crashed_op].kind && !completed.count(ops[crashed_op].s)) {
				unsigned s = ops[crashed_op].s; std::string b2 = payload(s, 1 - ops[crashed_op].pl);
				f8String cur; bool had = p->get(s, cur);
				// what the interrupted number returns now (after another record was appended) must still be something stored for it
				if (had && !(ever.count(s) && ever[s].count(cur))) { R.viol("no-foreign-bytes", "returns-bytes-never-stored-for-number", tags, id, "after a further store: get(" + std::to_string(s) + ")='" + vh::show(cur).substr(0, 30) + "'", "failure or bytes once passed to put(" + std::to_string(s) + ")"); good = false; }
				ever[s].insert(b2); bool r = good && p->put(s, b2);
				if (!good) { }
				else if (r) completed[s] = b2; else if (!had) { R.viol("further-stores-retrievable", "continuation-put-refused", tags, id, "put(" + std::to_string(s) + ") refused although get fails", "stored"); good = false; }
				else completed[s] = cur;
			}
			if (good) { ctl_inflight = false; if (p->put(7u, 17u)) ctl_done.push_back({ 7, 17 }); else { R.viol("further-stores-retrievable", "continuation-control-refused", tags, id, "", ""); good = false; } }
			if (good) good = check(p.get(), "after continuation");
		}
	}
	if (good) { std::unique_ptr<Persister> p(open_p(true, name)); good = check(p.get(), "after second reopen"); if (good) { std::string f = ""; (void)f; } }
	R.outcome(good ? "consistent" : "inconsistent");
	::unlink(name.c_str()); ::unlink((name + ".idx").c_str());
}

int main(int argc, char **argv)
{
	vh::Run R(argc, argv); RR = &R;
	GlobalLogger::set_levels(Logger::Levels(Logger::None));
	const std::string part = R.args.get("part", "contract");
	const int depth = (int)R.args.num("depth", 3);
	if (part == "contract") {
		if (R.single) {
			size_t sc = R.single_case.find(';'); Contract M; M.file = R.single_case.substr(0, sc) == "file";
			R.begin_case(R.single_case); M.run(bfs::parse_hist(R.single_case.substr(sc + 1)), true); R.finish(); return R.violations ? 1 : 0;
		}
		for (int f = 0; f < 2; ++f) { Contract M; M.file = f; bfs::explore(M, R, depth, f ? "file" : "mem"); if (R.hit_deadline) break; }
		R.finish(true); return 0;
	}
	// crash: all op sequences up to depth, every crash point
	std::vector<Op> menu; for (unsigned s = 1; s <= 3; ++s) for (int pl = 0; pl < 2; ++pl) menu.push_back({ 0, s, pl }); menu.push_back({ 1, 1, 0 }); menu.push_back({ 1, 2, 0 });
	auto parse = [&](const std::string& c, std::vector<Op>& ops, long& k) { size_t at = c.find('@'); k = atol(c.c_str() + at + 1); std::istringstream is(c.substr(0, at)); std::string x; while (std::getline(is, x, ',')) if (!x.empty()) ops.push_back(menu[atoi(x.c_str())]); };
	if (R.single) { std::vector<Op> ops; long k; parse(R.single_case, ops, k); if (R.verbose()) { for (auto& o : ops) fprintf(stderr, "%s ", op_str(o).c_str()); fprintf(stderr, " crash after file system call %ld\n", k); } crash_case(R, ops, k, R.single_case); R.finish(); return R.violations ? 1 : 0; }
	unsigned long long id = 0;
	std::function<void(std::vector<int>&)> rec = [&](std::vector<int>& seq) {
		if (!seq.empty()) {
			std::vector<Op> ops; std::string s; for (int x : seq) { ops.push_back(menu[x]); s += std::to_string(x) + ","; }
			for (long k = 1; k <= (long)ops.size() * 4; ++k, ++id) { if (!R.mine(id)) continue; crash_case(R, ops, k, s + "@" + std::to_string(k)); if (id % 997 == 5) R.sample(s + "@" + std::to_string(k), "ops then crash after the k-th completed lseek/write"); }
		}
		if ((int)seq.size() >= depth || R.out_of_time()) return;
		for (int x = 0; x < (int)menu.size(); ++x) { seq.push_back(x); rec(seq); seq.pop_back(); }
	};
	std::vector<int> seq; rec(seq);
	R.transitions = R.evaluations; R.traces = R.evaluations;
	R.finish(true);
	return 0;
}
