// session_gap — C20: sequence gaps are recovered with a spec-conformant counterparty.
// History search over (peer sends, deliveries, fix8 sends, drop+reconnect); the counterparty is a small model written
// from the FIX session-layer rules (DESIGN Appendix B), the session is the real fix8 Session.
#include <fix8/f8includes.hpp>
#include "utest_types.hpp"
#include "utest_router.hpp"
#include "utest_classes.hpp"
#include "sim/world.hpp"
#include "explore/bfs.hpp"
#include <deque>
using namespace FIX8;
using namespace sim;

static vh::Run *RR;
// the last two events exist in the "lazy" configurations only: there the counterparty does not answer what fix8 writes at once
// but when it gets round to reading it (peer-reads), and it may itself ask for a resend of everything fix8 sent (peer-resendreq:
// it lost fix8's messages in the drop, or its store) — so requests of both sides cross and the same range is asked for twice
enum Ev { E_PEER_APP, E_DELIVER, E_PEER_HB, E_FIX8_SEND, E_DROP_RECONNECT, E_PEER_RR, E_PEER_READS, E_N };
static const char *EVN[] = { "peer-app", "deliver", "peer-hb", "fix8-send", "drop+reconnect", "peer-resendreq", "peer-reads" };

struct Cfg { std::string name; WorldCfg w; bool lazy = false; };

struct Peer {	// conformant counterparty
	struct Rec { char kind; std::string id, sendtime; };	// kind 'A' application, 'H' administrative
	long next_out = 1; std::map<long, Rec> log; std::deque<std::string> inflight;
	World *w = nullptr;
	std::string ts() { char b[32]; time_t t = sim::now_s(); struct tm tm; gmtime_r(&t, &tm); strftime(b, sizeof b, "%Y%m%d-%H:%M:%S.000", &tm); return b; }
	std::string raw(const std::string& type, long seq, const std::string& body, const std::string& extra = "")
	{ return w->inbound(type, seq, body, extra); }
	void send_app(const std::string& id) { log[next_out] = { 'A', id, ts() }; inflight.push_back(raw("D", next_out, World::nos_body(id))); ++next_out; sim::advance_ms(1000); }
	void send_admin(const std::string& type, const std::string& body) { log[next_out] = { 'H', "", ts() }; inflight.push_back(raw(type, next_out, body)); ++next_out; sim::advance_ms(1000); }
	// obligatory reactions to what fix8 wrote
	void react(const std::vector<std::string>& out)
	{
		for (auto& m : out) {
			std::string t = tagval(m, 35);
			if (t == "2") {
				long B = atol(tagval(m, 7).c_str()), E = atol(tagval(m, 16).c_str());
				long hi = (E == 0 || E > next_out - 1) ? next_out - 1 : E;
				for (long q = B; q <= hi;) {
					auto it = log.find(q);
					if (it != log.end() && it->second.kind == 'A') {
						inflight.push_back(raw("D", q, World::nos_body(it->second.id), std::string("43=Y") + SOH + "122=" + it->second.sendtime + SOH)); ++q;
					} else {
						long j = q; while (j <= hi && !(log.count(j) && log[j].kind == 'A')) ++j;
						inflight.push_back(raw("4", q, std::string("123=Y") + SOH + "36=" + std::to_string(j) + SOH, std::string("43=Y") + SOH + "122=" + ts() + SOH)); q = j;
					}
				}
			} else if (t == "1") send_admin("0", "112=" + tagval(m, 112) + SOH);
		}
	}
};

struct Model {
	Cfg cfg;
	int nevents() const { return cfg.lazy ? (int)E_N : (int)E_PEER_RR; }
	std::string evname(int e) const { return EVN[e]; }

	bfs::Step run(const bfs::Hist& h, bool verbose)
	{
		bfs::Step st;
		WorldCfg wc = cfg.w; wc.fname = "g" + std::to_string(getpid()) + ".db";
		World w(wc); w.remove_files();
		sim::vnow_ns = 1700000000LL * 1000000000LL;
		Peer peer; peer.w = &w;
		int nid = 0, fid = 0;
		std::string fail_clause, fail_mode, fail_detail;
		std::vector<std::string> held;	// lazy: written by fix8, not yet read by the peer
		auto answer = [&](const std::vector<std::string>& out) {	// only ResendRequest and TestRequest oblige the peer to anything
			if (!cfg.lazy) { peer.react(out); return; }
			for (auto& m : out) if (tagval(m, 35) == "2" || tagval(m, 35) == "1") held.push_back(m);
		};
		auto peer_reads = [&]() { std::vector<std::string> h2; h2.swap(held); if (verbose) fprintf(stderr, "    peer reads %zu message(s)\n", h2.size()); peer.react(h2); };
		auto logon_exchange = [&]() {
			// the peer's Logon carries its current number (possibly above what fix8 expects)
			peer.log[peer.next_out] = { 'H', "", peer.ts() };
			std::string lg = peer.raw("A", peer.next_out, std::string("98=0") + SOH + "108=30" + SOH); ++peer.next_out; sim::advance_ms(1000);
			w.feed(lg);
			auto out = w.take_out(); if (verbose) for (auto& m : out) fprintf(stderr, "    OUT %s\n", vh::show(m).c_str());
			answer(out);
		};
		auto check_alive = [&](const char *when) {
			if (fail_clause.empty() && w.ses && w.ses->is_shutdown()) { fail_clause = "never-terminates-for-sequence-reason"; fail_mode = std::string("session-ended:") + when; fail_detail = std::string("state=") + Session::get_session_state_string((States::SessionStates)w.ses->st()) + " expected_in=" + std::to_string(w.ses->nr()) + " peer_next=" + std::to_string(peer.next_out); }
		};
		auto deliver_one = [&]() {
			std::string m = peer.inflight.front(); peer.inflight.pop_front();
			if (verbose) fprintf(stderr, "    IN  %s\n", vh::show(m).c_str());
			w.feed(m);
			auto out = w.take_out(); if (verbose) for (auto& x : out) fprintf(stderr, "    OUT %s\n", vh::show(x).c_str());
			answer(out);
		};
		w.connect(); w.take_out();
		logon_exchange();
		check_alive("logon");
		bool logon_high = false;
		for (size_t i = 0; i < h.size() && fail_clause.empty(); ++i) {
			int ev = h[i];
			if (verbose) fprintf(stderr, "  event %zu: %s (fix8 expects %u, peer next %ld, in flight %zu)\n", i, EVN[ev], w.ses->nr(), peer.next_out, peer.inflight.size());
			switch (ev) {
			case E_PEER_APP: peer.send_app("P" + std::to_string(++nid)); st.outcome = "queued"; break;
			case E_PEER_HB: peer.send_admin("0", ""); st.outcome = "queued"; break;
			case E_DELIVER: if (peer.inflight.empty()) { st.enabled = false; break; } deliver_one(); st.outcome = "delivered"; check_alive("deliver"); break;
			case E_FIX8_SEND: w.ses->send(World::nos("F" + std::to_string(++fid))); answer(w.take_out()); st.outcome = "sent"; break;
			case E_DROP_RECONNECT: {
				if (wc.acceptor && wc.pk != P_FILE) { st.enabled = false; break; }
				const bool lost = !peer.inflight.empty();
				peer.inflight.clear(); held.clear();	// messages in flight are lost, in both directions
				w.disconnect(); w.connect(); w.take_out();
				if ((long)peer.next_out > 0 && lost) logon_high = true;
				logon_exchange(); st.outcome = lost ? "reconnected-after-loss" : "reconnected";
				if (fail_clause.empty() && w.ses->is_shutdown()) { fail_clause = "never-terminates-for-sequence-reason"; fail_mode = "session-ended:logon-above-expected"; fail_detail = "peer Logon carried a number above the expected one"; }
				break; }
			case E_PEER_RR: peer.send_admin("2", std::string("7=1") + SOH + "16=0" + SOH); st.outcome = "queued"; break;
			case E_PEER_READS: if (held.empty()) { st.enabled = false; break; } { bool rr = false; for (auto& m : held) if (tagval(m, 35) == "2") rr = true; st.outcome = rr ? "answers-resend-request" : "nothing-to-answer"; } peer_reads(); break;
			}
			if (!st.enabled) break;
		}
		if (!st.enabled) { w.teardown(); w.remove_files(); return st; }
		// state key before the completion phase
		std::string key = cfg.name + "|st" + std::to_string(w.ses->st()) + "|nr" + std::to_string(w.ses->nr()) + "|ns" + std::to_string(w.ses->ns()) + "|sd" + std::to_string(w.ses->is_shutdown()) + "|pn" + std::to_string(peer.next_out) + "|log";
		for (auto& p : peer.log) key += p.second.kind;
		key += "|fl"; for (auto& m : peer.inflight) key += tagval(m, 35) + tagval(m, 34) + (tagval(m, 43) == "Y" ? "d" : "") + ",";
		key += "|hd"; for (auto& m : held) key += tagval(m, 35) + (tagval(m, 35) == "2" ? tagval(m, 7) + "-" + tagval(m, 16) : "") + ",";
		key += "|dl"; { auto g = w.delivered(); std::set<std::string> d(g.begin(), g.end()); for (auto& x : d) key += x + ","; }
		st.key = key;
		// completion phase: drain, one heartbeat from the peer so that a tail gap is seen, drain again
		if (fail_clause.empty()) {
			if (verbose) fprintf(stderr, "  completion phase\n");
			int guard = 0;
			auto drain = [&]() { while ((!peer.inflight.empty() || !held.empty()) && fail_clause.empty() && ++guard < 400) { if (peer.inflight.empty()) peer_reads(); else { deliver_one(); check_alive("completion"); } } };
			drain();
			if (fail_clause.empty()) { peer.send_admin("0", ""); guard = 0; drain(); }
			if (fail_clause.empty() && !peer.inflight.empty()) { fail_clause = "recovery-terminates"; fail_mode = "endless-resend-exchange"; fail_detail = "still messages in flight after 400 steps"; }
			if (fail_clause.empty()) {
				auto g = w.delivered(); std::set<std::string> d(g.begin(), g.end());
				for (auto& p : peer.log) if (p.second.kind == 'A' && !d.count(p.second.id)) { fail_clause = "every-application-message-delivered"; fail_mode = "message-never-delivered"; fail_detail = "peer message " + std::to_string(p.first) + " (" + p.second.id + ") was never delivered"; break; }
			}
			if (fail_clause.empty() && (long)w.ses->nr() != peer.next_out) { fail_clause = "expected-equals-peer-next"; fail_mode = (long)w.ses->nr() > peer.next_out ? "expected-ahead-of-peer" : "expected-behind-peer"; fail_detail = "fix8 expects " + std::to_string(w.ses->nr()) + ", peer's next number is " + std::to_string(peer.next_out); }
		}
		if (verbose) fprintf(stderr, "  end: fix8 expects %u peer next %ld delivered %zu state=%s shutdown=%d\n", w.ses->nr(), peer.next_out, w.ses->rt.got.size(), Session::get_session_state_string((States::SessionStates)w.ses->st()).c_str(), (int)w.ses->is_shutdown());
		if (!fail_clause.empty()) {
			st.violated = true;
			std::vector<std::string> tags { "cfg:" + cfg.name };
			if (logon_high) tags.push_back("logon_above_expected");
			tags.push_back(wc.ignore_logon_seq ? "ignore_logon_sequence_check:on" : "ignore_logon_sequence_check:off");
			std::set<std::string> evs; for (int e : h) evs.insert(EVN[e]); for (auto& e : evs) tags.push_back("has:" + e);
			std::string desc; for (int e : h) desc += std::string(EVN[e]) + " ";
			RR->viol(fail_clause, fail_mode, tags, cfg.name + ";" + bfs::hist_str(h), fail_detail, "conformant-counterparty model", desc);
		}
		w.teardown(); w.remove_files();
		return st;
	}
};

int main(int argc, char **argv)
{
	vh::Run R(argc, argv); RR = &R;
	GlobalLogger::set_levels(Logger::Levels(Logger::None));
	const int depth = (int)R.args.num("depth", 4);
	std::vector<Cfg> cfgs;
	auto add = [&](const char *n, bool acc, PersistKind pk, bool ign) { Cfg c; c.name = n; c.w.acceptor = acc; c.w.pk = pk; c.w.ignore_logon_seq = ign; if (!acc) { c.w.us = "CLI"; c.w.them = "SRV"; } cfgs.push_back(c); };
	std::string want = R.args.get("cfgs", "acc-file,ini-mem,acc-file-ignlogon,ini-mem-ignlogon");
	add("acc-file", true, P_FILE, false); add("ini-mem", false, P_MEM, false); add("acc-file-ignlogon", true, P_FILE, true); add("ini-mem-ignlogon", false, P_MEM, true);
	add("acc-file-lazy", true, P_FILE, false); cfgs.back().lazy = true; add("ini-mem-lazy", false, P_MEM, false); cfgs.back().lazy = true;
	add("acc-file-ignlogon-lazy", true, P_FILE, true); cfgs.back().lazy = true; add("ini-mem-ignlogon-lazy", false, P_MEM, true); cfgs.back().lazy = true;
	std::vector<Cfg> sel; for (auto& c : cfgs) if (("," + want + ",").find("," + c.name + ",") != std::string::npos) sel.push_back(c);
	if (R.single) {
		size_t sc = R.single_case.find(';'); std::string cn = R.single_case.substr(0, sc);
		for (auto& c : cfgs) if (c.name == cn) { Model M; M.cfg = c; R.begin_case(R.single_case); M.run(bfs::parse_hist(R.single_case.substr(sc + 1)), true); }
		R.finish(); return R.violations ? 1 : 0;
	}
	for (auto& c : sel) { Model M; M.cfg = c; bfs::explore(M, R, depth, c.name); if (R.hit_deadline) break; }
	R.finish(true);
	return 0;
}
