// c30_mpmc — C30: the bundled unbounded MPMC queue never loses, duplicates or reorders (schedule search on the real code).
// P producers x pushes and C consumers x try_pops on a real ff::uMPMC_Ptr_Queue with 2 lanes and tiny SPSC segments,
// every FastFlow atomic a scheduling point (ff_shim.hpp), all schedules up to a preemption bound.
// Oracle from the recorded tickets (successful CAS on the producer / consumer cursors) and publish/observe order.
#include <cstdlib>
#include <cassert>
#include <cstdio>
#include <cstring>
// Wiping a segment (SWSR_Ptr_Buffer::reset) is a many-word, non-atomic write to memory another thread may already hold again
// (segments are recycled through BufferPool's cache): a scheduling point in front of every memset of the FastFlow headers.
extern "C" void vs_point(int tag);
// The segments this harness uses are far below 512 slots, where reset() wipes with a plain loop that nothing can interpose:
// the one source hook of this framework (fix8 commit "verif hook: ...", guard FIX8_VERIF) puts a scheduling point at the
// head of SWSR_Ptr_Buffer::reset; it exists only in translation units that define both macros, i.e. only here.
#define FIX8_VERIF 1
#define FIX8_VERIF_POINT(tag) vs_point(tag)
static inline void *verif_memset(void *p, int v, size_t n) { vs_point(9030); return memset(p, v, n); }
#define memset(p, v, n) verif_memset((p), (v), (n))
#include <fix8/ff/allocator.hpp>
#include <fix8/ff/buffer.hpp>
#include <fix8/ff/mpmc/MPMCqueues.hpp>
#undef memset
#include <pthread.h>
#include "sched/explore.hpp"

static ff::uMPMC_Ptr_Queue *Q;
static int NP = 2, NPUSH = 2, NC = 1, NPOP = 4, SEG = 4;	// SEG: slots per SPSC segment (seg=1: every second push to a lane chains a segment)

// ---- event log (execution is serialised by the scheduler: a plain global sequence is a total order)
struct OpRec { int thread; bool push; int token; long ticket = -1; bool ok = false; long start = 0, end = 0; long observe_seq = -1; long cas_at = -1; };
static std::vector<OpRec> ops; static long gseq = 0;
static __thread OpRec *cur = nullptr;
static std::map<long, long> publish_at;	// push ticket -> global sequence at which seqP[lane] was published
static const volatile void *a_preadP, *a_preadC, *a_seqP0, *a_seqP1;
static uint64_t loc_h[32]; static __thread int my_slot = -1;
static inline void mixh(uint64_t& h, uint64_t v) { h ^= v + 0x9e3779b97f4a7c15ULL + (h << 6) + (h >> 2); }

extern "C" void vs_hook_cas(const volatile void *addr, unsigned long exchange, unsigned long compare, unsigned long result, int line)
{ VS_BOOKKEEPING_BEGIN(); ++gseq; if (my_slot >= 0) { mixh(loc_h[my_slot], (uint64_t)line << 32 ^ 1); mixh(loc_h[my_slot], result); } if (cur && result == compare && (addr == a_preadP || addr == a_preadC)) { cur->ticket = (long)compare; cur->cas_at = gseq; } VS_BOOKKEEPING_END(); }
extern "C" void vs_hook_set(const volatile void *addr, unsigned long value, int line)
{ VS_BOOKKEEPING_BEGIN(); ++gseq; if (my_slot >= 0) { mixh(loc_h[my_slot], (uint64_t)line << 32 ^ 2); mixh(loc_h[my_slot], value); } if (cur && cur->push && (addr == a_seqP0 || addr == a_seqP1)) publish_at[cur->ticket] = gseq; VS_BOOKKEEPING_END(); }
extern "C" void vs_hook_read(const volatile void *addr, unsigned long value, int line)
{ VS_BOOKKEEPING_BEGIN(); ++gseq; if (my_slot >= 0) { mixh(loc_h[my_slot], (uint64_t)line << 32 ^ 3); mixh(loc_h[my_slot], value); } if (cur && !cur->push && (addr == a_seqP0 || addr == a_seqP1)) cur->observe_seq = gseq; VS_BOOKKEEPING_END(); }

static int tokens[64];

// ---- part full=1: every interleaving of a small configuration, no preemption bound.  The search is cut where a state recurs,
// so the state hash must hold everything the future and the verdict depend on: the shared cursors and sequence arrays, the
// lanes (read/write index and contents; a lane that switched segments gets a unique hash, i.e. is never cut), for every thread
// a hash of what its current operation has observed so far (the code is deterministic: position + observed values = its
// locals), the summary (ticket, element, result) of every finished operation, and the sticky verdict of the monitor that
// replaces the two history-based "empty" clauses: a pop that reports empty although, when it started, tickets 0..K-1 were all
// published and fewer than K are reserved now.
static bool FULL = false;
static long kstart[32];
static bool monitor_bad = false; static std::string monitor_msg; static uint64_t unique_ctr = 0;
static long published_prefix()	// number of tickets 0..K-1 whose push has published (lane = ticket & 1, seqP[lane] = ticket + 2 after it)
{ long k = 0; for (;; ++k) if ((long)Q->seqP[k & 1].counter < k + 2) break; return k; }
static uint64_t state_hash()
{
	uint64_t h = 1469598103934665603ULL;
	mixh(h, Q->preadP.counter); mixh(h, Q->preadC.counter);
	for (int i = 0; i < 2; ++i) { mixh(h, Q->seqP[i].counter); mixh(h, Q->seqC[i].counter); }
	for (int i = 0; i < 2; ++i) {
		ff::uSWSR_Ptr_Buffer *ub = (ff::uSWSR_Ptr_Buffer *)Q->buf[i];
		if (ub->buf_r != ub->buf_w) return 0xf000000000000000ULL + ++unique_ctr;	// segment switch: structure not captured, never merged
		ff::SWSR_Ptr_Buffer *b = ub->buf_r;
		mixh(h, b->pread); mixh(h, b->pwrite);
		for (unsigned long j = b->pread; j != b->pwrite; j = (j + 1) % b->size) mixh(h, b->buf[j] ? (uint64_t)((int *)b->buf[j] - tokens) + 1 : 0);
	}
	for (int i = 0; i < 32; ++i) mixh(h, loc_h[i]);
	for (auto& r : ops) if (r.start) { mixh(h, (uint64_t)(r.end != 0)); if (r.end) { mixh(h, (uint64_t)r.ticket + 7); mixh(h, (uint64_t)r.token + 3); mixh(h, r.ok); } }
	mixh(h, monitor_bad);
	return h;
}
struct Arg { int id; };
static void *producer(void *a)
{
	int id = ((Arg *)a)->id;
	for (int k = 0; k < NPUSH; ++k) {
		const int tok = id * 10 + k;
		VS_BOOKKEEPING_BEGIN(); my_slot = id; loc_h[id] = 1000 + k; OpRec *r = &ops[id * 8 + k]; r->thread = id; r->push = true; r->token = tok; cur = r; r->start = ++gseq; VS_BOOKKEEPING_END();
		tokens[tok] = tok;	// the element's content: written by the producer, read by the consumer that pops it (visible to ThreadSanitizer)
		const bool ok = Q->push(&tokens[tok]);
		VS_BOOKKEEPING_BEGIN(); r->ok = ok; r->end = ++gseq; cur = nullptr; loc_h[id] = 2000 + k; VS_BOOKKEEPING_END();
	}
	return 0;
}
static void *consumer(void *a)
{
	int id = ((Arg *)a)->id;
	for (int k = 0; k < NPOP; ++k) {
		VS_BOOKKEEPING_BEGIN(); my_slot = 8 + id; loc_h[8 + id] = 1000 + k; kstart[8 + id] = FULL ? published_prefix() : 0; mixh(loc_h[8 + id], (uint64_t)kstart[8 + id]);
		OpRec *r = &ops[(8 + id) * 8 + k]; r->thread = 100 + id; r->push = false; cur = r; r->start = ++gseq; VS_BOOKKEEPING_END();
		void *p = nullptr; const bool ok = Q->pop(&p);
		const int tok = ok && p ? *(int *)p : -1;	// reading the element is the consumer's business: visible to ThreadSanitizer
		VS_BOOKKEEPING_BEGIN(); r->ok = ok; r->end = ++gseq; cur = nullptr; r->token = tok; loc_h[8 + id] = 2000 + k;
		if (FULL && !ok && kstart[8 + id] > (long)Q->preadC.counter && !monitor_bad) { monitor_bad = true; monitor_msg = "pop reported empty although tickets 0.." + std::to_string(kstart[8 + id] - 1) + " were published when it started and only " + std::to_string((long)Q->preadC.counter) + " are reserved now"; }
		VS_BOOKKEEPING_END();
	}
	return 0;
}

static std::string body()
{
	Q = new ff::uMPMC_Ptr_Queue; Q->init(2, SEG);
	a_preadP = &Q->preadP; a_preadC = &Q->preadC; a_seqP0 = &Q->seqP[0]; a_seqP1 = &Q->seqP[1];
	ops.assign(16 * 8, OpRec()); publish_at.clear(); gseq = 0; memset(loc_h, 0, sizeof loc_h); memset(kstart, 0, sizeof kstart); monitor_bad = false; monitor_msg.clear(); my_slot = -1;
	pthread_t pt[8], ct[8]; Arg pa[8], ca[8];
	for (int i = 0; i < NP; ++i) { pa[i].id = i; pthread_create(&pt[i], 0, producer, &pa[i]); }
	for (int i = 0; i < NC; ++i) { ca[i].id = i; pthread_create(&ct[i], 0, consumer, &ca[i]); }
	for (int i = 0; i < NP; ++i) pthread_join(pt[i], 0);
	for (int i = 0; i < NC; ++i) pthread_join(ct[i], 0);
	// drain what is left, single threaded (every pushed element must be poppable exactly once)
	std::vector<int> drained; void *p;
	while (Q->pop(&p)) drained.push_back(*(int *)p);
	// ---- oracle
	std::map<long, int> pushed_by_ticket; std::map<long, int> popped_by_ticket; std::multiset<int> pushed, popped;
	std::string verdict, outcome;
	for (auto& r : ops) {
		if (r.thread == 0 && !r.push && r.start == 0) continue;
		if (r.start == 0) continue;
		if (r.push) { if (!r.ok) verdict = "push-failed|push returned false"; pushed.insert(r.token); if (pushed_by_ticket.count(r.ticket)) verdict = "ticket-unique|two pushes hold ticket " + std::to_string(r.ticket); pushed_by_ticket[r.ticket] = r.token; }
		else if (r.ok) { popped.insert(r.token); if (popped_by_ticket.count(r.ticket)) verdict = "ticket-unique|two pops hold ticket " + std::to_string(r.ticket); popped_by_ticket[r.ticket] = r.token; outcome += std::to_string(r.token) + ","; }
		else outcome += "e,";
	}
	// exactly once: concurrent pops + drain = pushes
	std::multiset<int> all(popped); for (int d : drained) all.insert(d);
	if (verdict.empty() && all != pushed) { verdict = "exactly-once|popped multiset differs from pushed multiset: popped"; for (int x : all) verdict += " " + std::to_string(x); }
	// order: the pop holding ticket k returns the element of the push holding ticket k
	if (verdict.empty()) for (auto& kv : popped_by_ticket) { auto it = pushed_by_ticket.find(kv.first); if (it == pushed_by_ticket.end() || it->second != kv.second) { verdict = "reservation-order|pop with ticket " + std::to_string(kv.first) + " returned " + std::to_string(kv.second) + ", the push with that ticket carried " + (it == pushed_by_ticket.end() ? std::string("nothing") : std::to_string(it->second)); break; } }
	// the drain continues in ticket order
	if (verdict.empty()) { long t = popped_by_ticket.empty() ? 0 : popped_by_ticket.rbegin()->first + 1; for (int d : drained) { auto it = pushed_by_ticket.find(t); if (it == pushed_by_ticket.end() || it->second != d) { verdict = "reservation-order|drain returned " + std::to_string(d) + " at ticket " + std::to_string(t); break; } ++t; } }
	// per-producer order in the overall pop order (by ticket)
	// empty only if the push holding the ticket the pop was waiting for had not published when the pop looked
	if (verdict.empty() && FULL && monitor_bad) verdict = "empty-only-if-nothing-pushed-ahead|" + monitor_msg;
	if (verdict.empty() && !FULL) {
		long next_ticket = 0;	// pops by start order: an empty pop waits for the smallest ticket not yet consumed at that time
		std::vector<const OpRec *> pops; for (auto& r : ops) if (r.start && !r.push) pops.push_back(&r);
		std::sort(pops.begin(), pops.end(), [](const OpRec *a, const OpRec *b) { return a->observe_seq < b->observe_seq; });
		for (auto *r : pops) {
			if (r->ok) continue;
			// tickets consumed by pops whose CAS happened before this pop's observation
			long consumed = 0; for (auto *o : pops) if (o->ok && o->observe_seq < r->observe_seq) ++consumed;
			(void)next_ticket;
			// the pop examined some ticket t >= consumed' ; it is wrong only if ALL tickets it could have examined were published before it looked.
			// conservative: the ticket it examined is at most `consumed` (+ pops that reserved later cannot lower it); check ticket = number of successful pops whose CAS preceded the observation
			auto it = publish_at.find(consumed);
			if (it != publish_at.end() && it->second < r->observe_seq) {
				// a successful pop that reserved that ticket after this observation does not excuse the empty answer
				verdict = "empty-only-if-nothing-pushed-ahead|pop reported empty at " + std::to_string(r->observe_seq) + " although the push with ticket " + std::to_string(consumed) + " had published at " + std::to_string(it->second);
				break;
			}
		}
	}
	// an empty answer is also wrong, whatever the pop looked at, if tickets 0..K-1 had all been published before the pop started
	// and fewer than K pops had reserved a ticket by the time it returned: the element with ticket #reservations was there all along
	if (verdict.empty() && !FULL) {
		for (auto& r : ops) {
			if (!r.start || r.push || r.ok) continue;
			long K = 0; while (publish_at.count(K) && publish_at[K] < r.start) ++K;
			long rsv = 0; for (auto& o : ops) if (o.start && !o.push && o.ok && o.cas_at >= 0 && o.cas_at < r.end) ++rsv;
			if (K > rsv) { verdict = "empty-only-if-nothing-pushed-ahead|pop (" + std::to_string(r.start) + ".." + std::to_string(r.end) + ") reported empty although tickets 0.." + std::to_string(K - 1) + " were published before it started and only " + std::to_string(rsv) + " had been reserved when it returned"; break; }
		}
	}
	delete Q;
	return (verdict.empty() ? "OK|" : "BAD|" + verdict + "|") + outcome;
}

int main(int argc, char **argv)
{
	vh::Run R(argc, argv);
	NP = (int)R.args.num("p", 2); NPUSH = (int)R.args.num("pushes", 2); NC = (int)R.args.num("c", 1); NPOP = (int)R.args.num("pops", 4);
	FULL = R.args.num("full", 0) != 0; SEG = (int)R.args.num("seg", 4);
	const int bound = FULL ? 1000 : (int)R.args.num("bound", 2);
	if (FULL) vs_set_state_hash(state_hash);
	const std::string cfg = "p" + std::to_string(NP) + "x" + std::to_string(NPUSH) + "c" + std::to_string(NC) + "x" + std::to_string(NPOP);
	std::set<std::string> distinct;
	auto judge = [&](const sx::Exec& x, const std::string& id) {
		std::vector<std::string> tags { "cfg:" + cfg };
		if (x.end != "OK") { R.outcome(x.end); R.viol(x.end == "DEADLOCK" || x.end == "LIVELOCK" || x.end == "STEPLIMIT" || x.end == "HANG" ? "operations-complete" : "memory-safe-and-total", "schedule-ends:" + x.end.substr(0, x.end.find(':')), tags, id, x.end + " " + x.err.substr(0, 300), "all operations complete"); return; }
		size_t a = x.outcome.find('|'); std::string v = x.outcome.substr(0, a);
		if (v != "OK") { size_t b = x.outcome.find('|', a + 1), c = x.outcome.find('|', b + 1); R.outcome("bad"); R.viol(x.outcome.substr(a + 1, b - a - 1), "queue-oracle-failed", tags, id, x.outcome.substr(b + 1, c - b - 1), "reference multiset/ticket order"); return; }
		distinct.insert(x.outcome); R.outcome("ok");
		if (R.samples_emitted < 2 && x.preemptions() == 2) R.sample(id, "pop results in program order per consumer: " + x.outcome.substr(a + 1) + " (" + std::to_string(x.pts.size()) + " scheduling points)");
	};
	if (R.single) {
		size_t sc = R.single_case.find(';'); std::vector<int> pre = sx::parse_choices(R.single_case.substr(sc + 1));
		R.begin_case(R.single_case); sx::Exec x = sx::run_once(body, pre); judge(x, R.single_case);
		fprintf(stderr, "schedule %s: end=%s outcome=%s points=%zu preemptions=%d\n", R.single_case.c_str(), x.end.c_str(), x.outcome.c_str(), x.pts.size(), x.preemptions());
		for (auto& p : x.pts) if (p.n > 1 || R.args.has("trace")) fprintf(stderr, "  point: %d enabled, thread %d at line %d, chose %d\n", p.n, p.thread, p.tag, p.choice);
		R.finish(); return R.violations ? 1 : 0;
	}
	sx::Stats S;
	sx::explore(R, cfg, body, judge, bound, S, FULL);
	if (FULL) R.counters["states_cut"] = S.pruned;
	R.counters["bound_completed"] = S.bound_completed; R.counters["max_points"] = S.maxpts; R.counters["distinct_outcomes"] = (long long)distinct.size();
	R.traces = S.execs;
	R.finish(!S.capped);
	return 0;
}
