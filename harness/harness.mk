# harness registry for the Makefile.  One fragment per harness in harness/mk/<name>.mk:
#   HARNESSES += <name>
#   HARNESS_<name> := <extra objects relative to $(B)/<variant>/, e.g. gen_utest.o eng/sim/sim.o>
#   LDX_<name>     := <extra link flags>           (optional)
HARNESSES :=
include $(wildcard $(V)/harness/mk/*.mk)
