# harness registry for the Makefile: name -> extra objects (relative to $(B)/<variant>/)
HARNESSES := c07_chksum
HARNESS_c07_chksum :=
ALL_BINS := $(B)/san/bin/c07_chksum
