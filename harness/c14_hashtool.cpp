// c14_hashtool — the compiler's structural group hash, re-implemented over the real FIX8::rothash (include/fix8/f8utils.hpp),
// exactly as compiler/f8c.cpp group_hash folds it: first over the member field numbers of the group in ascending field
// number order (FieldTraits keeps its Presence set sorted by field number; count fields of nested groups are members
// too), then over the hashes of the nested groups in ascending order of their count field number (GroupMap is a std::map).
// The re-implementation is cross-checked against f8c itself: f8c prints every group's hash into the generated
// *_classes.hpp ("hash: 0x..."), vp/checks/c14.py compares those with what this tool computes for the same definitions.
//
//   c14_hashtool hash                 reads definitions from stdin, one per line ("5001 5002 5201{5003 5004}"), prints hex hashes
//   c14_hashtool search <size> <bands> <max>
//                                     exhaustive search for colliding member sets of that size (2 or 3) whose tags all lie
//                                     in the given bands ("lo-hi,lo-hi", hi exclusive); every set is hashed with the real
//                                     function; prints up to <max> colliding pairs "a,b|c,d", ordered by (largest tag of
//                                     the pair, then lexicographically), and the totals on the last line
#include <string>
#include <vector>
#include <map>
#include <set>
#include <algorithm>
#include <iostream>
#include <sstream>
#include <cstdio>
#include <cstdlib>
#include <cstdint>
#include <cstring>
#include <array>
#include <fix8/f8includes.hpp>	// rothash lives in f8utils.hpp, which is not self-contained

struct Def { std::vector<unsigned> tags; std::map<unsigned, Def> nested; };

static const char *parse(const char *p, Def& d)
{
	for (;;) {
		while (*p == ' ') ++p;
		if (!*p || *p == '}') return p;
		char *e; unsigned t = strtoul(p, &e, 10); p = e;
		d.tags.push_back(t);
		if (*p == '{') { p = parse(p + 1, d.nested[t]); if (*p == '}') ++p; }
	}
}
static uint32_t group_hash(const Def& d)
{
	std::vector<unsigned> t(d.tags); std::sort(t.begin(), t.end());
	uint32_t r = 0;
	for (unsigned x : t) r = FIX8::rothash(r, x);
	for (auto& n : d.nested) r = FIX8::rothash(r, group_hash(n.second));
	return r;
}

int main(int argc, char **argv)
{
	if (argc >= 2 && !strcmp(argv[1], "hash")) {
		std::string line;
		while (std::getline(std::cin, line)) { Def d; parse(line.c_str(), d); printf("%x\n", group_hash(d)); }
		return 0;
	}
	if (argc >= 5 && !strcmp(argv[1], "search")) {
		const int size = atoi(argv[2]); const size_t maxout = strtoul(argv[4], 0, 10);
		std::vector<unsigned> U;
		{ std::istringstream is(argv[3]); std::string b; while (std::getline(is, b, ',')) { unsigned lo, hi; if (sscanf(b.c_str(), "%u-%u", &lo, &hi) == 2) for (unsigned t = lo; t < hi; ++t) U.push_back(t); } }
		std::sort(U.begin(), U.end()); U.erase(std::unique(U.begin(), U.end()), U.end());
		const size_t n = U.size();
		// passes over the whole space, each keeping the sets whose hash falls into one slice (bounded memory);
		// a set is identified by its running number in the (fixed) enumeration order
		unsigned long long sets = 0, colliding_pairs = 0;
		struct Pair { unsigned t[6]; };
		std::vector<Pair> found;
		const unsigned slices = size == 2 ? (n > 3000 ? 8 : 1) : (n > 400 ? 64 : 1);
		if (n > 65535) { fprintf(stderr, "universe too large\n"); return 2; }
		auto decode2 = [&](uint64_t key, unsigned *t) { t[0] = U[(key >> 16) & 0xffff]; t[1] = U[key & 0xffff]; t[2] = 0; };
		std::vector<std::array<unsigned short, 3>> triples;
		for (unsigned sl = 0; sl < slices; ++sl) {
			std::vector<uint64_t> v;	// hash << 32 | (i << 16 | j)  resp.  hash << 32 | index into triples
			v.reserve(size == 2 ? n * (n - 1) / 2 / slices + n : 1024);
			triples.clear();
			for (size_t i = 0; i < n; ++i) {
				const uint32_t h1 = FIX8::rothash(0, U[i]);
				for (size_t j = i + 1; j < n; ++j) {
					const uint32_t h2 = FIX8::rothash(h1, U[j]);
					if (size == 2) { if (h2 % slices == sl) v.push_back((uint64_t)h2 << 32 | i << 16 | j); continue; }
					for (size_t k = j + 1; k < n; ++k) {
						const uint32_t h3 = FIX8::rothash(h2, U[k]);
						if (h3 % slices == sl) { v.push_back((uint64_t)h3 << 32 | triples.size()); triples.push_back({ (unsigned short)i, (unsigned short)j, (unsigned short)k }); }
					}
				}
			}
			sets += v.size();
			std::sort(v.begin(), v.end());
			auto decode = [&](uint64_t key, unsigned *t) {
				if (size == 2) { decode2(key, t); return; }
				auto& tr = triples[key & 0xffffffffu]; t[0] = U[tr[0]]; t[1] = U[tr[1]]; t[2] = U[tr[2]];
			};
			for (size_t i = 0; i < v.size(); ) {
				size_t j = i; while (j < v.size() && (v[j] >> 32) == (v[i] >> 32)) ++j;
				for (size_t x = i; x < j; ++x) for (size_t y = x + 1; y < j; ++y) {
					++colliding_pairs;
					if (found.size() < 2000000) { Pair p; decode(v[x], p.t); decode(v[y], p.t + 3); found.push_back(p); }
				}
				i = j;
			}
		}
		auto mx = [&](const Pair& p) { unsigned m = 0; for (int i = 0; i < 6; ++i) m = std::max(m, p.t[i]); return m; };
		std::sort(found.begin(), found.end(), [&](const Pair& x, const Pair& y) { unsigned a = mx(x), b = mx(y); if (a != b) return a < b; return memcmp(x.t, y.t, sizeof x.t) < 0; });
		for (size_t i = 0; i < found.size() && i < maxout; ++i) {
			const Pair& p = found[i];
			if (size == 2) printf("%u,%u|%u,%u\n", p.t[0], p.t[1], p.t[3], p.t[4]);
			else printf("%u,%u,%u|%u,%u,%u\n", p.t[0], p.t[1], p.t[2], p.t[3], p.t[4], p.t[5]);
		}
		printf("# size=%d universe=%zu sets=%llu colliding_pairs=%llu\n", size, n, sets, colliding_pairs);
		return 0;
	}
	fprintf(stderr, "usage: c14_hashtool hash | search <size> <bands> <max>\n");
	return 2;
}
