// C10 — enumerated-value lookups describe only the actual value.
// For every field with a realm (enumerated domain) in the compiled schemas FIX42UTEST (namespace UTEST) and FIX44 (F44)
// and for every value of a stated per-type lattice, the real RealmBase::get_rlm_idx / is_valid / _descriptions and the real
// printer (MessageBase::print, print_field) are run and judged against the independent schema model (vp/schema_model.py):
//   idx >= 0  <=> the value is a member (range realms: lower <= v <= upper); _descriptions[idx] is a description the schema
//   gives for exactly that value; get_rlm_val(idx) == value; is_valid <=> member; the printed field carries a description
//   <=> member, and then that value's description.
// The lookups are reached three ways: directly on the RealmBase of the generated metadata (ctx.find_be(tag)->_rlm), through
// a Field<T,1> object carrying that realm pointer (is_valid() is not virtual, so a field of the same base type is used) and
// through the generated field object made by BaseEntry::_create._do(text, rlm, -1) (virtual get_rlm_idx(), printer).
// args: spaces=utest,fix44,syn strlen=L intpad=P synstrlen=L   (syn = hand-built realms: ranges, float set; the two
// compiled schemas contain neither a range realm nor a float realm, the template code is the same)
#include <fix8/f8includes.hpp>
#include "utest_types.hpp"
#include "utest_router.hpp"
#include "utest_classes.hpp"
#include "fix44_types.hpp"
#include "fix44_router.hpp"
#include "fix44_classes.hpp"
#include "explore/schema.hpp"
#include <climits>
#include <cfloat>
#include <cmath>
#include <memory>
#include <tuple>
using namespace FIX8;

static vh::Run *RR;
// the sanitizer allocator handing pages back to the kernel costs more system time than the enumeration itself
extern "C" const char *__asan_default_options() { return "allocator_release_to_os_interval_ms=-1"; }
static bool g_verbose = false;

// ------------------------------------------------------------------------------------------------ typed helpers
template<class T> struct TY;
template<> struct TY<int> { static const char *name() { return "int"; } static std::string show(int v) { return std::to_string(v); } };
template<> struct TY<char> { static const char *name() { return "char"; }
	static std::string show(char v) { char b[16]; unsigned char c = (unsigned char)v; if (c >= 0x21 && c < 0x7f) snprintf(b, sizeof b, "'%c'", c); else snprintf(b, sizeof b, "0x%02x", c); return b; } };
template<> struct TY<double> { static const char *name() { return "float"; } static std::string show(double v) { char b[64]; snprintf(b, sizeof b, "%.17g", v); return b; } };
template<> struct TY<f8String> { static const char *name() { return "string"; } static std::string show(const f8String& v) { return "\"" + vh::show(v) + "\""; } };

// the oracle's view of a domain, built from the schema model (or from the synthetic definition)
template<class T>
struct Dom {
	bool range = false;
	std::map<T, std::set<std::string>> members;	// value -> descriptions the schema gives for that value
	T lo{}, hi{};									// range realms
	std::set<T> truncated;							// CHAR fields: first characters of multi-character enum texts of the schema (f8c keeps the first character)
	bool member(const T& v) const { return range ? !(v < lo) && !(hi < v) : members.count(v) != 0; }
	// descriptions acceptable for v (nullptr = interior of a range: no description belongs to exactly that value, not judged)
	const std::set<std::string> *descs(const T& v) const { auto i = members.find(v); return i == members.end() ? nullptr : &i->second; }
	std::string where(const T& v) const
	{
		if (range) return v < lo ? "below_lower" : hi < v ? "above_upper" : !(lo < v) ? "at_lower" : !(v < hi) ? "at_upper" : "inside_range";
		if (members.count(v)) return "member";
		if (members.empty()) return "empty_domain";
		if (v < members.begin()->first) return "below_smallest_member";
		if (members.rbegin()->first < v) return "above_largest_member";
		return "between_members";
	}
};

struct FieldCase {
	std::string schema; int tag = 0; std::string name;
	const RealmBase *rlm = nullptr; const BaseEntry *be = nullptr;
	bool boolean = false, synthetic = false;
	MessageBase *container = nullptr; std::string container_desc;
};

static std::string stream_of(const BaseField *bf) { std::ostringstream os; bf->print(os); return os.str(); }

template<class T>
struct Judge {
	const FieldCase& fc; const Dom<T>& dom; std::string id; bool any = false;
	std::vector<std::string> tags(const T& v, const char *src) const
	{
		std::vector<std::string> t { std::string("realm:") + (dom.range ? "range" : "set"), std::string("type:") + (fc.boolean ? "bool" : TY<T>::name()),
			"value:" + dom.where(v), std::string("src:") + src };
		if (fc.synthetic) t.push_back("synthetic");
		if (!dom.member(v) && dom.truncated.count(v)) t.push_back("char_is_first_of_multichar_enum");
		return t;
	}
	// the unrepaired tree violates the property for most non-members on five access paths each: after the first few of a class
	// (clause, mode, position of the value, access path) only the count is kept and no report text is built
	bool want(const char *clause, const char *mode, const T& v, const char *src)
	{
		static std::map<std::tuple<const void *, const void *, std::string, const void *, const void *>, long> seen;
		long& n = seen[std::make_tuple((const void *)clause, (const void *)mode, dom.where(v) + (dom.truncated.count(v) ? "+t" : ""), (const void *)src, (const void *)&dom)];
		if (++n <= 2 || RR->single) return true;
		any = true; ++RR->violations; ++RR->counters["violations-not-printed"];
		return false;
	}
	void viol(const char *clause, const char *mode, const T& v, const char *src, const std::string& obs, const std::string& exp)
	{
		any = true;
		RR->viol(clause, mode, tags(v, src), id, obs, exp, fc.schema + " " + fc.name + "(" + std::to_string(fc.tag) + ") value " + TY<T>::show(v) + " via " + src);
		if (g_verbose) fprintf(stderr, "  VIOLATED %s/%s via %s: observed %s, expected %s\n", clause, mode, src, obs.c_str(), exp.c_str());
	}
	// idx as reported by one of the access paths for value v
	void index(const T& v, int idx, const char *src)
	{
		const RealmBase *r = fc.rlm; const bool mem = dom.member(v);
		if (g_verbose) fprintf(stderr, "  %-6s get_rlm_idx(%s) = %d%s%s   [oracle: %s]\n", src, TY<T>::show(v).c_str(), idx, idx >= 0 && idx < r->_sz ? " -> " : "",
			idx >= 0 && idx < r->_sz ? r->_descriptions[idx] : "", mem ? "member" : "not a member");
		if (!mem) {
			if (idx >= 0 && want("index-only-for-members", "nonmember-gets-index", v, src)) viol("index-only-for-members", "nonmember-gets-index", v, src,
				"idx=" + std::to_string(idx) + (idx < r->_sz ? std::string(" description '") + r->_descriptions[idx] + "'" : std::string(" (outside the table)")), "idx=-1 (" + TY<T>::show(v) + " is not in the domain)");
			return;
		}
		if (idx < 0) { viol("member-has-index", "member-not-found", v, src, "idx=" + std::to_string(idx), "index of " + TY<T>::show(v)); return; }
		if (idx >= r->_sz) { viol("index-in-table", "index-outside-table", v, src, "idx=" + std::to_string(idx), "idx < " + std::to_string(r->_sz)); return; }
		if (!dom.range && !(r->get_rlm_val<T>(idx) == v)) { viol("index-is-that-value", "index-of-other-value", v, src, "idx=" + std::to_string(idx) + " holds " + TY<T>::show(r->get_rlm_val<T>(idx)), TY<T>::show(v)); return; }
		const std::set<std::string> *d = dom.descs(v);
		if (d && !d->count(r->_descriptions[idx])) viol("description-is-that-values", "description-of-other-value", v, src, std::string("'") + r->_descriptions[idx] + "'", "'" + *d->begin() + "'");
	}
	void valid(const T& v, bool got, const char *src)
	{
		const bool mem = dom.member(v);
		if (g_verbose) fprintf(stderr, "  %-6s is_valid(%s) = %d   [oracle: %d]\n", src, TY<T>::show(v).c_str(), got, mem);
		if (got != mem && want("valid-iff-member", got ? "nonmember-valid" : "member-invalid", v, src)) viol("valid-iff-member", got ? "nonmember-valid" : "member-invalid", v, src, got ? "true" : "false", mem ? "true" : "false");
	}
	// printed form: `rest` is what the printer put after "Name (tag): "
	void printed(const T& v, const std::string& rest, const std::string& valtext, const char *src)
	{
		const bool mem = dom.member(v);
		const std::string shown = rest.substr(0, rest.find('\n', valtext.size()));	// Message::print goes on with other lines: not part of the report
		if (g_verbose) fprintf(stderr, "  %-6s prints '%s'\n", src, vh::show(shown).c_str());
		// print_field ends after the field; Message::print goes on with a newline and further lines
		auto is = [&](const std::string& want) { return rest == want || (rest.size() > want.size() && rest.compare(0, want.size(), want) == 0 && rest[want.size()] == '\n'); };
		if (!mem) { if (!is(valtext) && want("print-describes-only-members", "nonmember-printed-with-description", v, src)) viol("print-describes-only-members", "nonmember-printed-with-description", v, src, "'" + vh::show(shown) + "'", "'" + vh::show(valtext) + "' (no description)"); return; }
		const std::set<std::string> *d = dom.descs(v);
		if (!d) return;
		bool ok = false; for (auto& x : *d) if (is(x + " (" + valtext + ")")) ok = true;
		if (!ok) viol("print-describes-that-value", is(valtext) ? "member-printed-without-description" : "member-printed-with-other-description", v, src, "'" + vh::show(shown) + "'", "'" + *d->begin() + " (" + vh::show(valtext) + ")'");
	}
};

template<class T, class F> struct Mk { static F *make(const T& v, const RealmBase *r) { return new F(v, r); } };

// run every access path for one value.  `text` = what the metadata constructor is given (empty optional for synthetic)
template<class T, class TF>
static void check_value(const FieldCase& fc, const Dom<T>& dom, const T& v, const std::string& text, const std::string& id)
{
	Judge<T> J{ fc, dom, id };
	const RealmBase *r = fc.rlm;
	const bool mem = dom.member(v);
	// 1. the RealmBase itself
	J.index(v, r->get_rlm_idx<T>(v), "realm");
	J.valid(v, r->is_valid<T>(v), "realm");
	// 2. a field object of the same base type carrying this realm
	if (!fc.boolean) {
		TF tf(v, r);
		J.index(v, tf.get_rlm_idx(), "field");
		J.valid(v, tf.is_valid(), "field");
		// 2b. a field object that held another value (a member of the domain) and was described with it, then given this
		// value by assignment and by set(): what it reports must belong to the value it holds now
		const T other = dom.range ? dom.lo : (dom.members.empty() ? v : (dom.members.begin()->first == v && dom.members.size() > 1 ? dom.members.rbegin()->first : dom.members.begin()->first));
		TF held(other, r);
		(void)held.get_rlm_idx(); (void)held.is_valid();
		held = tf;
		J.index(v, held.get_rlm_idx(), "assign");
		J.valid(v, held.is_valid(), "assign");
		TF held2(other, r);
		(void)held2.get_rlm_idx();
		held2.set(v);
		J.index(v, held2.get_rlm_idx(), "set");
	}
	T fv = v;	// the value the generated field object holds (Boolean collapses its input to Y/N)
	if constexpr (std::is_same<T, char>::value) {
		if (fc.boolean) {
			fv = toupper(v) == 'Y' ? 'Y' : 'N';	// what Field<Boolean> keeps of its input
			Field<Boolean, 1> bfld(v, r);
			J.index(fv, bfld.get_rlm_idx(), "field");
		}
	}
	// 3. the generated field through the metadata constructor, and the printer
	if (fc.be) {
		std::unique_ptr<BaseField> bf(fc.be->_create._do(text.c_str(), fc.be->_rlm, -1));
		const std::string valtext = stream_of(bf.get());
		bool carried = true;
		if (std::is_same<T, int>::value && valtext != text) carried = false;	// the text constructor did not yield the intended int (C08's business)
		if (!carried) RR->outcome("meta-constructor-did-not-carry-value");
		else {
			if (bf->get_realm() != r) J.viol("index-only-for-members", "field-lost-its-realm", fv, "meta", "realm pointer differs", "the field's realm");
			J.index(fv, bf->get_rlm_idx(), "meta");
			if (fc.container) {
				MessageBase *mb = fc.container;
				BaseField *raw = bf.release();
				mb->add_field(raw);	// replaces (and deletes) the previous value of this tag
				const std::string key = " (" + std::to_string(fc.tag) + "): ";
				for (int which = 0; which < 2; ++which) {
					std::ostringstream os; std::string out;
					try { if (which == 0) mb->print_field((unsigned short)fc.tag, os); else mb->print(os, 0); out = os.str(); }
					catch (const std::exception& e) { RR->outcome(std::string(which ? "print" : "print_field") + "-threw"); if (g_verbose) fprintf(stderr, "  %s threw %s\n", which ? "print" : "print_field", e.what()); continue; }
					size_t p = out.find(key);
					if (p == std::string::npos) { J.viol("print-describes-that-value", "field-not-printed", fv, which ? "print" : "prfld", "'" + vh::show(out).substr(0, 80) + "'", "a line for tag " + std::to_string(fc.tag)); continue; }
					std::string rest = out.substr(p + key.size());
					if (rest.size() > valtext.size() + 120) rest.resize(valtext.size() + 120);	// the rest of a whole-message print is not needed
					J.printed(fv, rest, valtext, which ? "print" : "prfld");
				}
			}
		}
	}
	RR->outcome(fc.schema + ":" + std::string(mem ? "member" : "nonmember:" + dom.where(v)) + (J.any ? ":VIOLATED" : mem ? ":described" : ":plain"));
	if (mem || dom.where(v) == "between_members" || dom.where(v) == "below_smallest_member" || dom.range) ++RR->nontrivial;
}

// ------------------------------------------------------------------------------------------------ value spaces
struct Space {
	// strings: all strings of length <= L over `alpha` (odometer), then for every member its near misses (built on demand);
	// other types: an explicit list.  A unit is what one shard takes at a time.
	static const size_t CH = 4096;
	std::string alpha; int L = -1; std::vector<size_t> off;	// off[l] = first index of length l
	std::vector<std::string> list, members;
	size_t nodo = 0;
	void set_odometer(const std::string& a, int len)
	{ alpha = a; L = len; off.clear(); size_t n = 0, p = 1; for (int l = 0; l <= L; ++l) { off.push_back(n); n += p; p *= alpha.size(); } nodo = n; }
	std::string odo(size_t i) const
	{
		int l = L; while (off[l] > i) --l;
		size_t k = i - off[l]; std::string s(l, ' ');
		for (int p = l - 1; p >= 0; --p) { s[p] = alpha[k % alpha.size()]; k /= alpha.size(); }
		return s;
	}
	size_t odo_units() const { return (nodo + CH - 1) / CH; }
	size_t list_units() const { return (list.size() + CH - 1) / CH; }
	size_t units() const { return odo_units() + list_units() + members.size(); }
	void values(size_t u, std::vector<std::string>& out) const
	{
		out.clear();
		if (u < odo_units()) { for (size_t i = u * CH; i < std::min(nodo, (u + 1) * CH); ++i) out.push_back(odo(i)); return; }
		u -= odo_units();
		if (u < list_units()) { for (size_t i = u * CH; i < std::min(list.size(), (u + 1) * CH); ++i) out.push_back(list[i]); return; }
		u -= list_units();
		// the member itself and the member with one character removed / replaced / inserted at every position
		const std::string& m = members[u]; std::set<std::string> o { m };
		for (size_t i = 0; i < m.size(); ++i) { std::string d = m; d.erase(i, 1); o.insert(d); }
		for (size_t i = 0; i < m.size(); ++i) for (char c : alpha) { std::string d = m; d[i] = c; o.insert(d); }
		for (size_t i = 0; i <= m.size(); ++i) for (char c : alpha) { std::string d = m; d.insert(i, 1, c); o.insert(d); }
		out.assign(o.begin(), o.end());
	}
};

static void int_space(Space& sp, const std::vector<long>& mem, long pad, bool thorough)
{
	std::set<long> v { INT_MIN, -1, 0, INT_MAX, (long)INT_MIN + 1, (long)INT_MAX - 1 };
	long lo = *std::min_element(mem.begin(), mem.end()), hi = *std::max_element(mem.begin(), mem.end());
	for (long x = lo - pad; x <= hi + pad; ++x) if (x >= INT_MIN && x <= INT_MAX) v.insert(x);
	if (thorough) for (int b = 0; b < 31; ++b) for (long d = -1; d <= 1; ++d) { v.insert((1L << b) + d); v.insert(-(1L << b) + d); }
	for (long x : v) sp.list.push_back(std::to_string(x));
}
// ------------------------------------------------------------------------------------------------ containers for the printer
// first place in the schema model where `tag` occurs: header / trailer / message body, possibly inside (nested) groups
static bool find_path(const std::vector<sm::Member>& ms, int tag, std::vector<int>& path)
{
	for (auto& m : ms) if (m.tag == tag) return true;
	for (auto& m : ms) if (m.group) { path.push_back(m.tag); if (find_path(m.kids, tag, path)) return true; path.pop_back(); }
	return false;
}
struct Container { std::unique_ptr<Message> msg; std::vector<std::unique_ptr<MessageBase>> elems; MessageBase *mb = nullptr; std::string desc; };
static void make_container(const F8MetaCntx& ctx, const sm::Schema& S, int tag, Container& c)
{
	std::vector<int> path; int where = -1; size_t mi = 0;	// where: 0 header, 1 trailer, 2 body
	if (find_path(S.header, tag, path)) where = 0;
	else if (find_path(S.trailer, tag, path)) where = 1;
	else for (mi = 0; mi < S.msgs.size(); ++mi) { path.clear(); if (find_path(S.msgs[mi].members, tag, path)) { where = 2; break; } }
	if (where < 0) return;
	const std::string mt = where == 2 ? S.msgs[mi].msgtype : S.msgs[0].msgtype;
	c.msg.reset(ctx.create_msg(mt.c_str()));
	if (!c.msg) return;
	MessageBase *mb = where == 0 ? c.msg->Header() : where == 1 ? c.msg->Trailer() : c.msg.get();
	c.desc = where == 0 ? "header" : where == 1 ? "trailer" : S.msgs[mi].name;
	GroupBase *parent = nullptr;
	for (int g : path) {
		GroupBase *gb = mb->find_add_group((unsigned short)g, parent);
		if (!gb) { c.mb = nullptr; return; }
		c.elems.emplace_back(gb->create_group(true));	// kept standalone: printing one element is what is judged
		mb = c.elems.back().get(); parent = gb; c.desc += "/" + std::to_string(g);
	}
	c.mb = mb;
}

// ------------------------------------------------------------------------------------------------ one schema field
struct SchemaField {
	FieldCase fc; Space sp; Container cont;
	int kind = -1;	// 0 int 1 char 2 float 3 string
	Dom<int> di; Dom<char> dc; Dom<double> dd; Dom<f8String> ds;
};

static bool clean_int(const std::string& s, long& out)
{ char *e; errno = 0; out = strtol(s.c_str(), &e, 10); return !s.empty() && *e == 0 && !errno && out >= INT_MIN && out <= INT_MAX; }

static bool setup_field(SchemaField& sf, const std::string& schema, const F8MetaCntx& ctx, const sm::Schema& S, const sm::FieldDef& f, int strl, long intpad, bool thorough, bool want_container)
{
	sf.fc.schema = schema; sf.fc.tag = f.num; sf.fc.name = f.name;
	sf.fc.be = ctx.find_be((unsigned short)f.num);
	if (!sf.fc.be) return false;
	sf.fc.rlm = sf.fc.be->_rlm;
	if (!sf.fc.rlm) return false;
	const sm::VClass vc = f.vclass();
	sf.fc.boolean = vc == sm::V_BOOL;
	const bool range = f.realm == 2;
	auto lohi = [&](auto& dom, auto conv) {
		dom.range = range; bool havelo = false, havehi = false;
		for (auto& v : f.vals) {
			typename std::decay<decltype(dom.lo)>::type x; if (!conv(v.value, x)) continue;
			dom.members[x].insert(v.desc);
			if (v.range == 1) { dom.lo = x; havelo = true; } else if (v.range == 2) { dom.hi = x; havehi = true; }
		}
		if (range && !(havelo && havehi) && dom.members.size() >= 2) { dom.lo = dom.members.begin()->first; dom.hi = dom.members.rbegin()->first; }
	};
	if (vc == sm::V_INT) {
		sf.kind = 0; std::vector<long> mem;
		lohi(sf.di, [&](const std::string& s, int& x) { long l; if (!clean_int(s, l)) return false; x = (int)l; mem.push_back(l); return true; });
		int_space(sf.sp, mem, intpad, thorough);
	} else if (vc == sm::V_CHAR || vc == sm::V_BOOL) {
		sf.kind = 1;
		// a CHAR field holds one character: a multi-character enum text of the schema is not a value of the field's type
		lohi(sf.dc, [&](const std::string& s, char& x) { if (s.size() != 1) { if (!s.empty()) sf.dc.truncated.insert(s[0]); return false; } x = s[0]; return true; });
		for (int c = 0; c < 256; ++c) sf.sp.list.push_back(std::string(1, (char)c));	// "\0" -> constructor text "" (value NUL)
	} else if (vc == sm::V_FLOAT) {
		sf.kind = 2; std::vector<double> mem;
		lohi(sf.dd, [&](const std::string& s, double& x) { char *e; x = strtod(s.c_str(), &e); mem.push_back(x); return *e == 0 && !s.empty(); });
		for (double m : mem) for (double x : { m, nextafter(m, -INFINITY), nextafter(m, INFINITY) }) { char b[64]; snprintf(b, sizeof b, "%.17g", x); sf.sp.list.push_back(b); }
	} else if (vc == sm::V_STRING) {
		sf.kind = 3; std::vector<std::string> mem; std::set<char> al { '0', 'A', 'a', '~' };
		lohi(sf.ds, [&](const std::string& s, f8String& x) { x = s; mem.push_back(s); return true; });
		for (auto& m : mem) for (char c : m) al.insert(c);
		if (f.type.find("MULTIPLE") != std::string::npos) al.insert(' ');	// "A B": several members in one value is not a member
		std::string alpha(al.begin(), al.end());
		sf.sp.set_odometer(alpha, strl);
		sf.sp.members = mem;
	} else return false;
	const FieldTrait::FieldType rt = sf.fc.rlm->_ftype;
	const int rk = FieldTrait::is_int(rt) ? 0 : FieldTrait::is_char(rt) ? 1 : FieldTrait::is_float(rt) ? 2 : FieldTrait::is_string(rt) ? 3 : -1;
	if (rk != sf.kind) { fprintf(stderr, "c10: %s field %d: model type class %d, realm type class %d\n", schema.c_str(), f.num, sf.kind, rk); exit(2); }
	if (want_container) { make_container(ctx, S, f.num, sf.cont); sf.fc.container = sf.cont.mb; sf.fc.container_desc = sf.cont.desc; }
	return true;
}

static void run_value(SchemaField& sf, const std::string& text, const std::string& id)
{
	switch (sf.kind) {
	case 0: { long l; clean_int(text, l); check_value<int, Field<int, 1>>(sf.fc, sf.di, (int)l, text, id); break; }
	case 1: check_value<char, Field<char, 1>>(sf.fc, sf.dc, text.empty() ? '\0' : text[0], text, id); break;
	case 2: check_value<double, Field<fp_type, 1>>(sf.fc, sf.dd, strtod(text.c_str(), 0), text, id); break;
	case 3: check_value<f8String, Field<f8String, 1>>(sf.fc, sf.ds, text, text, id); break;
	}
}

// ------------------------------------------------------------------------------------------------ synthetic realms
// laid out the way f8c lays out generated realms: values ascending by operator<, descriptions in the same order,
// a range realm = { lower, upper }
static const int syn_ir[] { 10, 20 };			static const char *syn_ir_d[] { "TenLower", "TwentyUpper" };
static const int syn_ir1[] { -3, -3 };			static const char *syn_ir1_d[] { "OnlyLower", "OnlyUpper" };
static const int syn_is[] { -7, 0, 3, 1000 };	static const char *syn_is_d[] { "MinusSeven", "Zero", "Three", "Thousand" };
static const char syn_cr[] { 'C', 'F' };		static const char *syn_cr_d[] { "CLower", "FUpper" };
static const char syn_cs[] { (char)0x80, (char)0xfe, '1', 'A' };	static const char *syn_cs_d[] { "HighBit80", "HighBitFE", "One", "LetterA" };
static const double syn_fr[] { 0.5, 99.5 };	static const char *syn_fr_d[] { "HalfLower", "NinetyNineAndAHalfUpper" };
static const double syn_fs[] { -1.5, 0.0, 0.1, 2.5, 1e10 };	static const char *syn_fs_d[] { "MinusOneAndAHalf", "Zero", "Tenth", "TwoAndAHalf", "TenBillion" };
static const f8String syn_sr[] { "B", "DD" };	static const char *syn_sr_d[] { "BLower", "DDUpper" };

struct Syn { const char *name; int kind; bool range; const void *vals; int n; const char **descs; FieldTrait::FieldType ft; };
static const Syn SYN[] = {
	{ "int-range-10-20", 0, true, syn_ir, 2, syn_ir_d, FieldTrait::ft_int }, { "int-range-m3-m3", 0, true, syn_ir1, 2, syn_ir1_d, FieldTrait::ft_int },
	{ "int-set", 0, false, syn_is, 4, syn_is_d, FieldTrait::ft_int },
	{ "char-range-C-F", 1, true, syn_cr, 2, syn_cr_d, FieldTrait::ft_char }, { "char-set-highbit", 1, false, syn_cs, 4, syn_cs_d, FieldTrait::ft_char },
	{ "float-range", 2, true, syn_fr, 2, syn_fr_d, FieldTrait::ft_float }, { "float-set", 2, false, syn_fs, 5, syn_fs_d, FieldTrait::ft_float },
	{ "string-range-B-DD", 3, true, syn_sr, 2, syn_sr_d, FieldTrait::ft_string },
};
struct SynField { SchemaField sf; std::unique_ptr<RealmBase> rb; };
static void setup_syn(SynField& y, const Syn& s, int strl, bool thorough)
{
	SchemaField& sf = y.sf;
	y.rb.reset(new RealmBase(s.vals, s.range ? RealmBase::dt_range : RealmBase::dt_set, s.ft, s.n, s.descs));
	sf.fc.schema = "syn"; sf.fc.name = s.name; sf.fc.tag = 1; sf.fc.rlm = y.rb.get(); sf.fc.synthetic = true; sf.kind = s.kind;
	auto fill = [&](auto& dom, auto *vals) {
		dom.range = s.range;
		for (int i = 0; i < s.n; ++i) dom.members[vals[i]].insert(s.descs[i]);
		if (s.range) { dom.lo = vals[0]; dom.hi = vals[1]; }
	};
	if (s.kind == 0) {
		fill(sf.di, (const int *)s.vals); std::vector<long> mem; for (int i = 0; i < s.n; ++i) mem.push_back(((const int *)s.vals)[i]);
		int_space(sf.sp, mem, thorough ? 300 : 3, thorough);
	} else if (s.kind == 1) {
		fill(sf.dc, (const char *)s.vals); for (int c = 0; c < 256; ++c) sf.sp.list.push_back(std::string(1, (char)c));
	} else if (s.kind == 2) {
		fill(sf.dd, (const double *)s.vals);
		std::set<double> v { 0.0, 1.0, -1.0, 50.0, INFINITY, -INFINITY, DBL_MAX, -DBL_MAX, DBL_MIN, -DBL_MIN, 5e-324 };
		const double *m = (const double *)s.vals;
		for (int i = 0; i < s.n; ++i) {
			double x = m[i]; v.insert(x);
			for (int k = 0; k < (thorough ? 64 : 2); ++k) { x = nextafter(x, INFINITY); v.insert(x); }
			x = m[i]; for (int k = 0; k < (thorough ? 64 : 2); ++k) { x = nextafter(x, -INFINITY); v.insert(x); }
			if (i + 1 < s.n) v.insert((m[i] + m[i + 1]) / 2);
		}
		for (double x : v) { char b[64]; snprintf(b, sizeof b, "%a", x); sf.sp.list.push_back(b); }
		sf.sp.list.push_back("-0x0p+0");	// negative zero: numerically equal to the member 0
	} else {
		fill(sf.ds, (const f8String *)s.vals);
		std::string alpha = "0ABCDEa~"; sf.sp.set_odometer(alpha, strl);
		for (int i = 0; i < s.n; ++i) sf.sp.members.push_back(((const f8String *)s.vals)[i]);
	}
}

// ------------------------------------------------------------------------------------------------ main
static void run_synthetic(vh::Run& R, unsigned long long& id, int strl, bool thorough)
{
	const size_t nsyn = sizeof SYN / sizeof SYN[0];
	if (R.single) {
		size_t a = R.single_case.find(':'), b = R.single_case.find(':', a + 1);
		const std::string nm = R.single_case.substr(a + 1, b - a - 1), text = vh::unhex(R.single_case.substr(b + 1));
		for (size_t i = 0; i < nsyn; ++i) if (nm == SYN[i].name) {
			SynField y; setup_syn(y, SYN[i], strl, thorough);
			fprintf(stderr, "synthetic realm %s, value text '%s'\n", SYN[i].name, vh::show(text).c_str());
			R.begin_case(R.single_case); run_value(y.sf, text, R.single_case);
		}
		return;
	}
	std::vector<std::string> vals;
	for (size_t i = 0; i < nsyn && !R.out_of_time(); ++i) {
		SynField y; setup_syn(y, SYN[i], strl, thorough);
		for (size_t u = 0; u < y.sf.sp.units(); ++u, ++id) {
			if (!R.mine(id)) continue;
			if (u == 0) ++R.counters["syn:realms"];
			y.sf.sp.values(u, vals);
			for (size_t k = 0; k < vals.size(); ++k) {
				const std::string& text = vals[k]; const std::string rid = std::string("syn:") + SYN[i].name + ":" + vh::hex(text);
				R.begin_case(rid); run_value(y.sf, text, rid);
				if (u == 0 && k == 5 && i == 0) R.sample(rid, std::string("synthetic realm ") + SYN[i].name + " value '" + vh::show(text) + "'");
			}
		}
	}
}

static int run_schema(vh::Run& R, unsigned long long& id, const std::string& schema, int strl, long intpad, bool thorough)
{
	const std::string bdir = std::string(getenv("VERIF_BUILD") ? getenv("VERIF_BUILD") : "build/main") + "/gen/";
	const F8MetaCntx& ctx = schema == "utest" ? UTEST::ctx() : F44::ctx();
	sm::Schema S; sm::load_schema(S, bdir + schema + ".model");

	if (R.single) {
		size_t a = R.single_case.find(':'), b = R.single_case.find(':', a + 1);
		const int tag = atoi(R.single_case.substr(a + 1, b - a - 1).c_str()); const std::string text = vh::unhex(R.single_case.substr(b + 1));
		auto it = S.fields.find(tag);
		if (it == S.fields.end()) { fprintf(stderr, "no field %d in the schema model\n", tag); return 2; }
		SchemaField sf;
		if (!setup_field(sf, schema, ctx, S, it->second, strl, intpad, thorough, true)) { fprintf(stderr, "field %d has no compiled realm\n", tag); return 2; }
		fprintf(stderr, "%s field %s(%d) type %s, %zu schema values, printed inside %s; value text '%s'\n", schema.c_str(), it->second.name.c_str(), tag, it->second.type.c_str(),
			it->second.vals.size(), sf.fc.container ? sf.fc.container_desc.c_str() : "(no container)", vh::show(text).c_str());
		R.begin_case(R.single_case); run_value(sf, text, R.single_case);
		return 0;
	}

	std::vector<std::string> vals;
	for (auto& kv : S.fields) {
		const sm::FieldDef& f = kv.second;
		if (!f.realm) continue;
		if (R.out_of_time()) break;
		if (!ctx.find_be((unsigned short)f.num)) { if (R.shard_k == 0) R.outcome(schema + ":field-with-realm-not-compiled(unused)"); continue; }
		if (!ctx.find_be((unsigned short)f.num)->_rlm) { if (R.shard_k == 0) R.outcome(schema + ":field-with-realm-has-no-realm-in-metadata"); continue; }
		// the cheap part of the set-up (domain, alphabet, unit count) is done by every shard, the container only by the owner of a unit
		std::unique_ptr<SchemaField> sf(new SchemaField);
		if (!setup_field(*sf, schema, ctx, S, f, strl, intpad, thorough, false)) continue;
		bool have_cont = false;
		for (size_t u = 0; u < sf->sp.units(); ++u, ++id) {
			if (!R.mine(id)) continue;
			if (R.out_of_time()) break;
			if (!have_cont) { have_cont = true; make_container(ctx, S, f.num, sf->cont); sf->fc.container = sf->cont.mb; sf->fc.container_desc = sf->cont.desc; if (!sf->fc.container) R.outcome(schema + ":field-without-container"); }
			if (u == 0) { ++R.counters[schema + ":fields"]; ++R.counters[schema + ":fields:" + (f.realm == 2 ? "range:" : "set:") + f.type]; }
			sf->sp.values(u, vals);
			for (const std::string& text : vals) {
				const std::string rid = schema + ":" + std::to_string(f.num) + ":" + vh::hex(text);
				R.begin_case(rid); run_value(*sf, text, rid);
				if (f.num == 54 && text == "0") R.sample(rid, "Side(54) value '0' (not a member; smallest member is '1')");
				if (f.num == 54 && text == "2") R.sample(rid, "Side(54) value '2' (member: Sell)");
				if (f.num == 167 && text == "CS") R.sample(rid, "SecurityType(167) value 'CS' (member)");
			}
		}
	}
	return 0;
}

// one process runs all three sub-spaces: starting a process costs seconds (the generated tables of both schemas are
// registered with the sanitizer), far more than the enumeration
int main(int argc, char **argv)
{
	vh::Run R(argc, argv); RR = &R; g_verbose = R.verbose();
	GlobalLogger::set_levels(Logger::Levels(Logger::None));
	const int strl = (int)R.args.num("strlen", 3), synstrl = (int)R.args.num("synstrlen", 3); const long intpad = R.args.num("intpad", 3);
	const bool thorough = R.args.get("tier", "quick") == "thorough";
	std::vector<std::string> todo; { std::istringstream is(R.args.get("spaces", "utest,fix44,syn")); std::string x; while (std::getline(is, x, ',')) todo.push_back(x); }
	unsigned long long id = 0;
	if (R.single) {
		const std::string pre = R.single_case.substr(0, R.single_case.find(':'));
		int rc = 0;
		if (pre == "syn") run_synthetic(R, id, synstrl, thorough); else rc = run_schema(R, id, pre, strl, intpad, thorough);
		R.finish(); return rc ? rc : R.violations ? 1 : 0;
	}
	for (auto& t : todo) {
		if (R.out_of_time()) break;
		if (t == "syn") run_synthetic(R, id, synstrl, thorough); else run_schema(R, id, t, strl, intpad, thorough);
	}
	R.finish(true);
	return 0;
}
