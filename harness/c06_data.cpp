// C06 — Length-prefixed data fields carry arbitrary bytes.
// Space: every Length/data pair of the schema model (a LENGTH-typed member directly followed by a DATA-typed member: header
//        SecureDataLen/SecureData and XmlDataLen/XmlData, trailer SignatureLength/Signature, body RawData, Encoded* ..., pairs
//        inside repeating groups at any depth) x every message that allows it (placement = message x member list holding the
//        pair) x content: all byte strings of length <= maxlen over {'A', SOH, '=', 0x00, 0xFF} plus patterns at lengths 10, 100,
//        2047 (all-SOH, trailer look-alike at the start / at the end, MsgType look-alike, SOH first, SOH last, all-'A').
//        The message is the mandatory-only shape plus the pair plus (where the schema has one) the next ordinary member after
//        the data field; a pair inside a group is placed in both of two elements, so that a field always follows the data.
// Case:  build through the API (data value set with its explicit length through Field<f8String>::set), encode with the real
//        encoder, decode with the real Message::factory, read the decoded data field and every other field back.
// Oracle: (wire) the Length field on the wire says the content's size and the data field's bytes are the content;
//         (data-survives) factory returns and the decoded data field holds exactly the content;
//         (fields-after-decode) every other field of the message, in particular those after the data field, equals what was built.
// args: schema=utest|fix44 maxlen=<n: all strings up to this length> [placements=first: one placement per (message, pair)] [contents=short: no patterns]
#include <fix8/f8includes.hpp>
#include "utest_types.hpp"
#include "utest_router.hpp"
#include "utest_classes.hpp"
#include "fix44_types.hpp"
#include "fix44_router.hpp"
#include "fix44_classes.hpp"
#include "explore/msggen.hpp"
#include "explore/forkbatch.hpp"
#include <cxxabi.h>
using namespace FIX8;

static const char SOH = '\x01';
static std::string exname(const std::exception& e)
{
	int st; char *d = abi::__cxa_demangle(typeid(e).name(), 0, 0, &st);
	std::string r = d ? d : typeid(e).name(); free(d);
	size_t p = r.rfind("::"); return p == std::string::npos ? r : r.substr(p + 2);
}

static sm::Schema S; static const F8MetaCntx *CTX; static std::string SCHEMA; static vh::Run *RP;
static char *bigbuf; static const size_t BIG = 1 << 20;

// ------------------------------------------------------------------------------------------ placements
// a placement = message, section (0 header, 1 body, 2 trailer), path of group tags from the section's member list down to the
// member list that holds the pair, the pair, and the next ordinary member after the data field in that list (0 if none)
struct Placement { int mi; int section; std::vector<int> path; int ltag, dtag, after; bool after_mandatory; };

static void find_pairs(const std::vector<sm::Member>& ms, int mi, int section, std::vector<int>& path, std::vector<Placement>& out)
{
	for (size_t i = 0; i + 1 < ms.size(); ++i) {
		const sm::FieldDef& a = S.fields.at(ms[i].tag); const sm::FieldDef& b = S.fields.at(ms[i + 1].tag);
		if (a.is_length() && a.num != 9 && b.vclass() == sm::V_DATA && !ms[i].group && !ms[i + 1].group) {
			Placement p { mi, section, path, ms[i].tag, ms[i + 1].tag, 0, false };
			for (size_t j = i + 2; j < ms.size(); ++j) {	// the next ordinary member: not a group, not a Length/data member, not framing
				const sm::FieldDef& f = S.fields.at(ms[j].tag);
				if (ms[j].group || f.is_length() || f.vclass() == sm::V_DATA || ms[j].tag == 10) continue;
				p.after = ms[j].tag; p.after_mandatory = ms[j].mandatory; break;
			}
			out.push_back(p);
		}
	}
	for (auto& m : ms) if (m.group) { path.push_back(m.tag); find_pairs(m.kids, mi, section, path, out); path.pop_back(); }
}
static std::vector<Placement> all_placements(bool first_only)
{
	std::vector<Placement> out;
	for (size_t mi = 0; mi < S.msgs.size(); ++mi) {
		std::vector<Placement> here; std::vector<int> path;
		find_pairs(S.header, (int)mi, 0, path, here);
		find_pairs(S.msgs[mi].members, (int)mi, 1, path, here);
		find_pairs(S.trailer, (int)mi, 2, path, here);
		if (first_only) {	// one placement per (message, pair): the shallowest one (they are found shallowest first)
			std::set<std::pair<int, int>> seen;
			for (auto& p : here) if (seen.insert({ p.ltag, p.section * 0 }).second) out.push_back(p);
		} else for (auto& p : here) out.push_back(p);
	}
	return out;
}

// ------------------------------------------------------------------------------------------ contents
static const unsigned char ALPHA[5] = { 'A', 0x01, '=', 0x00, 0xFF };
struct Content { std::string name, bytes; };
static std::vector<Content> all_contents(int maxlen, bool short_only)
{
	std::vector<Content> v;
	for (int len = 0; len <= maxlen; ++len) {
		int n = 1; for (int i = 0; i < len; ++i) n *= 5;
		for (int k = 0; k < n; ++k) {
			std::string s(len, ' '); int x = k; for (int i = len - 1; i >= 0; --i) { s[i] = (char)ALPHA[x % 5]; x /= 5; }
			v.push_back({ "s" + std::to_string(len) + "." + std::to_string(k), s });
		}
	}
	if (short_only) return v;
	for (size_t n : { (size_t)10, (size_t)100, (size_t)2047 }) {
		auto pad_after = [&](const std::string& p) { return p + std::string(n - p.size(), 'A'); };
		auto pad_before = [&](const std::string& p) { return std::string(n - p.size(), 'A') + p; };
		const std::string ns = std::to_string(n);
		v.push_back({ "allA:" + ns, std::string(n, 'A') });
		v.push_back({ "allSOH:" + ns, std::string(n, SOH) });
		v.push_back({ "trailer-first:" + ns, pad_after("\x01" "10=000\x01") });
		v.push_back({ "trailer-last:" + ns, pad_before("\x01" "10=000\x01") });
		v.push_back({ "msgtype-first:" + ns, pad_after("\x01" "35=D\x01") });
		v.push_back({ "msgtype-last:" + ns, pad_before("\x01" "35=D\x01") });
		v.push_back({ "SOH-first:" + ns, pad_after(std::string(1, SOH)) });
		v.push_back({ "SOH-last:" + ns, pad_before(std::string(1, SOH)) });
		v.push_back({ "eq-first:" + ns, pad_after("=") });
	}
	return v;
}

// ------------------------------------------------------------------------------------------ building
// mg::add_nodes with one difference: a DATA node's value is set with its explicit length (create_field takes a C string)
static void add_nodes_x(const F8MetaCntx& ctx, MessageBase *mb, const mg::NodeList& nl, GroupBase *parentgrp = nullptr)
{
	for (auto& n : nl) {
		BaseField *bf = ctx.create_field((unsigned short)n.tag, n.text.c_str());
		if (!bf) throw std::runtime_error("create_field returned null for tag " + std::to_string(n.tag));
		if (S.fields.at(n.tag).vclass() == sm::V_DATA) reinterpret_cast<Field<f8String, 0> *>(bf)->set(n.text);
		mb->add_field(bf);
		if (n.group && !n.elems.empty()) {
			GroupBase *gb = mb->find_add_group((unsigned short)n.tag, parentgrp);
			if (!gb) throw std::runtime_error("no group object for tag " + std::to_string(n.tag));
			for (auto& e : n.elems) { MessageBase *el = gb->create_group(true); add_nodes_x(ctx, el, e, gb); *gb << el; }
		}
	}
}
static Message *build_x(const F8MetaCntx& ctx, const mg::Tree& t)
{
	Message *m = ctx.create_msg(t.msgtype.c_str());
	if (!m) throw std::runtime_error("create_msg returned null for " + t.msgtype);
	try { add_nodes_x(ctx, m->Header(), t.header); add_nodes_x(ctx, m, t.body); add_nodes_x(ctx, m->Trailer(), t.trailer); }
	catch (...) { delete m; throw; }
	return m;
}
// position of tag `tag` in the schema order `ms` (for keeping the abstract list in schema order)
static int order_of(const std::vector<sm::Member>& ms, int tag) { for (size_t i = 0; i < ms.size(); ++i) if (ms[i].tag == tag) return (int)i; return 1 << 20; }
static void insert_ordered(const std::vector<sm::Member>& ms, mg::NodeList& nl, const mg::Node& n)
{
	if (std::any_of(nl.begin(), nl.end(), [&](const mg::Node& x) { return x.tag == n.tag; })) return;
	auto it = nl.begin(); while (it != nl.end() && order_of(ms, it->tag) < order_of(ms, n.tag)) ++it;
	nl.insert(it, n);
}
static const sm::Member *member_of(const std::vector<sm::Member>& ms, int tag) { for (auto& m : ms) if (m.tag == tag) return &m; return nullptr; }

// add the pair (and the field after it) to the member list `nl` whose schema is `ms`; descend along `path` (from index `pi`),
// creating the groups with two elements each (mandatory members of an element come from the lattice generator)
static void place(const std::vector<sm::Member>& ms, mg::NodeList& nl, const Placement& p, size_t pi, const std::string& content, mg::ShapeCtx& sc)
{
	if (pi == p.path.size()) {
		mg::Node l, d; l.tag = p.ltag; l.text = std::to_string(content.size()); d.tag = p.dtag; d.text = content;
		// a pair that is already there (mandatory pair) gets the content
		bool had = false; for (auto& x : nl) { if (x.tag == p.ltag) { x.text = l.text; had = true; } if (x.tag == p.dtag) x.text = content; }
		if (!had) { insert_ordered(ms, nl, l); insert_ordered(ms, nl, d); }
		if (p.after) { mg::Node a; a.tag = p.after; a.text = mg::value_text(S.fields.at(p.after), 0, 0); insert_ordered(ms, nl, a); }
		return;
	}
	const int gt = p.path[pi]; const sm::Member *gm = member_of(ms, gt);
	mg::Node *g = nullptr; for (auto& x : nl) if (x.tag == gt) g = &x;
	if (!g) { mg::Node n; n.tag = gt; n.group = true; insert_ordered(ms, nl, n); for (auto& x : nl) if (x.tag == gt) g = &x; }
	g->group = true; g->text = "2";
	while (g->elems.size() < 2) g->elems.push_back(mg::make_members(gm->kids, 0, -1, sc, (int)pi + 1));
	g->elems.resize(2);
	for (auto& e : g->elems) place(gm->kids, e, p, pi + 1, content, sc);
}
static const mg::Node *find_data(const mg::NodeList& nl, const Placement& p, size_t pi, int elem)
{
	if (pi == p.path.size()) { for (auto& x : nl) if (x.tag == p.dtag) return &x; return nullptr; }
	for (auto& x : nl) if (x.tag == p.path[pi] && (int)x.elems.size() > elem) return find_data(x.elems[elem], p, pi + 1, elem);
	return nullptr;
}

// ------------------------------------------------------------------------------------------ one case
static void run_case(const std::string& id, const Placement& p, const Content& c)
{
	vh::Run& R = *RP;
	const sm::MsgDef& md = S.msgs[p.mi];
	mg::Lattice L(S);
	mg::Tree t = L.make(md, 0, 0, 1);
	int salt = 0; mg::ShapeCtx sc { &S, 0, 1, &salt };
	const std::vector<sm::Member> hdr = mg::strip(S.header), trl = mg::strip(S.trailer);
	place(p.section == 0 ? hdr : p.section == 1 ? md.members : trl, p.section == 0 ? t.header : p.section == 1 ? t.body : t.trailer, p, 0, c.bytes, sc);

	std::vector<std::string> tags;
	tags.push_back(p.section == 0 ? "section:header" : p.section == 1 ? "section:body" : "section:trailer");
	if (!p.path.empty()) tags.push_back("pair_in_group");
	if (p.dtag != p.ltag + 1) tags.push_back("pair_tag_delta_ne_1");
	for (unsigned char b : { 0x00, 0x01, 0x3d, 0xff }) if (c.bytes.find((char)b) != std::string::npos) { char tb[40]; snprintf(tb, sizeof tb, "data_contains_byte:0x%02x", b); tags.push_back(tb); }
	if (c.bytes.empty()) tags.push_back("data_len:0");
	if (!p.after) tags.push_back("no_ordinary_field_after_in_list");
	std::string tagstr; for (auto& x : tags) tagstr += (tagstr.empty() ? "" : ",") + x;
	R.begin_case(id, tagstr);
	if (c.bytes.find(SOH) != std::string::npos || c.bytes.find('=') != std::string::npos) ++R.nontrivial;
	const std::string what = md.name + " pair " + std::to_string(p.ltag) + "/" + std::to_string(p.dtag) + (p.path.empty() ? "" : " in group " + std::to_string(p.path.back())) + " content " + c.name + " '" + vh::show(c.bytes).substr(0, 60) + "'";
	if (R.verbose()) fprintf(stderr, "case %s: %s\n", id.c_str(), what.c_str());

	std::unique_ptr<Message> m;
	try { m.reset(build_x(*CTX, t)); }
	catch (std::exception& e) { R.outcome("build-throws"); R.viol("constructible", "build-throws:" + exname(e), tags, id, e.what(), "message built through the API", what); return; }
	std::string wire;
	try { char *q = bigbuf; size_t n = m->encode(&q); wire.assign(q, n); }
	catch (std::exception& e) { R.outcome("encode-throws"); R.viol("wire", "encode-throws:" + exname(e), tags, id, e.what(), "encoded bytes", what); return; }
	if (R.verbose()) fprintf(stderr, " wire (%zu bytes): %s\n", wire.size(), vh::show(wire).substr(0, 700).c_str());
	// (wire) Length field = size, data field = content: look for "<SOH>L=<n><SOH>D=<content><SOH>" as bytes
	{
		const std::string want = std::string(1, SOH) + std::to_string(p.ltag) + "=" + std::to_string(c.bytes.size()) + SOH + std::to_string(p.dtag) + "=" + c.bytes + SOH;
		if (wire.find(want) == std::string::npos) {
			R.outcome("wire-differs");
			R.viol("wire", "length-or-data-not-on-the-wire-as-set", tags, id, vh::show(wire).substr(0, 400), "contains " + vh::show(want).substr(0, 200), what);
			return;
		}
	}
	std::unique_ptr<Message> d;
	try { d.reset(Message::factory(*CTX, wire)); }
	catch (std::exception& e) {
		R.outcome("decode-throws:" + exname(e));
		R.viol("data-survives", "decode-throws:" + exname(e), tags, id, std::string(e.what()).substr(0, 200), "decoded message with the data field intact", what + " :: " + vh::show(wire).substr(0, 300));
		return;
	}
	if (!d) { R.viol("data-survives", "factory-returned-null", tags, id, "null", "decoded message", what); return; }
	mg::Tree rb = mg::readback(S, d.get());
	const mg::NodeList& rsec = p.section == 0 ? rb.header : p.section == 1 ? rb.body : rb.trailer;
	const int nelem = p.path.empty() ? 1 : 2;
	for (int e = 0; e < nelem; ++e) {
		const mg::Node *got = find_data(rsec, p, 0, e);
		std::string mode;
		if (!got) mode = "data-field-absent";
		else if (got->text != c.bytes) {
			const size_t nul = c.bytes.find('\0'), soh = c.bytes.find(SOH);
			if (nul != std::string::npos && got->text == c.bytes.substr(0, nul)) mode = "decoded=prefix-before-NUL";
			else if (soh != std::string::npos && got->text == c.bytes.substr(0, soh)) mode = "decoded=prefix-before-SOH";
			else if (got->text.size() < c.bytes.size() && c.bytes.compare(0, got->text.size(), got->text) == 0) mode = "decoded=shorter-prefix";
			else mode = "decoded-differs";
		}
		if (!mode.empty()) {
			R.outcome(mode);
			R.viol("data-survives", mode, tags, id, got ? "'" + vh::show(got->text).substr(0, 200) + "' (" + std::to_string(got->text.size()) + " bytes)" : "absent",
				"'" + vh::show(c.bytes).substr(0, 200) + "' (" + std::to_string(c.bytes.size()) + " bytes)", what + (nelem > 1 ? " element " + std::to_string(e) : ""));
			return;
		}
	}
	std::string df = mg::diff_trees(S, t, rb);
	if (!df.empty()) {
		R.outcome("other-fields-differ");
		R.viol("fields-after-decode", "other-fields-differ", tags, id, df.substr(0, 300), "every field as built", what + " :: " + vh::show(wire).substr(0, 300));
		return;
	}
	R.outcome("ok");
}

int main(int argc, char **argv)
{
	vh::Run R(argc, argv); RP = &R;
	fb::block_prof();
	// the global logger (and its thread) is first touched in the forked children only: see forkbatch.hpp child_init
	SCHEMA = R.args.get("schema", "utest");
	CTX = SCHEMA == "utest" ? &UTEST::ctx() : &F44::ctx();
	sm::load_schema(S, std::string(getenv("VERIF_BUILD") ? getenv("VERIF_BUILD") : "build/main") + "/gen/" + SCHEMA + ".model");
	bigbuf = (char *)malloc(BIG);
	const std::vector<Placement> pl = all_placements(R.args.get("placements", "all") == "first");
	const std::vector<Content> ct = all_contents((int)R.args.num("maxlen", 3), R.args.get("contents", "all") == "short");

	auto run_desc = [&](const std::string& d) -> bool {
		unsigned pi, ci; if (sscanf(d.c_str(), "%u:%u", &pi, &ci) != 2 || pi >= pl.size() || ci >= ct.size()) return false;
		run_case(d, pl[pi], ct[ci]); return true;
	};
	if (R.args.has("list")) {
		for (size_t i = 0; i < pl.size(); ++i) { std::string pa; for (int g : pl[i].path) pa += std::to_string(g) + "/";
			printf("placement %zu: %s section %d path %s pair %d/%d after %d\n", i, S.msgs[pl[i].mi].name.c_str(), pl[i].section, pa.c_str(), pl[i].ltag, pl[i].dtag, pl[i].after); }
		printf("%zu placements, %zu contents\n", pl.size(), ct.size());
		return 0;
	}
	if (R.single) {
		fb::child_init();	// no fork in this mode
		fb::start_watchdog(true);
		if (!run_desc(R.single_case)) { fprintf(stderr, "malformed case descriptor %s (placement:content)\n", R.single_case.c_str()); return 2; }
		R.finish(); return R.violations ? 1 : 0;
	}
	// a decoder that loops or dies must not take the enumeration with it: cases run in forked batches (forkbatch.hpp)
	fb::Batcher B(R, [&](const char *d) { run_desc(d); });
	B.clause_of = [](const std::string&, const std::string& mode) { return mode.compare(0, 5, "hang:") == 0 ? std::string("data-survives") : std::string("memory-safe-and-total"); };
	unsigned long long id = 0; char db[64];
	// contents outermost: the simplest contents on every placement first
	for (size_t ci = 0; ci < ct.size() && !B.stop(); ++ci)
		for (size_t pi = 0; pi < pl.size(); ++pi, ++id) {
			if (!R.mine(id)) continue;
			snprintf(db, sizeof db, "%zu:%zu", pi, ci);
			B.on_case(id, db);
			if (!B.is_child && R.shard_k == 0 && (id == 0 || (ci == 40 && pi == 0))) R.sample(db, S.msgs[pl[pi].mi].name + " pair " + std::to_string(pl[pi].ltag) + "/" + std::to_string(pl[pi].dtag) + " content '" + vh::show(ct[ci].bytes) + "'");
		}
	B.end();
	R.finish(B.complete);
	return 0;
}
