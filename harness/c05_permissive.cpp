// C05 — permissive decoding passes unknown fields through unchanged.
// Space: conforming base messages = lattice shapes "mandatory only" (0) and "all fields" (1), value index 0, groups
//   with nelem elements, of every message type of a compiled schema, written by the reference serializer; one unknown
//   token (9000=x or 9001=a=b) inserted before every token position p in [3, n-1] (after 8/9/35, up to directly before
//   10=): header, body, trailer, section boundaries, directly after a group, between group elements, inside an
//   element, inside a nested element; with pairs=1 both tokens, 9000=x before p1 and 9001=a=b before p2, for every
//   (p1, p2) (p1 == p2: 9000 first; p2 < p1 puts 9001 first).  BodyLength / CheckSum recomputed by plain loops.
// Oracle: Message::factory(ctx, bytes, no_chksum=false, permissive_mode=true) returns; the tree read back equals the
//   tree read back from the strict decode of the base message (every known field, same value, same groups); the
//   re-encoding (real encoder) is tokenized independently: BodyLength and CheckSum right, the multiset of its tokens =
//   the multiset of the input's tokens (known fields by value, the two framing numbers excepted), each unknown token
//   exactly once and byte-identical.  Where the unknown tokens are re-emitted is not part of the property.
// args: schema=utest|fix44 nelem=<n> pairs=0|1 pairtypes=<msgtype,...> (empty = all types) pairmax=<max tokens of a base message for pairs> chunk=<ids per child>
#include <fix8/f8includes.hpp>
#include "utest_types.hpp"
#include "utest_router.hpp"
#include "utest_classes.hpp"
#include "fix44_types.hpp"
#include "fix44_router.hpp"
#include "fix44_classes.hpp"
#include "explore/fixedit.hpp"
using namespace FIX8;

// a decode that does not come back (endless loop) is ended here, so that the driver can attribute it to the case at once
static void on_alarm(int) { static const char m[] = "hang: Message::factory did not return within 20 s\n"; if (write(2, m, sizeof m - 1)) {} _exit(70); }
__attribute__((constructor(101))) static void tune_asan(int, char **argv, char **) { fe::reexec_small_quarantine(argv); }

static const fe::Tok UNK[2] = { { "9000", "x" }, { "9001", "a=b" } };
static char *bigbuf; static const size_t BIG = 4 << 20;
static std::string encode_big(const Message *m) { char *p = bigbuf; size_t n = m->encode(&p); return std::string(p, n); }

struct Base {
	int mi, shape; mg::Tree tree; fe::Toks toks; fe::Verdict ref; std::string wire;
	bool strict_ok = false; std::string strict_err; mg::Tree strict_rb;
};
struct Ins { int k, pos; };	// token UNK[k] before base token pos

struct Harness {
	vh::Run& R; const F8MetaCntx& ctx; const sm::Schema& S; std::string schema; int nelem;

	std::string idstr(const Base& b, const std::vector<Ins>& is) const
	{
		std::string s = schema + ":" + std::to_string(b.mi) + ":" + std::to_string(b.shape) + ":" + std::to_string(nelem) + ":";
		if (is.empty()) s += "none";
		for (size_t i = 0; i < is.size(); ++i) { if (i) s += "+"; s += std::to_string(is[i].k) + "." + std::to_string(is[i].pos); }
		return s;
	}
	// The global logger starts a thread when it is first touched.  It is touched here, i.e. only in a process that
	// runs cases: the parent of the chunked enumeration must stay single-threaded, a fork() of a process with a second
	// thread can leave the child with an allocator lock that nobody will release.
	static void quiet_logger() { static bool done = false; if (!done) { GlobalLogger::set_levels(Logger::Levels(Logger::None)); done = true; } }
	void prepare(Base& b) const
	{
		quiet_logger();
		b.tree = mg::Lattice(S).make(S.msgs[b.mi], b.shape, 0, nelem);
		b.wire = mg::serialize(S, b.tree); b.toks = fe::from_wire(S, b.wire); b.ref = fe::refaccept(S, b.toks);
		if (!b.ref.ok) { fprintf(stderr, "reference acceptor rejects the base message %s shape %d: %s %s\n", S.msgs[b.mi].name.c_str(), b.shape, b.ref.reason.c_str(), b.ref.detail.c_str()); exit(3); }
		try { std::unique_ptr<Message> m(Message::factory(ctx, b.wire)); b.strict_rb = mg::readback(S, m.get()); b.strict_ok = true; }
		catch (std::exception& e) { b.strict_err = fe::exname(e) + ": " + e.what(); }
	}
	void run_case(const Base& b, const std::vector<Ins>& is)
	{
		const int n = (int)b.toks.size();
		fe::Toks t; t.reserve(n + is.size());
		for (int i = 0; i < n; ++i) { for (auto& x : is) if (x.pos == i) t.push_back(UNK[x.k]); t.push_back(b.toks[i]); }
		const std::string wire = fe::assemble(t, true, true);
		const std::string id = idstr(b, is);
		std::set<std::string> tg; bool in_group = false;
		for (auto& x : is) {
			const std::string pc = fe::pos_class(b.ref.ctx, x.pos);
			if (pc.compare(0, 5, "group") == 0 || pc.compare(0, 12, "nested_group") == 0) { tg.insert("unknown_in:group"); in_group = true; if (pc[0] == 'n') tg.insert("unknown_in:nested_group"); }
			tg.insert("unknown_in:" + pc);
		}
		tg.insert("n_unknown:" + std::to_string(is.size()));
		std::vector<std::string> tags(tg.begin(), tg.end());
		std::string tagstr; for (auto& x : tags) tagstr += (tagstr.empty() ? "" : ",") + x;
		R.begin_case(id, tagstr);
		if (in_group) ++R.nontrivial;
		if (R.verbose()) fprintf(stderr, "case %s  %s(%s) shape %d  [%s]\n input:  %s\n", id.c_str(), S.msgs[b.mi].name.c_str(), b.tree.msgtype.c_str(), b.shape, tagstr.c_str(), vh::show(wire).c_str());
		if (!b.strict_ok) { R.outcome("VIOL base-not-decodable"); R.viol("base-decodes-strictly", "strict-decode-of-base-throws", tags, id, b.strict_err, "the conforming base message decodes in strict mode", vh::show(b.wire)); return; }
		std::unique_ptr<Message> m; std::string threw, what;
		alarm(20);
		try { m.reset(Message::factory(ctx, wire, false, true)); if (!m) threw = "null"; }
		catch (std::exception& e) { threw = fe::exname(e); what = e.what(); }
		catch (...) { threw = "non-std-exception"; }
		alarm(0);
		if (R.verbose()) fprintf(stderr, " Message::factory(permissive): %s\n", threw.empty() ? "returned a message" : ("threw " + threw + ": " + what.substr(0, 200)).c_str());
		if (!threw.empty()) { R.outcome("VIOL rejected:" + threw); R.viol("accepted", "rejected:" + threw, tags, id, "threw " + threw + ": " + what.substr(0, 160), "message returned (the only deviation from the schema is the unknown tag)", vh::show(wire)); return; }
		mg::Tree rb = mg::readback(S, m.get());
		if (R.verbose()) fprintf(stderr, " decoded: header[%s] body[%s] trailer[%s]\n unknown: header[%s] body[%s] trailer[%s]\n", mg::show_nodes(rb.header).c_str(), mg::show_nodes(rb.body).c_str(), mg::show_nodes(rb.trailer).c_str(),
			vh::show(m->Header()->get_unknown()).c_str(), vh::show(m->get_unknown()).c_str(), vh::show(m->Trailer()->get_unknown()).c_str());
		auto d = fe::cmp_trees(S, b.strict_rb, rb);
		if (!d.first.empty()) { R.outcome("VIOL known-" + d.first); R.viol("known-fields-as-strict", "known-" + d.first, tags, id, d.second, "every known field as in the strict decode of the message without the unknown token(s)", vh::show(wire)); return; }
		std::string w2;
		try { w2 = encode_big(m.get()); }
		catch (std::exception& e) { R.outcome("VIOL reencode-throws"); R.viol("reencode-retains-all", "reencode-throws:" + fe::exname(e), tags, id, e.what(), "re-encoding", vh::show(wire)); return; }
		if (R.verbose()) fprintf(stderr, " re-encoded: %s\n", vh::show(w2).c_str());
		std::vector<mg::Token> tk = mg::tokenize(w2, &S);
		// framing of the re-encoding
		std::string fr;
		if (tk.size() < 4 || tk[0].tag != "8" || tk[1].tag != "9" || tk[2].tag != "35" || tk.back().tag != "10") fr = "does not have the form 8, 9, 35 ... 10";
		else {
			const size_t bs = tk[1].off + tk[1].len, be = tk.back().off;
			unsigned sum = 0; for (size_t i = 0; i < be; ++i) sum += (unsigned char)w2[i];
			char cs[8]; snprintf(cs, sizeof cs, "%03u", sum % 256);
			if (tk[1].val != std::to_string(be - bs)) fr = "BodyLength " + tk[1].val + " but " + std::to_string(be - bs) + " bytes";
			else if (tk.back().val != cs) fr = "CheckSum " + tk.back().val + " but byte sum is " + cs;
			for (auto& k : tk) if (!k.wellformed) fr = "token '" + vh::show(k.tag + "=" + k.val) + "' is not tag=value";
		}
		if (!fr.empty()) { R.outcome("VIOL reencode-framing"); R.viol("reencode-retains-all", "reencode-malformed", tags, id, fr + " :: " + vh::show(w2), "well-formed message", vh::show(wire)); return; }
		// multiset comparison: exact matches first, then by value (floats: fix8 renders 1 as 1.0)
		std::map<std::string, int> bag;
		// the two framing numbers are excepted by position (second token, last token), not by tag: a stray 9= or 10= elsewhere counts
		for (size_t i = 0; i < t.size(); ++i) if (i != 1 && i + 1 != t.size()) ++bag[t[i].tag + "=" + t[i].val];
		std::vector<std::pair<std::string, std::string>> extra;
		for (size_t i = 0; i < tk.size(); ++i) { if (i == 1 || i + 1 == tk.size()) continue; const mg::Token& k = tk[i]; auto it = bag.find(k.tag + "=" + k.val); if (it != bag.end() && it->second > 0) --it->second; else extra.push_back({ k.tag, k.val }); }
		std::string lost, added;
		for (auto& kv : bag) for (int c = 0; c < kv.second; ++c) {
			const size_t eq = kv.first.find('='); const std::string tag = kv.first.substr(0, eq), val = kv.first.substr(eq + 1);
			bool f = false;
			if (tag != "9000" && tag != "9001") for (auto& e : extra) if (!e.first.empty() && e.first == tag && fe::val_eq(S, atoi(tag.c_str()), val, e.second)) { e.first.clear(); f = true; break; }
			if (!f && lost.empty()) lost = kv.first;
		}
		for (auto& e : extra) if (!e.first.empty() && added.empty()) added = e.first + "=" + e.second;
		if (!lost.empty() || !added.empty()) {
			const bool lu = lost.compare(0, 5, "9000=") == 0 || lost.compare(0, 5, "9001=") == 0, au = added.compare(0, 5, "9000=") == 0 || added.compare(0, 5, "9001=") == 0;
			const std::string mode = !lost.empty() ? (lu ? "unknown-token-lost" : "known-token-lost") : (au ? "unknown-token-duplicated" : "known-token-duplicated");
			R.outcome("VIOL reencode " + mode);
			R.viol("reencode-retains-all", mode, tags, id, (lost.empty() ? "" : "input token " + vh::show(lost) + " is not in the re-encoding; ") + (added.empty() ? "" : "re-encoding has an additional token " + vh::show(added)) + " :: " + vh::show(w2),
				"the tokens of the input, each once (BodyLength/CheckSum recomputed)", vh::show(wire));
			return;
		}
		R.outcome("ok");
	}
};

int main(int argc, char **argv)
{
	vh::Run R(argc, argv);
	signal(SIGALRM, on_alarm);
	const std::string schema = R.args.get("schema", "utest");
	const F8MetaCntx& ctx = schema == "utest" ? UTEST::ctx() : F44::ctx();
	sm::Schema S; sm::load_schema(S, std::string(getenv("VERIF_BUILD") ? getenv("VERIF_BUILD") : "build/main") + "/gen/" + schema + ".model");
	for (int u : { 9000, 9001 }) if (S.fields.count(u)) { fprintf(stderr, "tag %d is defined by the schema: not an unknown tag\n", u); return 3; }
	bigbuf = (char *)malloc(BIG);
	const int nelem = (int)R.args.num("nelem", 2);
	const bool pairs = R.args.num("pairs", 0) != 0; const int pairmax = (int)R.args.num("pairmax", 0);
	std::set<std::string> pairtypes; { std::istringstream is(R.args.get("pairtypes", "")); std::string x; while (std::getline(is, x, ',')) if (!x.empty()) pairtypes.insert(x); }
	Harness H { R, ctx, S, schema, nelem };

	if (R.single) {
		char sc[32], rest[256] = ""; int mi, shape, ne;
		if (sscanf(R.single_case.c_str(), "%31[^:]:%d:%d:%d:%255s", sc, &mi, &shape, &ne, rest) < 5) { fprintf(stderr, "bad case string\n"); return 3; }
		Harness H2 { R, ctx, S, schema, ne };
		Base b; b.mi = mi; b.shape = shape; H2.prepare(b);
		std::vector<Ins> is;
		if (std::string(rest) != "none") { std::istringstream s(rest); std::string x; while (std::getline(s, x, '+')) { Ins i; if (sscanf(x.c_str(), "%d.%d", &i.k, &i.pos) == 2) is.push_back(i); } }
		H2.run_case(b, is);
		R.finish(); return R.violations ? 1 : 0;
	}

	const long long chunk = R.args.num("chunk", 0);
	const std::string idof = R.args.get("idof", "");	// with count=1: print the running id of this case string
	auto enumerate = [&](long long lo, long long hi, bool count_only) -> long long {
		long long id = 0;
		for (int mi = 0; mi < (int)S.msgs.size(); ++mi) for (int shape = 0; shape < 2; ++shape) {
			if (!count_only && R.out_of_time()) return -1;
			Base b; b.mi = mi; b.shape = shape; bool ready = false;
			const mg::Tree t0 = mg::Lattice(S).make(S.msgs[mi], shape, 0, nelem);
			const int n = (int)mg::count_nodes(t0.header) + (int)mg::count_nodes(t0.body) + (int)mg::count_nodes(t0.trailer) + 4;
			auto go = [&](std::initializer_list<Ins> il) {
				if (count_only && !idof.empty()) { std::vector<Ins> is(il); if (H.idstr(b, is) == idof) fprintf(stderr, "id of %s: %lld\n", idof.c_str(), id); }
				if (!count_only && id >= lo && id < hi && R.mine(id)) {
					if (!ready) { H.prepare(b); ready = true; if ((int)b.toks.size() != n) { fprintf(stderr, "token count mismatch\n"); exit(3); } }
					std::vector<Ins> is(il); H.run_case(b, is);
					if (R.samples_emitted < 3 && (id % 4999) == 0) R.sample(H.idstr(b, is), S.msgs[mi].name);
				}
				++id; };
			go({});
			for (int k = 0; k < 2; ++k) for (int p = 3; p <= n - 1; ++p) go({ Ins { k, p } });
			if (pairs && (pairtypes.empty() || pairtypes.count(t0.msgtype)) && (!pairmax || n <= pairmax))
				for (int p1 = 3; p1 <= n - 1; ++p1) {
					if (!count_only && id + n >= lo && id < hi && R.out_of_time()) return -1;
					for (int p2 = 3; p2 <= n - 1; ++p2) go({ Ins { 0, p1 }, Ins { 1, p2 } });
				}
		}
		return id;
	};
	if (R.args.has("count")) { fprintf(stderr, "ids: %lld\n", enumerate(0LL, 0LL, true)); return 0; }
	return fe::run_chunked(R, chunk, enumerate);
}
