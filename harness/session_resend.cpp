// session_resend — C18: a ResendRequest [B,E] is answered with a complete, faithful replay.
// Space: persister in {mem,file,none} x role x n in 1..N x every subset of the n sent numbers being application
// (stored) or administrative (not stored) x every (B,E) in {0..n+3}^2, followed by one new application send.
// Oracle: reference replay computed from the recorded sends (DESIGN Appendix B).
#include <fix8/f8includes.hpp>
#include "utest_types.hpp"
#include "utest_router.hpp"
#include "utest_classes.hpp"
#include "sim/world.hpp"
#include "vh.hpp"
using namespace FIX8;
using namespace sim;

struct Case { int pk, acc, n; unsigned mask; int B, E; int B2 = -1, E2 = 0; };	// B2 >= 0: a second ResendRequest follows the first
static std::string case_str(const Case& c) { char b[128]; int k = snprintf(b, sizeof b, "%d:%d:%d:%u:%d:%d", c.pk, c.acc, c.n, c.mask, c.B, c.E); if (c.B2 >= 0) snprintf(b + k, sizeof b - k, ":%d:%d", c.B2, c.E2); return b; }
static const char *PKN[] = { "none", "mem", "file" };

static void run_case(vh::Run& R, const Case& c)
{
	const std::string id = case_str(c);
	WorldCfg wc; wc.acceptor = c.acc; wc.pk = (PersistKind)c.pk; if (!c.acc) { wc.us = "CLI"; wc.them = "SRV"; }
	wc.fname = "r" + std::to_string(getpid()) + ".db";
	World w(wc); w.remove_files();
	sim::vnow_ns = 1700000000LL * 1000000000LL;
	w.connect();
	w.feed(w.inbound("A", 1, std::string("98=0") + SOH + "108=30" + SOH));
	w.take_out();
	// numbers 2..n+1: application (stored) or heartbeat (not stored)
	std::map<long, std::string> sent;	// number -> wire bytes of application messages
	for (int k = 0; k < c.n; ++k) {
		sim::advance_ms(1000);	// distinct SendingTime per message so OrigSendingTime can be told apart
		if (c.mask & (1u << k)) w.ses->send(World::nos("ID" + std::to_string(k + 2))); else w.ses->send(w.ses->generate_heartbeat(""));
		for (auto& m : w.take_out()) if (tagval(m, 35) == "D") sent[atol(tagval(m, 34).c_str())] = m;
	}
	const long n_send = w.ses->ns(), last = n_send - 1;
	sim::advance_ms(5000);
	std::vector<std::string> tags { std::string("persist:") + PKN[c.pk], c.acc ? "role:acceptor" : "role:initiator" };
	if (c.B == 0 || (c.E != 0 && c.B > c.E)) tags.push_back("range:invalid");
	else {
		if (c.E != 0 && c.E < last) tags.push_back("range:ends_before_latest");
		if (c.B > last) tags.push_back("range:begins_after_latest");
		if (c.E > last) tags.push_back("range:ends_after_latest");
	}
	std::string tagstr; for (auto& t : tags) tagstr += (tagstr.empty() ? "" : ",") + t;
	if (c.B2 >= 0) tags.push_back("second_request");
	R.begin_case(id, tagstr);
	if (c.pk != 0 && c.mask && c.B >= 1) ++R.nontrivial;
	if (R.verbose()) { fprintf(stderr, "case %s persist=%s n=%d stored={", id.c_str(), PKN[c.pk], c.n); for (auto& p : sent) fprintf(stderr, "%ld ", p.first); fprintf(stderr, "}\n"); }
	const bool verbose = R.verbose();
	std::vector<std::string> reply; bool garbage = false; int cur_B = c.B, cur_E = c.E; long cur_last = last;
	auto V = [&](const std::string& clause, const std::string& mode, const std::string& obs, const std::string& exp) {
		R.outcome("viol:" + mode);
		std::string d = "stored={"; for (auto& p : sent) d += std::to_string(p.first) + " "; d += "} latest=" + std::to_string(cur_last) + " request=(" + std::to_string(cur_B) + "," + std::to_string(cur_E) + ")" + (cur_B != c.B || cur_E != c.E || (c.B2 >= 0 && &reply == nullptr) ? " (second request)" : "") + " reply:";
		for (auto& m : reply) d += " [35=" + tagval(m, 35) + " 34=" + tagval(m, 34) + (hastag(m, 36) ? " 36=" + tagval(m, 36) : "") + "]";
		R.viol(clause, mode, tags, id, obs, exp, d);
	};
	// the persister the session uses: without one nothing is stored
	const std::map<long, std::string> store = c.pk ? sent : std::map<long, std::string>();
	// one request and the judgement of its reply; n_send_now = next new number before the request; returns the next new number after it, or -1 on a violation
	auto request = [&](int B, int E, long n_send_now, const char *which) -> long {
		cur_B = B; cur_E = E; const long last_now = n_send_now - 1; cur_last = last_now;
		w.feed(w.inbound("2", w.ses->nr(), "7=" + std::to_string(B) + SOH + "16=" + std::to_string(E) + SOH));
		garbage = false; reply = w.take_out(&garbage);
		if (verbose) { fprintf(stderr, "  %s ResendRequest(%d,%d), latest=%ld\n", which, B, E, last_now); for (auto& m : reply) fprintf(stderr, "  REPLY %s\n", vh::show(m).c_str()); }
		if (garbage) { V("reply-wellformed", "wire-unparseable", "", ""); return -1; }
		long announced = 0;	// last NewSeqNo announced
		size_t ri = 0;
		if (B == 0 || (E != 0 && B > E)) {
			if (reply.size() != 1 || tagval(reply[0], 35) != "3") { V("invalid-range-rejected", "no-single-reject", std::to_string(reply.size()) + " messages", "one Reject"); return -1; }
			R.outcome("reject");
			return n_send_now + 1;	// the Reject consumed one number
		}
		const long hi = (E == 0 || E > last_now) ? last_now : E;
		long i = B;
		auto is_fill = [&](const std::string& m) { return tagval(m, 35) == "4" && tagval(m, 123) == "Y"; };
		while (i <= hi) {
			auto it = store.find(i);
			if (ri >= reply.size()) { V("range-covered", "reply-ends-early", "reply ended before number " + std::to_string(i), "replay or gap fill for every number " + std::to_string(B) + ".." + std::to_string(hi)); return -1; }
			const std::string& m = reply[ri];
			if (it != store.end()) {
				if (tagval(m, 35) != "D" || atol(tagval(m, 34).c_str()) != i) { V("stored-replayed-in-order", "stored-message-not-replayed", "35=" + tagval(m, 35) + " 34=" + tagval(m, 34), "replay of stored message " + std::to_string(i)); return -1; }
				if (tagval(m, 43) != "Y") { V("replay-flags", "possdup-missing", vh::show(m), "43=Y"); return -1; }
				if (tagval(m, 122) != tagval(it->second, 52)) { V("replay-flags", "origsendingtime-differs", "122=" + tagval(m, 122), "122=" + tagval(it->second, 52)); return -1; }
				if (body_tokens(m) != body_tokens(it->second)) { V("replay-faithful", "body-differs", body_tokens(m), body_tokens(it->second)); return -1; }
				++i; ++ri;
			} else {
				long j = i; while (j <= hi && !store.count(j)) ++j;	// gap [i, j-1]
				if (!is_fill(m)) { V("gaps-filled", "gap-not-filled", "35=" + tagval(m, 35) + " 34=" + tagval(m, 34), "SequenceReset-GapFill 34=" + std::to_string(i) + " 36=" + std::to_string(j)); return -1; }
				long s34 = atol(tagval(m, 34).c_str()), n36 = atol(tagval(m, 36).c_str());
				if (s34 != i) { V("gaps-filled", "gapfill-msgseqnum-not-first-of-gap", "34=" + std::to_string(s34) + " 36=" + std::to_string(n36), "34=" + std::to_string(i)); return -1; }
				// the number after the gap; a gap that reaches the latest number may be announced up to any never-used number
				if (n36 != j && !(j == last_now + 1 && n36 > j)) {
					V("gaps-filled", n36 > j ? "gapfill-newseqno-beyond-gap" : "gapfill-newseqno-short", "34=" + std::to_string(s34) + " 36=" + std::to_string(n36), "36=" + std::to_string(j)); return -1; }
				if (n36 > announced) announced = n36;
				i = j; ++ri;
			}
		}
		// whatever follows may only be gap fills over never-used numbers (well-formed: 36 > 34)
		for (; ri < reply.size(); ++ri) {
			const std::string& m = reply[ri];
			long s34 = atol(tagval(m, 34).c_str()), n36 = atol(tagval(m, 36).c_str());
			if (!is_fill(m)) { V("nothing-else-sent", "extra-message-in-reply", "35=" + tagval(m, 35) + " 34=" + tagval(m, 34), "only replays and gap fills"); return -1; }
			// a fill that skips numbers which were used and lie outside the request is not faithful
			if (s34 <= last_now && hi < last_now) { V("nothing-else-sent", "gapfill-over-unrequested-used-numbers", "34=" + std::to_string(s34) + " 36=" + std::to_string(n36), "nothing after number " + std::to_string(hi)); return -1; }
			if (n36 <= s34) { V("gaps-filled", "gapfill-not-increasing", "34=" + std::to_string(s34) + " 36=" + std::to_string(n36), "36 > 34"); return -1; }
			if (n36 > announced) announced = n36;
		}
		R.outcome("replayed");
		return std::max(n_send_now, announced);
	};
	{
		long want = request(c.B, c.E, n_send, "first");
		if (want < 0) goto done;
		if (c.B2 >= 0) { sim::advance_ms(1000); want = request(c.B2, c.E2, want, "second"); if (want < 0) goto done; }
		// the next new message continues from the last NewSeqNo announced (or the old next number)
		sim::advance_ms(1000);
		w.ses->send(World::nos("NEXT"));
		std::vector<std::string> after = w.take_out(&garbage);
		if (verbose) for (auto& m : after) fprintf(stderr, "  NEXT  %s\n", vh::show(m).c_str());
		reply = after;
		if (after.size() != 1 || tagval(after[0], 35) != "D") { V("continues-after", "next-send-missing", std::to_string(after.size()) + " messages", "one new application message"); goto done; }
		if (atol(tagval(after[0], 34).c_str()) != want) { V("continues-after", "next-number-wrong", "34=" + tagval(after[0], 34), "34=" + std::to_string(want)); goto done; }
		if (w.ses->is_shutdown()) { V("continues-after", "session-ended", "shutdown", "session continues"); goto done; }
		R.outcome("ok");
	}
done:
	w.teardown(); w.remove_files();
}

int main(int argc, char **argv)
{
	vh::Run R(argc, argv);
	GlobalLogger::set_levels(Logger::Levels(Logger::None));
	const int N = (int)R.args.num("n", 3), N2 = (int)R.args.num("n2", 3);	// n2: second requests for histories of up to n2 sends
	if (R.single) {
		Case c; sscanf(R.single_case.c_str(), "%d:%d:%d:%u:%d:%d:%d:%d", &c.pk, &c.acc, &c.n, &c.mask, &c.B, &c.E, &c.B2, &c.E2);
		run_case(R, c); R.finish(); return R.violations ? 1 : 0;
	}
	unsigned long long id = 0; bool sampled = false;
	for (int n = 1; n <= N && !R.out_of_time(); ++n)
		for (unsigned mask = 0; mask < (1u << n); ++mask)
			for (int pk = 2; pk >= 0; --pk)
				for (int acc = 1; acc >= 0; --acc)
					for (int B = 0; B <= n + 3; ++B)
						for (int E = 0; E <= n + 3; ++E, ++id) {
							if (!R.mine(id)) continue;
							if (R.out_of_time()) goto out;
							Case c { pk, acc, n, mask, B, E };
							run_case(R, c);
							// a second request after a valid first one: the whole range again, the same range again, and the range after it
							if (n <= N2 && B >= 1 && (E == 0 || B <= E)) for (int k = 0; k < 3; ++k) {
								Case c2 = c; c2.B2 = k == 0 ? 1 : k == 1 ? B : (E ? E + 1 : n + 1); c2.E2 = k == 1 ? E : 0;
								run_case(R, c2);
							}
							if (!sampled && n == 3 && mask == 5 && B == 2 && E == 0) { sampled = true; R.sample(case_str(c), "persist=file n=3 numbers 2,4 application 3 heartbeat; ResendRequest(2,0)"); }
						}
out:
	R.transitions = R.evaluations; R.traces = R.evaluations;
	R.finish(true);
	return 0;
}
