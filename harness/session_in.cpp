// session_in — C19: inbound messages reach the application only when in sequence.
// History search: a small menu of state-moving prefix events (explored breadth first to the depth bound), and from
// every state reached the full menu of probe events (sequence number x PossDup variant x CompIDs x damage) as a
// final step.  Oracle: the property text, clause by clause, using the MsgSeqNum *field* of the probe.
#include <fix8/f8includes.hpp>
#include "utest_types.hpp"
#include "utest_router.hpp"
#include "utest_classes.hpp"
#include "sim/world.hpp"
#include "explore/bfs.hpp"
using namespace FIX8;
using namespace sim;

static vh::Run *RR;

enum Prefix { P_HB, P_APP, P_AHEAD, P_IDLE_TICK, P_SEND, P_GAPFILL, P_N };
static const char *PN[] = { "in-hb", "in-app", "in-app-ahead", "idle-tick", "send", "in-gapfill" };
// probe dimensions
static const int DSEQ[] = { 0, +1, -1, +3, -2 };	// n - e
enum PossDup { PD_ABSENT, PD_N, PD_Y_OK, PD_Y_LATE, PD_Y_NO122, PD_N_ };
enum Comp { C_OK, C_BAD_SENDER, C_BAD_TARGET, C_N_ };
enum Damage { D_NONE, D_TEXT34_SUBID, D_BAD_CHKSUM, D_MISSING_MAND, D_UNKNOWN_TYPE, D_N_ };
static const char *PDN[] = { "pd-absent", "pd-N", "pd-Y", "pd-Y-orig-after-sending", "pd-Y-no-orig" };
static const char *CN[] = { "comp-ok", "bad-sender", "bad-target" };
static const char *DN[] = { "intact", "hdr-value-has-34=", "bad-checksum", "missing-mandatory", "unknown-msgtype" };
static const int NPROBE = 5 * PD_N_ * C_N_ * D_N_;

struct Cfg { std::string name; WorldCfg w; };

struct Model {
	Cfg cfg;
	int nevents() const { return P_N + NPROBE; }
	std::string evname(int e) const
	{
		if (e < P_N) return PN[e];
		int p = e - P_N; int ds = p % 5; p /= 5; int pd = p % PD_N_; p /= PD_N_; int cp = p % C_N_; p /= C_N_; int dm = p;
		char b[128]; snprintf(b, sizeof b, "probe(n=e%+d,%s,%s,%s)", DSEQ[ds], PDN[pd], CN[cp], DN[dm]); return b;
	}
	bfs::Step run(const bfs::Hist& h, bool verbose)
	{
		bfs::Step st;
		WorldCfg wc = cfg.w; World w(wc);
		sim::vnow_ns = 1700000000LL * 1000000000LL;
		w.connect();
		w.feed(w.inbound("A", 1, std::string("98=0") + SOH + "108=30" + SOH));
		w.take_out();
		long outstanding_rr = 0;	// BeginSeqNo of a ResendRequest sent and not yet satisfied
		int idn = 0;
		for (size_t i = 0; i < h.size(); ++i) {
			int ev = h[i]; const bool last = i + 1 == h.size();
			if (w.ses->is_shutdown()) { st.enabled = false; break; }
			if (ev >= P_N && !last) { st.enabled = false; break; }	// probes are final steps
			const long e = w.ses->nr(); const int state0 = w.ses->st();
			const size_t ndeliv0 = w.ses->rt.got.size();
			if (verbose) fprintf(stderr, "  event %zu: %s   (expected=%ld state=%s)\n", i, evname(ev).c_str(), e, Session::get_session_state_string((States::SessionStates)state0).c_str());
			if (ev < P_N) {
				switch (ev) {
				case P_HB: w.feed(w.inbound("0", e, "")); st.outcome = "ok"; break;
				case P_APP: w.feed(w.inbound("D", e, World::nos_body("A" + std::to_string(i)))); st.outcome = w.ses->rt.got.size() > ndeliv0 ? "delivered" : "not-delivered"; break;
				case P_AHEAD: w.feed(w.inbound("D", e + 2, World::nos_body("H" + std::to_string(i)))); st.outcome = "fed"; break;
				case P_IDLE_TICK: sim::advance_s(40); w.ses->tick(); st.outcome = "ticked"; break;
				case P_SEND: w.ses->send(World::nos("S" + std::to_string(++idn))); st.outcome = "sent"; break;
				case P_GAPFILL: w.feed(w.inbound("4", e, std::string("123=Y") + SOH + "36=" + std::to_string(e + 2) + SOH)); st.outcome = "fed"; break;
				}
				auto out = w.take_out();
				for (auto& m : out) { if (verbose) fprintf(stderr, "    OUT %s\n", vh::show(m).c_str()); if (tagval(m, 35) == "2") outstanding_rr = atol(tagval(m, 7).c_str()); }
				if (w.ses->st() == States::st_continuous && state0 != States::st_continuous) outstanding_rr = 0;
				if ((long)w.ses->nr() > outstanding_rr && outstanding_rr && w.ses->st() != States::st_resend_request_sent) outstanding_rr = 0;
				continue;
			}
			// ---- probe
			int p = ev - P_N; int ds = p % 5; p /= 5; int pd = p % PD_N_; p /= PD_N_; int cp = p % C_N_; p /= C_N_; int dm = p;
			const long n = e + DSEQ[ds];
			if (n < 1) { st.enabled = false; break; }
			std::string extra, pre34, type = "D", body = World::nos_body("PROBE");
			char now_ts[32], late_ts[32]; time_t t = sim::now_s(); struct tm tm; gmtime_r(&t, &tm); strftime(now_ts, sizeof now_ts, "%Y%m%d-%H:%M:%S.000", &tm);
			time_t t2 = t + 60; gmtime_r(&t2, &tm); strftime(late_ts, sizeof late_ts, "%Y%m%d-%H:%M:%S.000", &tm);
			time_t t0 = t - 60; char early_ts[32]; gmtime_r(&t0, &tm); strftime(early_ts, sizeof early_ts, "%Y%m%d-%H:%M:%S.000", &tm);
			switch (pd) {
			case PD_N: extra = std::string("43=N") + SOH; break;
			case PD_Y_OK: extra = std::string("43=Y") + SOH + "122=" + early_ts + SOH; break;
			case PD_Y_LATE: extra = std::string("43=Y") + SOH + "122=" + late_ts + SOH; break;
			case PD_Y_NO122: extra = std::string("43=Y") + SOH; break;
			}
			const char *snd = cp == C_BAD_SENDER ? "EVIL" : nullptr, *tgt = cp == C_BAD_TARGET ? "OTHER" : nullptr;
			if (dm == D_TEXT34_SUBID) pre34 = std::string("50=Z34=7") + SOH;
			if (dm == D_MISSING_MAND) body = std::string("11=PROBE") + SOH + "21=1" + SOH + "55=IBM" + SOH + "54=1" + SOH + "60=20231114-22:13:20.000" + SOH;	// OrdType(40) missing
			if (dm == D_UNKNOWN_TYPE) type = "ZZ";
			std::string raw = w.inbound(type, n, body, extra, snd, tgt, pre34);
			if (dm == D_BAD_CHKSUM) { size_t k = raw.size() - 2; raw[k] = raw[k] == '9' ? '0' : raw[k] + 1; }
			if (verbose) fprintf(stderr, "    IN  %s\n", vh::show(raw).c_str());
			w.feed(raw);
			auto out = w.take_out();
			bool rr = false, reject = false, logout = false; long rr_begin = 0;
			for (auto& m : out) {
				if (verbose) fprintf(stderr, "    OUT %s\n", vh::show(m).c_str());
				std::string t35 = tagval(m, 35);
				if (t35 == "2") { rr = true; rr_begin = atol(tagval(m, 7).c_str()); }
				if (t35 == "3" || t35 == "j") reject = true;
				if (t35 == "5") logout = true;
			}
			const bool delivered = w.ses->rt.got.size() > ndeliv0;
			const bool ended = w.ses->is_shutdown();
			if (verbose) fprintf(stderr, "    delivered=%d ended=%d resend_request=%d(begin %ld) reject=%d logout=%d state=%s\n", delivered, ended, rr, rr_begin, reject, logout, Session::get_session_state_string((States::SessionStates)w.ses->st()).c_str());
			// ---- oracle
			const bool enforce = wc.enforce_compids;
			const bool decode_ok = dm == D_NONE || dm == D_TEXT34_SUBID;
			const bool comp_ok = cp == C_OK || !enforce;
			std::string clause, mode, exp;
			auto tagsf = [&]() {
				std::vector<std::string> tg { "cfg:" + cfg.name, std::string("state:") + Session::get_session_state_string((States::SessionStates)state0),
					n == e ? "n=e" : n > e ? "n>e" : "n<e", PDN[pd], CN[cp], DN[dm] };
				if (outstanding_rr) tg.push_back("resend_outstanding");
				return tg;
			};
			if (!decode_ok) {
				if (delivered) { clause = "undecodable-never-delivered"; mode = "undecodable-delivered"; exp = "no delivery"; }
				else if (!reject && !ended) { clause = "undecodable-rejected"; mode = "no-reject-no-logout"; exp = "Reject (or forced logout)"; }
			} else if (!comp_ok) {
				if (delivered) { clause = "wrong-compid-no-delivery"; mode = "delivered-with-wrong-compid"; exp = "no delivery"; }
				else if (!ended) { clause = "wrong-compid-ends-session"; mode = "session-continues"; exp = "session ended with a Logout"; }
				else if (!logout) { clause = "wrong-compid-ends-session"; mode = "ended-without-logout"; exp = "Logout on the wire"; }
			} else if (n == e) {
				if (!delivered) { clause = "in-sequence-delivered"; mode = "in-sequence-not-delivered"; exp = "delivery"; }
			} else if (n > e) {
				if (delivered) { clause = "ahead-not-delivered"; mode = "ahead-delivered"; exp = "no delivery"; }
				else if (ended) { clause = "ahead-triggers-resend"; mode = "ahead-ends-session"; exp = "ResendRequest from " + std::to_string(e) + ", session continues"; }
				else if (!(rr && rr_begin == e) && !(outstanding_rr && outstanding_rr <= e)) { clause = "ahead-triggers-resend"; mode = rr ? "resend-begin-wrong" : "no-resend-request"; exp = "ResendRequest with BeginSeqNo " + std::to_string(e); }
			} else {	// n < e
				if (pd == PD_Y_OK) { if (!delivered) { clause = "possdup-low-delivered"; mode = "possdup-low-not-delivered"; exp = "delivery (PossDup=Y, OrigSendingTime <= SendingTime)"; } }
				else if (pd == PD_Y_LATE) { if (delivered) { clause = "possdup-late-orig-not-delivered"; mode = "delivered-with-orig-after-sending"; exp = "no delivery"; } }
				else if (pd == PD_Y_NO122) { /* property silent */ }
				else {
					if (delivered) { clause = "low-without-possdup-no-delivery"; mode = "low-delivered"; exp = "no delivery"; }
					else if (!ended) { clause = "low-without-possdup-ends-session"; mode = "session-continues"; exp = "session ended with a Logout"; }
					else if (!logout) { clause = "low-without-possdup-ends-session"; mode = "ended-without-logout"; exp = "Logout on the wire"; }
				}
			}
			st.outcome = std::string(delivered ? "delivered" : ended ? (logout ? "logout" : "stopped") : rr ? "resend-req" : reject ? "reject" : "ignored");
			if (!clause.empty()) {
				st.violated = true;
				std::string obs = std::string("delivered=") + (delivered ? "1" : "0") + " ended=" + (ended ? "1" : "0") + " resend_request=" + (rr ? std::to_string(rr_begin) : "none") + " reject=" + (reject ? "1" : "0") + " logout=" + (logout ? "1" : "0");
				std::string desc; for (int x : h) desc += evname(x) + " ";
				RR->viol(clause, mode, tagsf(), cfg.name + ";" + bfs::hist_str(h), obs, exp, desc + " | n=" + std::to_string(n) + " expected=" + std::to_string(e));
			}
			st.key = "probe";	// probes never extend
			st.enabled = true;
			w.teardown();
			st.terminal = true;
			return st;
		}
		st.key = cfg.name + "|st" + std::to_string(w.ses->st()) + "|nr" + std::to_string(w.ses->nr()) + "|ns" + std::to_string(w.ses->ns()) + "|sd" + std::to_string(w.ses->is_shutdown())
			+ "|rr" + std::to_string(outstanding_rr) + "|dl" + std::to_string(w.ses->rt.got.size())
			+ "|idle" + std::to_string(std::min<long long>(200, (sim::vnow_ns - 1700000000LL * 1000000000LL) / 1000000000LL));
		w.teardown();
		return st;
	}
};

int main(int argc, char **argv)
{
	vh::Run R(argc, argv); RR = &R;
	GlobalLogger::set_levels(Logger::Levels(Logger::None));
	const int depth = (int)R.args.num("depth", 3);
	std::vector<Cfg> cfgs;
	auto add = [&](const char *n, bool acc, bool enf) { Cfg c; c.name = n; c.w.acceptor = acc; c.w.pk = P_MEM; c.w.enforce_compids = enf; if (!acc) { c.w.us = "CLI"; c.w.them = "SRV"; } cfgs.push_back(c); };
	add("acc-enforce", true, true); add("ini-enforce", false, true); add("acc-noenforce", true, false);
	if (R.single) {
		size_t sc = R.single_case.find(';'); std::string cn = R.single_case.substr(0, sc);
		for (auto& c : cfgs) if (c.name == cn) { Model M; M.cfg = c; R.begin_case(R.single_case); M.run(bfs::parse_hist(R.single_case.substr(sc + 1)), true); }
		R.finish(); return R.violations ? 1 : 0;
	}
	for (auto& c : cfgs) { Model M; M.cfg = c; bfs::explore(M, R, depth, c.name, 1, P_N); if (R.hit_deadline) break; }
	R.finish(true);
	return 0;
}
