// C24 — session activation follows the configured schedule.
//
// part=timeline   Real FIX8::Schedule objects (built by the constructor and by Configuration::create_session_schedule /
//                 create_login_schedule / create_schedule from an XML file) are driven along a virtual timeline: the
//                 executable defines clock_gettime/time, so Tickval(true) inside Schedule::test reads the harness's instant.
//                 Threading of the activity flag is the one of Session::activation_service():
//                     const bool curr(_active); _active = _schedule->_sch.test(curr);
//                 Space: start/end in {00:00:00,00:00:01,09:00,12:00,17:00,23:59:59}, start < end (15) x utc offset
//                 {0,+330,-600} min x ({daily} u {0..6}^2 weekday pairs) (50) = 2250 configurations x 2 builds x runs:
//                     p0/p1/p59  one call every 60 s at phase +0/+1/+59 s
//                     edge       every 60 s plus every second within +-120 s of every local start time, end time and midnight
//                     sec        every second of one week
//                     ..T        same instants, but the flag starts as `true` (what Session::atomic_init sets) instead of
//                                the specification's answer at the first instant
//                 over `weeks` weeks from Sunday 2024-01-07 00:00:00 UTC.
//                 Oracle after every call: returned flag == in_window(instant of the call).
// part=dow        decode_dow on every string of length <= 3 over {a-z,A-Z,0-9,' '} against "a digit 0..6 alone, or
//                 begins with m,w,f,su,sa,tu,th (any case)"; everything else must give -1.
#include <fix8/f8includes.hpp>
#include <fstream>
#include <algorithm>
#include "vh.hpp"
using namespace FIX8;

// ------------------------------------------------------------------------------------------------ virtual clock
static const int64_t T0 = 1704585600;	// 2024-01-07 00:00:00 UTC, a Sunday
static const int64_t DAY = 86400, WEEK = 7 * DAY;
static int64_t vnow = T0;
static unsigned long long clock_reads = 0;
extern "C" int clock_gettime(clockid_t, struct timespec *ts) noexcept { ++clock_reads; ts->tv_sec = vnow; ts->tv_nsec = 0; return 0; }
extern "C" time_t time(time_t *t) noexcept { ++clock_reads; if (t) *t = vnow; return vnow; }

// ------------------------------------------------------------------------------------------------ reference
struct Cfg { int start, end, off, sd, ed; };	// seconds of day, minutes, weekday (-1 = daily)

static inline int64_t fdiv(int64_t a, int64_t b) { int64_t q = a / b; return (a % b != 0 && ((a < 0) != (b < 0))) ? q - 1 : q; }

// The specification.  local time = UTC + utc_offset_mins.
//   daily : time of day within [start, end]
//   weekly: the window opens at "start_day at start"; it closes at the first "end_day at end" at or after that
//           (equal days: inside that day; start_day > end_day: across the week boundary).  t is inside a window iff
//           it is not later than the closing instant that follows the most recent opening instant.
static bool in_window(const Cfg& c, int64_t t)
{
	const int64_t L = t + (int64_t)c.off * 60;
	const int64_t day = fdiv(L, DAY);
	const int64_t tod = L - day * DAY;
	if (c.sd < 0) return c.start <= tod && tod <= c.end;
	const int wd = (int)(((day + 4) % 7 + 7) % 7);	// 1970-01-01 was a Thursday
	const int64_t sunday = (day - wd) * DAY;			// 00:00 local of the Sunday that begins this week
	int64_t open = sunday + c.sd * DAY + c.start;
	if (open > L) open -= WEEK;							// most recent opening instant
	int64_t close = open - (c.sd * DAY + c.start) + c.ed * DAY + c.end;
	if (close < open) close += WEEK;						// the closing instant that follows it
	return L <= close;
}

static const char *WD[] = { "Sun", "Mon", "Tue", "Wed", "Thu", "Fri", "Sat" };
static std::string hms(int s) { char b[16]; snprintf(b, sizeof b, "%02d:%02d:%02d", s / 3600, s / 60 % 60, s % 60); return b; }
static std::string when(const Cfg& c, int64_t t)
{
	time_t tt = (time_t)t; struct tm g; gmtime_r(&tt, &g);
	const int64_t L = t + (int64_t)c.off * 60; const int64_t day = fdiv(L, DAY);
	char b[128];
	snprintf(b, sizeof b, "%04d-%02d-%02d %02d:%02d:%02dZ (local %s %s)", g.tm_year + 1900, g.tm_mon + 1, g.tm_mday, g.tm_hour, g.tm_min, g.tm_sec,
		WD[((day + 4) % 7 + 7) % 7], hms((int)(L - day * DAY)).c_str());
	return b;
}
static std::string cfg_text(const Cfg& c)
{
	char b[160];
	if (c.sd < 0) snprintf(b, sizeof b, "daily %s-%s utc_offset_mins=%d", hms(c.start).c_str(), hms(c.end).c_str(), c.off);
	else snprintf(b, sizeof b, "weekly %s %s -> %s %s utc_offset_mins=%d", WD[c.sd], hms(c.start).c_str(), WD[c.ed], hms(c.end).c_str(), c.off);
	return b;
}

// ------------------------------------------------------------------------------------------------ the space
static const int TIMES[6] = { 0, 1, 9 * 3600, 12 * 3600, 17 * 3600, 86399 };
static const int OFFS[3] = { 0, 330, -600 };

static std::vector<Cfg> all_configs()
{
	std::vector<std::pair<int, int>> days;
	days.push_back({ -1, -1 });
	for (int s = 0; s < 7; ++s) for (int e = 0; e < 7; ++e) if (s < e) days.push_back({ s, e });
	for (int s = 0; s < 7; ++s) days.push_back({ s, s });
	for (int s = 0; s < 7; ++s) for (int e = 0; e < 7; ++e) if (s > e) days.push_back({ s, e });
	std::vector<Cfg> v;
	for (auto& d : days)
		for (int o = 0; o < 3; ++o)
			for (int a = 0; a < 6; ++a) for (int b = a + 1; b < 6; ++b)
				v.push_back(Cfg{ TIMES[a], TIMES[b], OFFS[o], d.first, d.second });
	return v;
}

static std::vector<std::string> cfg_tags(const Cfg& c, bool init_true)
{
	std::vector<std::string> t;
	if (c.sd < 0) t.push_back("kind:daily");
	else {
		t.push_back("kind:weekly");
		t.push_back(c.sd < c.ed ? "schedule_cfg:start_day<end_day" : c.sd == c.ed ? "schedule_cfg:start_day==end_day" : "schedule_cfg:start_day>end_day");
		if (c.sd == c.ed + 1) t.push_back("schedule_cfg:start_day==end_day+1");
	}
	if (c.end == 86399) t.push_back("end_time:23:59:59");
	if (c.end - c.start < 60) t.push_back("tod_span_lt_tick");
	t.push_back(init_true ? "init:session_true" : "init:spec");
	return t;
}
static std::string join(const std::vector<std::string>& v) { std::string s; for (auto& x : v) { if (!s.empty()) s += ','; s += x; } return s; }

// ------------------------------------------------------------------------------------------------ XML build
// spellings of a weekday accepted by decode_dow; which one is used varies with the configuration index
static std::string day_spelling(int d, unsigned variant)
{
	static const char *full[] = { "Sunday", "Monday", "Tuesday", "Wednesday", "Thursday", "Friday", "Saturday" };
	static const char *shortest[] = { "su", "m", "tu", "w", "th", "f", "sa" };
	switch (variant % 5) {
	case 0: return std::string(1, (char)('0' + d));
	case 1: { std::string s(full[d], 2); s[0] = (char)tolower(s[0]); return s; }
	case 2: return full[d];
	case 3: { std::string s(full[d], 3); for (auto& ch : s) ch = (char)toupper(ch); return s; }
	default: return shortest[d];
	}
}
static std::string xml_for(const std::vector<std::pair<unsigned, Cfg>>& cfgs)
{
	std::ostringstream o;
	o << "<?xml version='1.0' encoding='ISO-8859-1'?>\n<fix8>\n"
	  << "\t<default role=\"acceptor\" fix_version=\"4200\" ip=\"0.0.0.0\" port=\"11001\" heartbeat_interval=\"10\"/>\n";
	for (auto& p : cfgs) {
		const unsigned i = p.first; const Cfg& c = p.second;
		std::ostringstream a;
		a << " start_time=\"" << hms(c.start) << "\" end_time=\"" << hms(c.end) << "\"";
		if (c.off != 0 || (i & 1)) a << " utc_offset_mins=\"" << c.off << "\"";		// absent = 0
		if (c.sd >= 0) {
			a << " start_day=\"" << day_spelling(c.sd, i + c.sd) << "\"";
			if (!(c.sd == c.ed && (i & 1))) a << " end_day=\"" << day_spelling(c.ed, i + 2 + c.ed) << "\"";	// absent = start_day
		}
		o << "\t<session name=\"S" << i << "\" active=\"true\" sender_comp_id=\"A" << i << "\" schedule=\"c" << i << "\" login=\"c" << i << "\"/>\n"
		  << "\t<schedule name=\"c" << i << "\"" << a.str() << " reject_code=\"7\" reject_text=\"closed\"/>\n"
		  << "\t<login name=\"c" << i << "\"" << a.str() << "/>\n";
	}
	o << "</fix8>\n";
	return o.str();
}
static std::string sched_fields(const Schedule& s)
{
	char b[200];
	snprintf(b, sizeof b, "start=%lldns end=%lldns utc_offset=%d start_day=%d end_day=%d toffset=%lldns", (long long)s._start.get_ticks(), (long long)s._end.get_ticks(),
		s._utc_offset, s._start_day, s._end_day, (long long)s._toffset);
	return b;
}
static bool same_fields(const Schedule& s, const Cfg& c)
{
	return s._start.get_ticks() == (Tickval::ticks)c.start * Tickval::second && s._end.get_ticks() == (Tickval::ticks)c.end * Tickval::second
		&& s._utc_offset == c.off && s._start_day == c.sd && s._end_day == c.ed && s._toffset == (Tickval::ticks)c.off * Tickval::minute;
}
static Schedule direct(const Cfg& c)
{
	return Schedule(Tickval((Tickval::ticks)c.start * Tickval::second), Tickval((Tickval::ticks)c.end * Tickval::second), Tickval(), c.off, c.sd, c.ed);
}

// ------------------------------------------------------------------------------------------------ timelines
struct RunSpec { std::string name; int phase; bool dense, everysec, init_true; };
static bool run_spec(const std::string& n, RunSpec& r)
{
	r = RunSpec{ n, 0, false, false, false };
	std::string b = n;
	if (!b.empty() && b.back() == 'T') { r.init_true = true; b.pop_back(); }
	if (b == "p0") r.phase = 0; else if (b == "p1") r.phase = 1; else if (b == "p59") r.phase = 59;
	else if (b == "edge") r.dense = true; else if (b == "sec") r.everysec = true; else return false;
	return true;
}
static void instants(const Cfg& c, const RunSpec& r, int weeks, std::vector<int64_t>& out)
{
	out.clear();
	if (r.everysec) { for (int64_t t = T0; t < T0 + WEEK; ++t) out.push_back(t); return; }
	const int64_t end = T0 + (int64_t)weeks * WEEK;
	for (int64_t t = T0 + r.phase; t < end; t += 60) out.push_back(t);
	if (!r.dense) return;
	// every second around every local start time, end time and midnight of every day that touches the timeline
	const int64_t offs = (int64_t)c.off * 60;
	for (int64_t d = fdiv(T0 + offs, DAY) - 1; d <= fdiv(end + offs, DAY) + 1; ++d) {
		const int64_t marks[3] = { d * DAY + c.start - offs, d * DAY + c.end - offs, d * DAY - offs };
		for (int64_t m : marks)
			for (int64_t t = std::max(T0, m - 120); t <= m + 120 && t < end; ++t) out.push_back(t);
	}
	std::sort(out.begin(), out.end());
	out.erase(std::unique(out.begin(), out.end()), out.end());
}

struct Tally { unsigned long long calls = 0, timelines = 0, mismatches = 0, episodes = 0, agree_active = 0, agree_inactive = 0, clean = 0, dirty = 0; };

// one timeline; returns number of episodes (maximal runs of consecutive calls whose answer differs from the specification)
static unsigned run_timeline(vh::Run& R, const Schedule& sch, const Cfg& c, const RunSpec& rs, const std::vector<int64_t>& ts,
	const std::string& replay, std::vector<uint64_t>& bits, Tally& T, bool verbose)
{
	const std::vector<std::string> tags = cfg_tags(c, rs.init_true);
	bool active = rs.init_true ? true : in_window(c, ts[0]);		// Session::atomic_init sets _active = true
	bool in_ep = false, ep_lib = false, prev_lib = active, seen_t = false, seen_f = false;
	int64_t ep_first = 0; unsigned long long ep_calls = 0; unsigned episodes = 0;
	const unsigned long long reads0 = clock_reads;
	auto close_episode = [&](const char *ending, int64_t t_end) {
		const bool weekly = c.sd >= 0;
		const std::string clause = !weekly ? "daily-active-exactly-within-start-end" : ep_lib ? "weekly-inactive-outside-window" : "weekly-active-throughout-window";
		const std::string mode = std::string(ep_lib ? "active-out-of-window:" : "inactive-in-window:") + ending;
		char ob[400], eb[200];
		snprintf(ob, sizeof ob, "test() returned %s at %s and at the following %llu check(s) up to %s [%s; run %s]", ep_lib ? "active" : "inactive",
			when(c, ep_first).c_str(), ep_calls - 1, when(c, t_end).c_str(), cfg_text(c).c_str(), rs.name.c_str());
		snprintf(eb, sizeof eb, "%s at every one of these instants", ep_lib ? "inactive" : "active");
		R.viol(clause, mode, tags, replay, ob, eb, "");
		if (verbose) fprintf(stderr, "  EPISODE %s | %s\n      observed: %s\n      expected: %s\n", clause.c_str(), mode.c_str(), ob, eb);
		++episodes; in_ep = false;
	};
	int64_t last_t = ts[0];
	for (int64_t t : ts) {
		vnow = t;
		const bool curr(active);
		active = sch.test(curr);					// exactly Session::activation_service
		const bool want = in_window(c, t);
		const uint64_t k = (uint64_t)((t - T0) % WEEK) * 2 + (active ? 1 : 0);
		bits[k >> 6] |= 1ULL << (k & 63);
		(want ? seen_t : seen_f) = true;
		if (active != want) {
			++T.mismatches;
			if (in_ep && ep_lib != active) close_episode("flipped-to-the-opposite-error", last_t);
			if (!in_ep) { in_ep = true; ep_lib = active; ep_first = t; ep_calls = 0; }
			++ep_calls;
		} else {
			if (in_ep) {
				const char *ending;
				if (active != prev_lib) {		// the library corrected itself late
					const int64_t lag = t - ep_first;
					ending = lag < 60 ? "corrected-after-lt-1-tick" : lag == DAY ? "corrected-after-1-day" : "corrected-after-other-lag";
				} else ending = "until-window-boundary";	// the specification's answer changed: the whole stretch was missed
				close_episode(ending, last_t);
			}
			++(active ? T.agree_active : T.agree_inactive);
		}
		prev_lib = active; last_t = t;
	}
	if (in_ep) close_episode(last_t - ep_first < DAY ? "open-lt-1-day-at-end-of-timeline" : "until-end-of-timeline", last_t);
	T.calls += ts.size(); ++T.timelines;
	if (clock_reads - reads0 != ts.size()) {		// the library must have read the virtual clock exactly once per call
		R.viol("harness-self-check", "virtual-clock-not-read-once-per-call", {}, replay, std::to_string(clock_reads - reads0) + " clock reads", std::to_string(ts.size()) + " calls", "");
		if (verbose) fprintf(stderr, "  clock reads %llu != calls %zu\n", clock_reads - reads0, ts.size());
	}
	if (seen_t && seen_f) R.nontrivial += (long long)ts.size();
	++(episodes ? T.dirty : T.clean);
	T.episodes += episodes;
	if (verbose) fprintf(stderr, "timeline %s: %s, %zu calls from %s to %s, initial flag %s, %u episode(s) of disagreement with the specification\n",
		replay.c_str(), cfg_text(c).c_str(), ts.size(), when(c, ts.front()).c_str(), when(c, ts.back()).c_str(),
		rs.init_true ? "true (Session::atomic_init)" : "specification's answer", episodes);
	return episodes;
}

// ------------------------------------------------------------------------------------------------ decode_dow
static int ref_dow(const std::string& s)
{
	if (s.empty()) return -1;
	std::string l; for (unsigned char ch : s) l += (char)tolower(ch);
	if (l.size() == 1 && l[0] >= '0' && l[0] <= '6') return l[0] - '0';
	static const struct { const char *p; int d; } P[] = { { "m", 1 }, { "w", 3 }, { "f", 5 }, { "su", 0 }, { "sa", 6 }, { "tu", 2 }, { "th", 4 } };
	for (auto& p : P) if (l.compare(0, strlen(p.p), p.p) == 0) return p.d;
	return -1;
}
static void judge_dow(vh::Run& R, const std::string& s, bool verbose)
{
	const int got = decode_dow(s), want = ref_dow(s);
	const std::string rep = "D:" + vh::hex(s);
	if (verbose) fprintf(stderr, "decode_dow(\"%s\") = %d, specification %d\n", s.c_str(), got, want);
	if (got == want) { R.outcome(want < 0 ? "dow:rejected" : "dow:decoded"); return; }
	R.outcome("dow:mismatch");
	const char *mode = want < 0 ? (got >= 0 && got <= 6 ? "accepted-invalid-name" : "invalid-name-gives-other-than-minus-1")
		: got < 0 ? "rejected-valid-name" : "decoded-wrong-day";
	R.viol("weekday-name-decoding", mode, { "dow_len:" + std::to_string(s.size()) }, rep, "decode_dow(\"" + s + "\")=" + std::to_string(got), std::to_string(want), "");
}
static void finish_with(vh::Run& R, bool done, unsigned long long transitions, unsigned long long traces);
static int part_dow(vh::Run& R)
{
	static const std::string A = "abcdefghijklmnopqrstuvwxyzABCDEFGHIJKLMNOPQRSTUVWXYZ0123456789 ";
	if (R.single) {
		R.begin_case(R.single_case);
		judge_dow(R, vh::unhex(R.single_case.substr(2)), true);
		finish_with(R, true, 0, 0); return R.violations ? 1 : 0;
	}
	auto nontriv = [](const std::string& s) { return !s.empty() && (strchr("smtwfSMTWF", s[0]) || isdigit((unsigned char)s[0])); };
	unsigned long long id = 0;
	if (R.mine(id)) {	// id 0: the empty string and all strings of length 1
		R.begin_case("D:", "dow"); judge_dow(R, "", false);
		for (char a : A) { std::string s(1, a); R.begin_case("D:" + vh::hex(s), "dow"); judge_dow(R, s, false); if (nontriv(s)) ++R.nontrivial; }
	}
	for (char a : A) {	// ids 1..63: lengths 2 and 3 by first character
		++id;
		if (!R.mine(id) || R.out_of_time()) continue;
		for (char b : A) {
			std::string s; s += a; s += b;
			R.begin_case("D:" + vh::hex(s), "dow"); judge_dow(R, s, false); if (nontriv(s)) ++R.nontrivial;
			for (char c : A) {
				std::string s3 = s + c;
				R.begin_case("D:" + vh::hex(s3), "dow"); judge_dow(R, s3, false); if (nontriv(s3)) ++R.nontrivial;
			}
		}
	}
	R.sample("D:" + vh::hex("Th "), "decode_dow(\"Th \") must be 4");
	R.sample("D:" + vh::hex("t"), "decode_dow(\"t\") must be -1 (ambiguous)");
	finish_with(R, true, 0, 0);		// no timeline here: contributes neither transitions nor traces
	return 0;
}

// like vh::Run::finish, plus the top-level "transitions"/"traces" fields the driver aggregates for model_checking evidence
static void finish_with(vh::Run& R, bool done, unsigned long long transitions, unsigned long long traces)
{
	vh::Json j; j.str("t", "stat").num("evaluations", R.evaluations).num("nontrivial", R.nontrivial)
		.num("violations", R.violations).boolean("done", done && !R.hit_deadline)
		.num("transitions", (long long)transitions).num("traces", (long long)traces);
	std::string o = "{"; bool f = true;
	for (auto& p : R.outcomes) { if (!f) o += ','; f = false; o += vh::jesc(p.first) + ":" + std::to_string(p.second); }
	o += "}"; j.raw("outcomes", o);
	std::string c = "{"; f = true;
	for (auto& p : R.counters) { if (!f) c += ','; f = false; c += vh::jesc(p.first) + ":" + std::to_string(p.second); }
	c += "}"; j.raw("counters", c);
	printf("%s\n", j.done().c_str());
	fflush(stdout);
}

// ------------------------------------------------------------------------------------------------ main
int main(int argc, char **argv)
{
	vh::Run R(argc, argv);
	if (R.args.get("part", "timeline") == "dow" || (R.single && R.single_case.compare(0, 2, "D:") == 0)) return part_dow(R);

	const int weeks = (int)R.args.num("weeks", 1);
	std::vector<RunSpec> runs;
	{
		std::stringstream ss(R.args.get("runs", "p0,edge,p0T")); std::string n;
		while (std::getline(ss, n, ',')) { RunSpec r; if (!run_spec(n, r)) { fprintf(stderr, "unknown run '%s'\n", n.c_str()); return 2; } runs.push_back(r); }
	}
	const std::vector<Cfg> cfgs = all_configs();
	std::vector<uint64_t> bits((size_t)(WEEK * 2 / 64 + 1));
	std::vector<int64_t> ts;
	Tally T;
	char xmlname[64];

	// replay string:  T:<config index>,<build>,<run>,<weeks>     build: ctor | xml
	if (R.single) {
		unsigned idx = 0, w = 1; char bld[16] = "", rn[16] = "";
		if (sscanf(R.single_case.c_str(), "T:%u,%15[^,],%15[^,],%u", &idx, bld, rn, &w) != 4 || idx >= cfgs.size()) { fprintf(stderr, "bad case\n"); return 2; }
		RunSpec rs; if (!run_spec(rn, rs)) { fprintf(stderr, "bad run\n"); return 2; }
		const Cfg& c = cfgs[idx];
		R.begin_case(R.single_case, join(cfg_tags(c, rs.init_true)));
		instants(c, rs, (int)w, ts);
		R.evaluations += (long long)ts.size() - 1;
		if (!strcmp(bld, "ctor")) {
			const Schedule s(direct(c));
			fprintf(stderr, "Schedule constructed directly: %s\n", sched_fields(s).c_str());
			run_timeline(R, s, c, rs, ts, R.single_case, bits, T, true);
		} else {
			snprintf(xmlname, sizeof xmlname, "c24_single_%d.xml", (int)getpid());
			const std::string x = xml_for({ { idx, c } });
			{ std::ofstream f(xmlname); f << x; }
			fprintf(stderr, "%s", x.c_str());
			try {
				Configuration conf(xmlname, true);
				std::unique_ptr<Session_Schedule> ss(conf.create_session_schedule(conf.find_group(Configuration::g_sessions, "S" + std::to_string(idx))));
				if (!ss) { R.viol("schedule-built-as-configured", "no-session-schedule-created", {}, R.single_case, "null", "a schedule", ""); }
				else {
					fprintf(stderr, "Schedule from Configuration::create_session_schedule: %s\n", sched_fields(ss->_sch).c_str());
					if (!same_fields(ss->_sch, c)) R.viol("schedule-built-as-configured", "field-differs", {}, R.single_case, sched_fields(ss->_sch), sched_fields(direct(c)), "");
					run_timeline(R, ss->_sch, c, rs, ts, R.single_case, bits, T, true);
				}
			} catch (std::exception& e) {
				fprintf(stderr, "exception: %s\n", e.what());
				R.viol("schedule-built-as-configured", "configuration-threw", {}, R.single_case, e.what(), "a schedule", "");
			}
			unlink(xmlname);
		}
		finish_with(R, true, T.calls, T.timelines);
		return R.violations ? 1 : 0;
	}

	// the XML file of this process holds every configuration (parsed once; each shard uses its own share)
	snprintf(xmlname, sizeof xmlname, "c24_sched_%u_%d.xml", R.shard_k, (int)getpid());
	std::unique_ptr<Configuration> conf;
	{
		std::vector<std::pair<unsigned, Cfg>> mine;
		for (unsigned i = 0; i < cfgs.size(); ++i) if (i % R.shard_n == R.shard_k && (long long)i >= R.from) mine.push_back({ i, cfgs[i] });
		if (!mine.empty()) {
			{ std::ofstream f(xmlname); f << xml_for(mine); }
			try { conf.reset(new Configuration(xmlname, true)); }
			catch (std::exception& e) { R.viol("schedule-built-as-configured", "configuration-threw", {}, "T:" + std::to_string(mine[0].first) + ",xml,p0,1", e.what(), "configuration accepted", ""); }
			unlink(xmlname);
		}
	}

	unsigned long long states = 0;
	bool done = true;
	for (unsigned idx = 0; idx < cfgs.size(); ++idx) {
		if (!R.mine(idx)) continue;
		if (R.out_of_time()) { done = false; break; }
		const Cfg& c = cfgs[idx];
		std::fill(bits.begin(), bits.end(), 0);
		const Schedule sd(direct(c));
		std::unique_ptr<Session_Schedule> sx;
		const std::string xrep = "T:" + std::to_string(idx) + ",xml," + runs[0].name + "," + std::to_string(weeks);
		if (conf) {
			R.begin_case(xrep, join(cfg_tags(c, false)));
			try {
				const XmlElement *ses = conf->find_group(Configuration::g_sessions, "S" + std::to_string(idx));
				const XmlElement *sch = conf->find_group(Configuration::g_schedules, "c" + std::to_string(idx));
				sx.reset(conf->create_session_schedule(ses));
				if (!sx || !ses || !sch) R.viol("schedule-built-as-configured", "no-session-schedule-created", {}, xrep, "null", "a schedule", "");
				else {
					const Schedule lg(conf->create_login_schedule(ses)), cs(conf->create_schedule(sch));
					const Schedule *three[3] = { &sx->_sch, &lg, &cs };
					for (const Schedule *s : three)
						if (!same_fields(*s, c)) { R.outcome("xml:field-differs"); R.viol("schedule-built-as-configured", "field-differs", {}, xrep, sched_fields(*s), sched_fields(sd), ""); }
						else R.outcome("xml:built-as-configured");
					if (sx->_reject_reason != 7 || sx->_reject_text != "closed") R.viol("schedule-built-as-configured", "reject-attributes-differ", {}, xrep, sx->_reject_text, "closed", "");
				}
			} catch (std::exception& e) {
				R.outcome("xml:threw");
				R.viol("schedule-built-as-configured", "configuration-threw", {}, xrep, e.what(), "a schedule", "");
				sx.reset();
			}
		}
		for (const RunSpec& rs : runs) {
			const int w = rs.everysec ? 1 : weeks;
			instants(c, rs, w, ts);
			for (int b = 0; b < 2; ++b) {
				if (b == 1 && !sx) continue;
				const std::string rep = "T:" + std::to_string(idx) + (b ? ",xml," : ",ctor,") + rs.name + "," + std::to_string(w);
				R.begin_case(rep, join(cfg_tags(c, rs.init_true)));
				R.evaluations += (long long)ts.size() - 1;		// one evaluation = one test() call judged
				run_timeline(R, b ? sx->_sch : sd, c, rs, ts, rep, bits, T, false);
				if (idx == 17 * 15 + 9 && b == 0 && &rs == &runs[0]) R.sample(rep, cfg_text(c) + ", run " + rs.name);
				if (idx == 1500 && b == 1 && &rs == &runs[0]) R.sample(rep, cfg_text(c) + ", run " + rs.name + ", built from XML");
			}
		}
		for (uint64_t wrd : bits) states += (unsigned long long)__builtin_popcountll(wrd);
	}
	R.outcome("call:agree-active", (long long)T.agree_active);
	R.outcome("call:agree-inactive", (long long)T.agree_inactive);
	R.outcome("call:disagree", (long long)T.mismatches);
	R.outcome("timeline:no-disagreement", (long long)T.clean);
	R.outcome("timeline:with-disagreement", (long long)T.dirty);
	R.counters["states"] = (long long)states;		// distinct (configuration, instant mod week, flag returned)
	R.counters["test_calls"] = (long long)T.calls;
	R.counters["timelines"] = (long long)T.timelines;
	R.counters["episodes"] = (long long)T.episodes;
	R.counters["virtual_clock_reads"] = (long long)clock_reads;
	finish_with(R, done, T.calls, T.timelines);
	return 0;
}
