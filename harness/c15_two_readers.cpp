// c15_two_readers — C15, part "two connections in one process": the reader of each connection frames its own byte stream
// exactly, whatever the other connection's reader does meanwhile (schedule search on the real FIXReader, threaded model).
// Two real Connections, each with its own scripted socket and recording Session; two harness threads run the real reader
// loop (FIXReader::execute, threaded process model) of one connection each.  Every receiveBytes call is a scheduling point and
// answers with at most CHUNK bytes, so a reader can be interrupted anywhere inside the preamble, the BodyLength digits, the
// body or the trailer.  All schedules up to a preemption bound.
// args: msgs=<messages per stream> chunk=<max bytes per receiveBytes, 0 = all> bound=<n>
#include <fix8/f8includes.hpp>
#include "utest_types.hpp"
#include "utest_router.hpp"
#include "utest_classes.hpp"
#include "sim/sim.hpp"
#include <pthread.h>
#include "sched/explore.hpp"
using namespace FIX8;
using namespace sim;

struct RecSes : Session {
	std::vector<std::string> handed;
	RecSes(const F8MetaCntx& c, const sender_comp_id& sci) : Session(c, sci, nullptr) {}
	bool process(const f8String& from) override { handed.push_back(from); return true; }
	bool handle_application(const unsigned, const Message *&) override { return true; }
};
struct PSock : ScriptSock {
	size_t maxchunk = 0;
	int receiveBytes(void *b, int len, int f) override { vs_point(9002); if (maxchunk && (size_t)len > maxchunk) len = (int)maxchunk; return ScriptSock::receiveBytes(b, len, f); }
};

static int NMSG = 2; static size_t CHUNK = 24;
struct Side { PSock *sock; Poco::Net::StreamSocket *ps; RecSes *ses; ServerConnection *conn; std::vector<std::string> msgs; int rv; };
static Side S[2];

static std::string msg(const char *who, long seq, size_t pad)
{
	Hdr h; h.type = "D"; h.sender = who; h.target = "SRV"; h.seq = seq;
	return mk("FIX.4.2", h, "11=" + std::string(pad, who[0]) + SOH + "21=1" + SOH + "55=IBM" + SOH + "54=1" + SOH + "60=20231114-22:13:20.000" + SOH + "40=1" + SOH);
}
static void *reader(void *a)
{
	Side& s = S[(long)a];
	try { s.rv = s.conn->_reader.execute(s.conn->_reader.cancellation_token()); } catch (std::exception&) { s.rv = -99; }
	return 0;
}

static std::string body()
{
	Poco::Net::SocketAddress addr("127.0.0.1", 9999);
	for (int i = 0; i < 2; ++i) {
		Side& s = S[i]; s.msgs.clear(); s.rv = 0;
		const char *who = i ? "BBB" : "AAA";
		for (int k = 0; k < NMSG; ++k) s.msgs.push_back(msg(who, k + 1, 3 + 40 * i + 17 * k));	// different lengths on the two streams
		s.sock = new PSock; s.sock->maxchunk = CHUNK; s.ps = new Poco::Net::StreamSocket(s.sock);
		for (auto& m : s.msgs) s.sock->in += m;
		s.sock->eof = true;
		vs_suspend(1); s.ses = new RecSes(UTEST::ctx(), sender_comp_id("SRV")); vs_suspend(0);	// the constructor starts the timer thread: never run
		s.conn = new ServerConnection(s.ps, addr, *s.ses, 30, pm_thread);
		s.ses->_connection = s.conn; s.ses->_state = States::st_continuous;
	}
	pthread_t pt[2];
	for (long i = 0; i < 2; ++i) pthread_create(&pt[i], 0, reader, (void *)i);
	for (int i = 0; i < 2; ++i) pthread_join(pt[i], 0);
	std::string verdict, summary;
	for (int i = 0; i < 2; ++i) {
		Side& s = S[i];
		summary += std::to_string(s.ses->handed.size()) + "/" + std::to_string(s.msgs.size()) + ",";
		for (size_t k = 0; k < s.ses->handed.size() && verdict.empty(); ++k)
			if (k >= s.msgs.size() || s.ses->handed[k] != s.msgs[k]) verdict = "frames-exactly|connection " + std::to_string(i) + " message " + std::to_string(k) + " handed to the session as " + vh::show(s.ses->handed[k]).substr(0, 150) + " , sent " + (k < s.msgs.size() ? vh::show(s.msgs[k]).substr(0, 150) : std::string("nothing"));
		if (verdict.empty() && s.ses->handed.size() != s.msgs.size()) verdict = "frames-exactly|connection " + std::to_string(i) + ": " + std::to_string(s.ses->handed.size()) + " of " + std::to_string(s.msgs.size()) + " messages handed to the session";
	}
	for (int i = 0; i < 2; ++i) { Side& s = S[i]; s.ses->_connection = nullptr; delete s.conn; delete s.ps; vs_suspend(1); delete s.ses; vs_suspend(0); }
	return (verdict.empty() ? "OK|" : "BAD|" + verdict + "|") + summary;
}

int main(int argc, char **argv)
{
	vh::Run R(argc, argv);
	GlobalLogger::set_levels(Logger::Levels(Logger::None));
	NMSG = (int)R.args.num("msgs", 2); CHUNK = (size_t)R.args.num("chunk", 24); const int bound = (int)R.args.num("bound", 2);
	auto judge = [&](const sx::Exec& x, const std::string& id) {
		std::vector<std::string> tags { "two-connections" };
		if (x.end != "OK") { R.outcome(x.end); R.viol(x.end.compare(0, 5, "CRASH") == 0 ? "memory-safe-and-total" : "reader-total", "schedule-ends:" + x.end.substr(0, x.end.find(':')), tags, id, x.end + " " + x.err.substr(0, 400), "both readers run to the end of their streams"); return; }
		size_t a = x.outcome.find('|');
		if (x.outcome.substr(0, a) != "OK") { size_t b = x.outcome.find('|', a + 1), c = x.outcome.find('|', b + 1); R.outcome("bad"); R.viol(x.outcome.substr(a + 1, b - a - 1), "handed-message-differs", tags, id, x.outcome.substr(b + 1, c - b - 1), "each connection's messages, unchanged and in order"); return; }
		R.outcome("ok");
		if (R.samples_emitted < 2 && x.preemptions() >= 1) R.sample(id, "messages handed / sent per connection: " + x.outcome.substr(a + 1) + " (" + std::to_string(x.pts.size()) + " scheduling points)");
	};
	if (R.single) {
		size_t sc = R.single_case.find(';'); sscanf(R.single_case.c_str(), "m%dc%zu", &NMSG, &CHUNK);
		R.begin_case(R.single_case); sx::Exec x = sx::run_once(body, sx::parse_choices(R.single_case.substr(sc + 1))); judge(x, R.single_case);
		fprintf(stderr, "schedule %s: end=%s outcome=%s points=%zu preemptions=%d\n%s", R.single_case.c_str(), x.end.c_str(), x.outcome.c_str(), x.pts.size(), x.preemptions(), x.err.substr(0, 2000).c_str());
		R.finish(); return R.violations ? 1 : 0;
	}
	sx::Stats St;
	sx::explore(R, "m" + std::to_string(NMSG) + "c" + std::to_string(CHUNK), body, judge, bound, St);
	R.counters["bound_completed"] = St.bound_completed; R.counters["max_points"] = St.maxpts;
	R.traces = St.execs;
	R.finish(!St.capped);
	return 0;
}
