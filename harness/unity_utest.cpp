// one translation unit for the generated FIX42UTEST code
#include "utest_types.cpp"
#include "utest_traits.cpp"
#include "utest_classes.cpp"
