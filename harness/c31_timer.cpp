// c31_timer — C31: timer events fire no earlier than scheduled and in due order (schedule search on the real Timer<T>).
// A real Timer<Mon> (granularity 1 ms) whose thread is the real one (Timer::start()), run under the cooperative scheduler
// with virtual time.  The main thread executes a *script*: a sequence of steps from
//    o<d>  schedule a one-shot event, delay d ms            r<d>  schedule a repeating event whose callback returns true
//    f<d>  repeating, callback returns false on its 1st run   g<d>  repeating, callback returns false on its 2nd run
//    w<n>  sleep n ms (hypersleep)                            c     Timer::clear()
// with d in {1,2,5}, n in {1,3}; then it sleeps to the horizon (12 ms after start), calls stop()/join() and deletes the
// timer.  Outer dimension: every script up to a length (id = position in length-then-lexicographic order, sharded with
// R.mine); inner dimension: every schedule of main vs timer thread with at most `bound` preemptions (sx::explore with its
// own first-level sharding switched off).  The oracle judges the callback log of every execution.
#include <fix8/f8includes.hpp>
#include <pthread.h>
#include "sched/explore.hpp"
using namespace FIX8;

// ---- recycled OS threads (plain variant only) ---------------------------------------------------------------------------
// One execution = one creation of the timer thread, and creating a thread costs ~1 ms here and is serialised system-wide,
// which alone would limit the search to ~800 schedules/s over all shards.  sched.cpp creates/joins through
// __interceptor_pthread_create/join when those symbols exist (they are ASan's); in the build without a sanitizer they do
// not, so this TU provides them: the "new thread" is an idle worker OS thread that runs the start routine handed over by
// the scheduler (its trampoline, hence the real Timer::operator()) and goes back to sleep when it returns; join waits for
// that return.  Everything the scheduler and fix8 see is unchanged (a thread with its own stack and pthread_self, started
// and finished once per execution); pool=0 switches it off, the ASan part never has it, and the schedule counts of the
// two modes are compared in the registry's notes.  A forked child starts with an empty pool (the workers are not there).
#if !defined(__SANITIZE_ADDRESS__) && !defined(__SANITIZE_THREAD__)
#include <dlfcn.h>
#include <linux/futex.h>
namespace pool {
struct W { pthread_t pt; int go, fin; void *(*fn)(void *); void *arg; void *ret; bool busy; };
static W w[16]; static int nw = 0; static bool on = true, hooked = false;
static int (*libc_create)(pthread_t *, const pthread_attr_t *, void *(*)(void *), void *);
static int (*libc_join)(pthread_t, void **);
static void fwait(int *a) { while (__atomic_load_n(a, __ATOMIC_ACQUIRE) == 0) syscall(SYS_futex, a, FUTEX_WAIT, 0, 0, 0, 0); __atomic_store_n(a, 0, __ATOMIC_RELEASE); }
static void fwake(int *a) { __atomic_store_n(a, 1, __ATOMIC_RELEASE); syscall(SYS_futex, a, FUTEX_WAKE, 1, 0, 0, 0); }
static void *loop(void *p) { W *x = (W *)p; for (;;) { fwait(&x->go); x->ret = x->fn(x->arg); fwake(&x->fin); } return 0; }
static void in_child() { nw = 0; }
static void init() { if (libc_create) return; libc_create = (decltype(libc_create))dlsym(RTLD_NEXT, "pthread_create"); libc_join = (decltype(libc_join))dlsym(RTLD_NEXT, "pthread_join"); }
}
extern "C" int __interceptor_pthread_create(pthread_t *t, const pthread_attr_t *a, void *(*fn)(void *), void *arg)
{
	pool::init();
	if (!pool::on) return pool::libc_create(t, a, fn, arg);
	if (!pool::hooked) { pool::hooked = true; pthread_atfork(0, 0, pool::in_child); }
	pool::W *x = 0; for (int i = 0; i < pool::nw && !x; ++i) if (!pool::w[i].busy) x = &pool::w[i];
	if (!x) {
		if (pool::nw >= 16) return EAGAIN;
		x = &pool::w[pool::nw]; memset(x, 0, sizeof *x);
		if (int r = pool::libc_create(&x->pt, 0, pool::loop, x)) return r;
		++pool::nw;
	}
	x->fn = fn; x->arg = arg; x->busy = true; *t = x->pt; pool::fwake(&x->go);
	return 0;
}
extern "C" int __interceptor_pthread_join(pthread_t t, void **r)
{
	pool::init();
	if (!pool::on) return pool::libc_join(t, r);
	for (int i = 0; i < pool::nw; ++i) if (pthread_equal(pool::w[i].pt, t)) {
		if (!pool::w[i].busy) return ESRCH;		// joined before (Timer::~Timer and ~_f8_threadcore join again)
		pool::fwait(&pool::w[i].fin); pool::w[i].busy = false; if (r) *r = pool::w[i].ret; return 0;
	}
	return ESRCH;
}
#define HAVE_POOL 1
#else
#define HAVE_POOL 0
#endif

// ---- script alphabet ------------------------------------------------------------------------------------------------
static const int DELAYS[3] = { 1, 2, 5 }, SLEEPS[2] = { 1, 3 };
enum Kind { K_ONCE, K_REP, K_REPF1, K_REPF2, K_SLEEP, K_CLEAR, K_SLOW };	// K_SLOW: one-shot whose callback takes SLOW_MS of (virtual) time
struct Step { Kind kind; int ms; };
static const int NSTEP = 18;	// 12 schedule variants + 2 sleeps + clear + 3 slow one-shots
static const int SLOW_MS = 2;
static Step step_of(int code)
{
	if (code < 12) return Step { (Kind)(code / 3), DELAYS[code % 3] };	// o1 o2 o5 r1 r2 r5 f1 f2 f5 g1 g2 g5
	if (code < 14) return Step { K_SLEEP, SLEEPS[code - 12] };
	if (code == 14) return Step { K_CLEAR, 0 };
	return Step { K_SLOW, DELAYS[code - 15] };	// s1 s2 s5
}
static std::string step_str(const Step& s)
{
	static const char L[] = "orfgwcs";
	return s.kind == K_CLEAR ? std::string("c") : std::string(1, L[s.kind]) + std::to_string(s.ms);
}
static std::string script_str(const std::vector<Step>& sc)
{ if (sc.empty()) return "-"; std::string o; for (size_t i = 0; i < sc.size(); ++i) { if (i) o += '.'; o += step_str(sc[i]); } return o; }
static bool parse_script(const std::string& s, std::vector<Step>& sc)
{
	sc.clear(); if (s == "-" || s.empty()) return true;
	std::istringstream is(s); std::string t;
	while (std::getline(is, t, '.')) {
		if (t == "c") { sc.push_back(Step { K_CLEAR, 0 }); continue; }
		if (t[0] == 's' && t.size() >= 2) { sc.push_back(Step { K_SLOW, atoi(t.c_str() + 1) }); continue; }
		const char *p = strchr("orfgw", t[0]); if (!p || t.size() < 2) return false;
		sc.push_back(Step { (Kind)(p - "orfgw"), atoi(t.c_str() + 1) });
	}
	return true;
}
static bool is_sched(Kind k) { return k <= K_REPF2 || k == K_SLOW; }
static bool is_rep(Kind k) { return k == K_REP || k == K_REPF1 || k == K_REPF2; }
static int false_at(Kind k) { return k == K_REPF1 ? 1 : k == K_REPF2 ? 2 : 0; }	// callback returns false from this invocation on (0 = never)

// ---- observation records (execution is serialised by the scheduler: a plain global sequence is a total order) ---------
struct RunRec { int ev; long long t; long seq; bool ret; };
struct EvRec { Kind kind; int delay; long long t_call = -1; long seq_call = 0, seq_ret = 0; bool ok = false; std::vector<int> runs; };
struct ClrRec { long seq_call = 0, seq_ret = 0; long long t = 0; size_t n = 0; };
static std::vector<RunRec> rlog; static std::vector<EvRec> evs; static std::vector<ClrRec> clrs; static long gseq = 0;
static long long MS = 1000000LL;	// one unit of the script alphabet in ns: 1 ms times the scale
static int SC = 1;	// scale=K: granularity, delays, intervals, sleeps and the horizon are all K ms units (scale=1000: intervals of 1, 2 and 5 seconds)
static int HORIZON = 12, SLACK = 2;
static std::vector<Step> SCRIPT;

struct Mon {
	bool fire(int i)
	{
		VS_BOOKKEEPING_BEGIN();	// the harness' own event log, serialised by the scheduler (see sched.h)
		EvRec& e = evs[i]; const int k = (int)e.runs.size() + 1, fa = false_at(e.kind);
		const bool ret = !(fa && k >= fa);
		e.runs.push_back((int)rlog.size()); rlog.push_back(RunRec { i, vs_now(), ++gseq, ret });
		const bool slow = e.kind == K_SLOW;
		VS_BOOKKEEPING_END();
		if (slow) hypersleep<h_milliseconds>(SLOW_MS * SC);	// a callback that takes time (the timer's lock is held meanwhile, as the library documents)
		return ret;
	}
	template<int I> bool cb() { return fire(I); }
};
typedef bool (Mon::*CbPtr)();
static const CbPtr CB[8] = { &Mon::cb<0>, &Mon::cb<1>, &Mon::cb<2>, &Mon::cb<3>, &Mon::cb<4>, &Mon::cb<5>, &Mon::cb<6>, &Mon::cb<7> };

static std::string tms(long long ns) { return ns % MS == 0 ? std::to_string(ns / MS) : std::to_string(ns) + "ns"; }

// ---- one execution: script on the real timer, then the oracle ----------------------------------------------------------
static std::string body()
{
	gseq = 0; rlog.clear(); clrs.clear(); evs.clear();
	for (auto& s : SCRIPT) if (is_sched(s.kind)) { EvRec e; e.kind = s.kind; e.delay = s.ms; evs.push_back(e); }
	rlog.reserve(256); clrs.reserve(8);
	Mon mon;
	const long long t0 = vs_now();
	Timer<Mon> *tm = new Timer<Mon>(mon, 1 * SC);
	tm->start();
	int nev = 0;
	for (auto& s : SCRIPT) {
		if (is_sched(s.kind)) {
			EvRec& e = evs[nev];
			TimerEvent<Mon> te(CB[nev], is_rep(s.kind));
			VS_BOOKKEEPING_BEGIN(); e.t_call = vs_now(); e.seq_call = ++gseq; VS_BOOKKEEPING_END();
			const bool ok = tm->schedule(te, (unsigned)(s.ms * SC));
			VS_BOOKKEEPING_BEGIN(); e.ok = ok; e.seq_ret = ++gseq; ++nev; VS_BOOKKEEPING_END();
		}
		else if (s.kind == K_SLEEP) hypersleep<h_milliseconds>((unsigned)(s.ms * SC));
		else { ClrRec c; VS_BOOKKEEPING_BEGIN(); c.seq_call = ++gseq; c.t = vs_now(); VS_BOOKKEEPING_END(); c.n = tm->clear(); VS_BOOKKEEPING_BEGIN(); c.seq_ret = ++gseq; clrs.push_back(c); VS_BOOKKEEPING_END(); }
	}
	const long long hz = t0 + HORIZON * MS;
	if (vs_now() < hz) { timespec ts { (time_t)(hz / 1000000000LL), (long)(hz % 1000000000LL) }; clock_nanosleep(CLOCK_MONOTONIC, TIMER_ABSTIME, &ts, 0); }
	VS_BOOKKEEPING_BEGIN(); const long long t_stop = vs_now(); const long seq_stop = ++gseq; VS_BOOKKEEPING_END();
	tm->stop(); tm->join();
	delete tm;

	// ---- oracle.  verdict = clause|mode|observed
	std::string verdict;
	auto bad = [&](const std::string& clause, const std::string& mode, const std::string& obs) { if (verdict.empty()) verdict = clause + "|" + mode + "|" + obs; };
	auto evname = [&](int i) { return "e" + std::to_string(i) + "(" + step_str(Step { evs[i].kind, evs[i].delay }) + " at " + tms(evs[i].t_call - t0) + ")"; };
	// due time of the k-th run of event i (k = 0: schedule() call + delay; k > 0: previous run + interval)
	auto due_of = [&](int i, int k) { return k == 0 ? evs[i].t_call + evs[i].delay * MS : rlog[evs[i].runs[k - 1]].t + evs[i].delay * MS; };
	// (1) never before due; (3) repeat: no sooner than the interval after each run, stops after false, one-shot runs once
	for (size_t i = 0; i < evs.size(); ++i) {
		const EvRec& e = evs[i];
		for (size_t k = 0; k < e.runs.size(); ++k) {
			const RunRec& r = rlog[e.runs[k]]; const long long due = due_of(i, k);
			if (k > 0 && !is_rep(e.kind)) bad("one-shot-runs-once", "one-shot-event-ran-again", evname(i) + " ran " + std::to_string(e.runs.size()) + " times");
			if (k > 0 && !rlog[e.runs[k - 1]].ret) bad("repeat-stops-after-false", "ran-again-after-callback-returned-false", evname(i) + " run " + std::to_string(k + 1) + " at " + tms(r.t - t0) + " after run " + std::to_string(k) + " returned false");
			if (r.t < due) bad(k == 0 ? "not-before-due" : "repeat-interval", k == 0 ? "callback-before-due-time" : "repeat-sooner-than-interval",
				evname(i) + " run " + std::to_string(k + 1) + " at " + tms(r.t - t0) + ", due " + tms(due - t0));
		}
	}
	// state of event b just before sequence point `seq`: 0 not scheduled yet, 1 pending (due in *due), 2 finished, 3 cleared, 4 unknown
	auto state_at = [&](int b, long seq, long long *due) {
		const EvRec& e = evs[b];
		if (e.seq_ret > seq) return e.seq_call > seq ? 0 : 4;
		int k = 0; while (k < (int)e.runs.size() && rlog[e.runs[k]].seq < seq) ++k;	// runs before seq
		long pend_seq = k == 0 ? e.seq_ret : rlog[e.runs[k - 1]].seq;
		if (k > 0 && (!is_rep(e.kind) || !rlog[e.runs[k - 1]].ret)) return 2;
		for (auto& c : clrs) {
			if (c.seq_ret < pend_seq || c.seq_call > seq) continue;
			if (c.seq_call > pend_seq && c.seq_ret < seq) return 3;		// a whole clear() between becoming pending and seq
			return 4;													// overlaps: cannot tell from the log
		}
		*due = due_of(b, k); return 1;
	};
	// (2) due order: when a callback runs, no other event that is pending at that moment has an earlier due time
	for (size_t a = 0; a < rlog.size(); ++a) {
		const RunRec& A = rlog[a]; int ka = 0; while (evs[A.ev].runs[ka] != (int)a) ++ka;
		const long long dueA = due_of(A.ev, ka);
		for (size_t b = 0; b < evs.size(); ++b) {
			if ((int)b == A.ev) continue;
			long long dueB = 0;
			if (state_at((int)b, A.seq, &dueB) == 1 && dueB < dueA)
				bad("due-order", "later-due-event-ran-while-earlier-due-event-pending", evname(A.ev) + " due " + tms(dueA - t0) + " ran at " + tms(A.t - t0) + " while " + evname(b) + " due " + tms(dueB - t0) + " was pending");
		}
	}
	// (4) clear: nothing that was pending when clear() was called runs after clear() returned
	for (auto& c : clrs)
		for (size_t b = 0; b < evs.size(); ++b) {
			if (evs[b].seq_ret > c.seq_call) continue;
			for (int ri : evs[b].runs) if (rlog[ri].seq > c.seq_ret)
				bad("no-run-after-clear", "event-scheduled-before-clear-ran-after-clear-returned", evname(b) + " ran at " + tms(rlog[ri].t - t0) + ", clear() returned at " + tms(c.t - t0) + " (result " + std::to_string(c.n) + ")");
		}
	// (5) bounded liveness: an event still pending at the horizon whose due time is at least SLACK granules old has not been run
	for (size_t b = 0; b < evs.size(); ++b) {
		long long due = 0;
		int nslow = 0; for (auto& e : evs) if (e.kind == K_SLOW) ++nslow;	// every slow callback can hold the timer thread for SLOW_MS
		if (state_at((int)b, seq_stop, &due) == 1 && due <= t_stop - (SLACK + (SLOW_MS + 1) * nslow) * MS)
			bad("pending-event-runs", "due-event-not-run-by-horizon", evname(b) + " due " + tms(due - t0) + " still pending when stop() was called at " + tms(t_stop - t0));
	}
	std::string out;
	{	// summary: callbacks and clears in sequence order
		size_t ci = 0;
		for (size_t a = 0; a <= rlog.size(); ++a) {
			while (ci < clrs.size() && (a == rlog.size() || clrs[ci].seq_ret < rlog[a].seq)) { out += "c" + std::to_string(clrs[ci].n) + "@" + tms(clrs[ci].t - t0) + ","; ++ci; }
			if (a < rlog.size()) out += "e" + std::to_string(rlog[a].ev) + "@" + tms(rlog[a].t - t0) + (rlog[a].ret ? "," : "F,");
		}
	}
	return (verdict.empty() ? "OK|" : "BAD|" + verdict + "|") + out;
}

// every clock the timer reads must be the virtual one: checked outside the scheduler before anything is explored
static bool clock_is_virtual()
{
	const long long a = vs_now();
	if (Tickval::get_tickval().get_ticks() != a) return false;
	Tickval t; t.now(); if (t.get_ticks() != a) return false;
	hypersleep<h_milliseconds>(3);
	const long long MS1 = 1000000LL;
	if (vs_now() != a + 3 * MS1 || Tickval::get_tickval().get_ticks() != a + 3 * MS1) return false;
	timespec ts; clock_gettime(CLOCK_MONOTONIC, &ts); if (ts.tv_sec * 1000000000LL + ts.tv_nsec != a + 3 * MS1) return false;
	vs_set_now(a); return true;
}

int main(int argc, char **argv)
{
	vh::Run R(argc, argv);
	GlobalLogger::set_levels(Logger::Levels(Logger::None));
	const int maxlen = (int)R.args.num("maxlen", 3), minlen = (int)R.args.num("minlen", 0), bound = (int)R.args.num("bound", 2);
#if HAVE_POOL
	pool::on = R.args.num("pool", 1) != 0;
#endif
	// a complete execution has < 200 points (length 5); a timer thread that spins without letting time pass ends as STEPLIMIT here
	vs_set_max_steps(R.args.num("steplimit", 4000));
	HORIZON = (int)R.args.num("horizon", 12); SLACK = (int)R.args.num("slack", 2); SC = (int)R.args.num("scale", 1); MS *= SC;
	if (!clock_is_virtual()) { fprintf(stderr, "c31_timer: a clock read by Tickval/hypersleep escapes the virtual clock (no verdict)\n"); return 2; }
	std::set<std::string> distinct; long long with_callback = 0;
	auto tags_of = [&](const std::string& id) {
		std::vector<Step> sc; parse_script(id.substr(0, id.find(';')), sc);
		std::vector<std::string> tags { "len:" + std::to_string(sc.size()) }; int ns = 0; bool rep = false, clr = false, slp = false;
		for (auto& s : sc) { if (is_sched(s.kind)) ++ns; if (is_rep(s.kind)) rep = true; if (s.kind == K_CLEAR) clr = true; if (s.kind == K_SLEEP) slp = true; }
		tags.push_back("events:" + std::to_string(ns)); if (rep) tags.push_back("repeating"); if (clr) tags.push_back("clear"); if (slp) tags.push_back("sleep");
		return tags;
	};
	auto judge = [&](const sx::Exec& x, const std::string& id) {
		if (x.end != "OK") {
			R.outcome(x.end.substr(0, x.end.find(':')));
			R.viol(x.end.compare(0, 5, "CRASH") == 0 ? "memory-safe-and-total" : "no-deadlock", "schedule-ends:" + x.end.substr(0, x.end.find(':')), tags_of(id), id, x.end + " " + x.err.substr(0, 400), "script, stop() and join() complete");
			return;
		}
		size_t a = x.outcome.find('|');
		if (x.outcome.substr(0, a) != "OK") {
			size_t b = x.outcome.find('|', a + 1), c = x.outcome.find('|', b + 1), d = x.outcome.find('|', c + 1);
			const std::string clause = x.outcome.substr(a + 1, b - a - 1), mode = x.outcome.substr(b + 1, c - b - 1);
			R.outcome("bad:" + clause);
			R.viol(clause, mode, tags_of(id), id, x.outcome.substr(c + 1, d - c - 1) + "; log: " + x.outcome.substr(d + 1), "callbacks not before due, in due order, repeat no sooner than the interval and not after false, none after clear");
			return;
		}
		const std::string lg = x.outcome.substr(a + 1);
		distinct.insert(id.substr(0, id.find(';')) + "|" + lg);
		if (lg.find('e') != std::string::npos) ++with_callback;
		R.outcome(lg.find('e') == std::string::npos ? "ok:no-callback" : "ok:callbacks-ran");
		static std::string last_sampled;	// at most one sample per script: a clear() that removed something, callbacks, a preempted schedule
		const std::string scr = id.substr(0, id.find(';'));
		if (x.preemptions() >= 1 && lg.find('e') != std::string::npos && lg.find('c') != std::string::npos && lg.find("c0") == std::string::npos && scr != last_sampled && (last_sampled = scr, true)) R.sample(id, "callbacks/clears in order (event@ms, F = returned false, cN = clear returned N): " + lg);
	};
	if (R.single) {
		size_t sc = R.single_case.find(';'); const std::string cfg = R.single_case.substr(0, sc);
		if (!parse_script(cfg, SCRIPT)) { fprintf(stderr, "bad script %s\n", cfg.c_str()); return 2; }
		R.begin_case(R.single_case);
		sx::Exec x = sx::run_once(body, sx::parse_choices(sc == std::string::npos ? "" : R.single_case.substr(sc + 1)));
		judge(x, R.single_case);
		fprintf(stderr, "script %s schedule [%s]: end=%s points=%zu preemptions=%d\n  verdict and log: %s\n%s", cfg.c_str(), sc == std::string::npos ? "" : R.single_case.substr(sc + 1).c_str(),
			x.end.c_str(), x.pts.size(), x.preemptions(), x.outcome.c_str(), x.err.substr(0, 1500).c_str());
		if (R.args.has("trace")) for (size_t i = 0; i < x.pts.size(); ++i) fprintf(stderr, "  point %zu: thread %d tag %d enabled %d choice %d\n", i, x.pts[i].thread, x.pts[i].tag, x.pts[i].n, x.pts[i].choice);
		R.finish(); return R.violations ? 1 : 0;
	}
	// ---- outer enumeration: scripts by length, then lexicographic in the step alphabet; id = running index
	const unsigned shard_k = R.shard_k, shard_n = R.shard_n;
	sx::Stats S; unsigned long long id = 0; long long scripts = 0, sched_max = 0; bool complete = true;
	for (int len = 0; len <= maxlen && complete; ++len) {
		std::vector<int> code(len, 0);
		for (;;) {
			if (len >= minlen && R.mine(id)) {
				SCRIPT.clear(); for (int c : code) SCRIPT.push_back(step_of(c));
				int nsched = 0; for (auto& s : SCRIPT) if (is_sched(s.kind)) ++nsched;
				const long long before = S.execs;
				R.shard_k = 0; R.shard_n = 1;			// the explorer's own first-level sharding is off: this shard owns the whole script
				sx::explore(R, script_str(SCRIPT), body, judge, bound, S);
				R.shard_k = shard_k; R.shard_n = shard_n;
				if (S.capped) { complete = false; break; }
				const long long n = S.execs - before; sched_max = std::max(sched_max, n); ++scripts;
				R.counters["scripts_len" + std::to_string(len)]++;
				R.outcome(n == 1 ? "script:1-schedule" : n < 10 ? "script:2-9-schedules" : n < 100 ? "script:10-99-schedules" : n < 1000 ? "script:100-999-schedules" : "script:1000+-schedules");
			}
			++id;
			int i = len - 1; while (i >= 0 && ++code[i] == NSTEP) code[i--] = 0;
			if (i < 0) break;
		}
	}
	R.counters["scripts"] = scripts; R.counters["schedules"] = S.execs; R.counters["distinct_script_outcomes"] = (long long)distinct.size();
	R.counters["schedules_with_callbacks"] = with_callback;
	R.counters["shards_completed_bound_" + std::to_string(bound)] = complete ? 1 : 0;
	if (R.verbose()) fprintf(stderr, "shard %u: max schedules per script %lld, max points per execution %lld\n", shard_k, sched_max, S.maxpts);
	R.traces = S.execs;
	R.finish(complete);
	return 0;
}
