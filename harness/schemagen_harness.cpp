// schemagen_harness — generic judge of ONE compiled schema (C13, C14).  Linked by vp/sgrun.py with the code f8c generated
// for that schema (namespace SG, so the entry point is always SG_ctx()) and with the fix8 runtime of the current tree.
// Everything it knows about the schema comes from the independent model (vp/schema_model.py on the same XML file).
//
//   (1) metadata: what can be read back through F8MetaCntx / BaseEntry / RealmBase / FieldTraits of every message, header,
//       trailer and repeating group (recursively) must equal the model: field numbers, names, underlying types, realm kind,
//       realm values and descriptions, message types, names, admin flags, member sets, member order (by position),
//       mandatory flags, group flags.
//   (2) lattice: the C01 (round trip) and C02 (wire image) oracles of codec_lattice on every message of the schema.
//
// args: model=<file> ann=<file> what=meta|lattice|all vmax=<n> orders=<n> nelems=1,2,0
//   ann file (written by sgrun.py): "A <msgtype-hex> <tag/tag/...> <tag1,tag2>" scope tags for one member (path of count tags
//   down to the member), "M <msgtype-hex> <tag1,tag2>" scope tags for every case of one message.
// replay strings: meta:tables | meta:field:<num> | meta:header | meta:trailer | meta:msg:<index> | lat:<mi>:<shape>:<vi>:<nelem>:<order>
#include <fix8/f8includes.hpp>
#include "explore/msggen.hpp"
#include <cxxabi.h>
using namespace FIX8;

extern "C" const F8MetaCntx& SG_ctx();

static std::string exname(const std::exception& e)
{
	int st; char *d = abi::__cxa_demangle(typeid(e).name(), 0, 0, &st);
	std::string r = d ? d : typeid(e).name(); free(d);
	size_t p = r.rfind("::"); return p == std::string::npos ? r : r.substr(p + 2);
}
static char *bigbuf; static const size_t BIG = 1 << 20;
static std::string encode_big(const Message *m) { char *p = bigbuf; size_t n = m->encode(&p); return std::string(p, n); }
static std::string wire_diff(const std::string& a, const std::string& b)
{
	size_t i = 0; while (i < a.size() && i < b.size() && a[i] == b[i]) ++i;
	size_t s = a.rfind('\x01', i ? i - 1 : 0); s = s == std::string::npos ? 0 : s + 1;
	return "first difference at byte " + std::to_string(i) + ": expected ..." + vh::show(a.substr(s, 60)) + " got ..." + vh::show(b.substr(std::min(s, b.size()), 60));
}

// ---------------------------------------------------------------------------------------------- what the schema says
// FIX type name -> fix8 field type: the statement of the schema language (f8c manual, "supported types"), written down
// here independently of compiler/f8cstatic.hpp
static FieldTrait::FieldType type_of(const std::string& t)
{
	static const std::map<std::string, FieldTrait::FieldType> m {
		{ "INT", FieldTrait::ft_int }, { "LENGTH", FieldTrait::ft_Length }, { "TAGNUM", FieldTrait::ft_TagNum }, { "SEQNUM", FieldTrait::ft_SeqNum },
		{ "NUMINGROUP", FieldTrait::ft_NumInGroup }, { "DAYOFMONTH", FieldTrait::ft_DayOfMonth }, { "FLOAT", FieldTrait::ft_float },
		{ "QTY", FieldTrait::ft_Qty }, { "QUANTITY", FieldTrait::ft_Qty }, { "PRICE", FieldTrait::ft_Price }, { "PRICEOFFSET", FieldTrait::ft_PriceOffset },
		{ "AMT", FieldTrait::ft_Amt }, { "PERCENTAGE", FieldTrait::ft_Percentage }, { "CHAR", FieldTrait::ft_char }, { "BOOLEAN", FieldTrait::ft_Boolean },
		{ "STRING", FieldTrait::ft_string }, { "MULTIPLEVALUECHAR", FieldTrait::ft_MultipleCharValue }, { "MULTIPLECHARVALUE", FieldTrait::ft_MultipleCharValue },
		{ "MULTIPLESTRINGVALUE", FieldTrait::ft_MultipleStringValue }, { "MULTIPLEVALUESTRING", FieldTrait::ft_MultipleStringValue },
		{ "COUNTRY", FieldTrait::ft_Country }, { "CURRENCY", FieldTrait::ft_Currency }, { "EXCHANGE", FieldTrait::ft_Exchange },
		{ "MONTHYEAR", FieldTrait::ft_MonthYear }, { "UTCTIMESTAMP", FieldTrait::ft_UTCTimestamp }, { "UTCTIME", FieldTrait::ft_UTCTimeOnly },
		{ "UTCTIMEONLY", FieldTrait::ft_UTCTimeOnly }, { "UTCDATE", FieldTrait::ft_UTCDateOnly }, { "UTCDATEONLY", FieldTrait::ft_UTCDateOnly },
		{ "LOCALMKTDATE", FieldTrait::ft_LocalMktDate }, { "TZTIMEONLY", FieldTrait::ft_TZTimeOnly }, { "TZTIMESTAMP", FieldTrait::ft_TZTimestamp },
		{ "XMLDATA", FieldTrait::ft_XMLData }, { "DATA", FieldTrait::ft_data }, { "PATTERN", FieldTrait::ft_pattern }, { "LANGUAGE", FieldTrait::ft_Language },
		{ "TENOR", FieldTrait::ft_Tenor }, { "RESERVED100PLUS", FieldTrait::ft_Reserved100Plus }, { "RESERVED1000PLUS", FieldTrait::ft_Reserved1000Plus },
		{ "RESERVED4000PLUS", FieldTrait::ft_Reserved4000Plus } };
	auto i = m.find(t); return i == m.end() ? FieldTrait::ft_untyped : i->second;
}
// underlying value class of a FIX type: integer / character / floating point / text
static FieldTrait::FieldType underlying_of(const sm::FieldDef& f)
{
	switch (f.vclass()) {
	case sm::V_INT: return FieldTrait::ft_int;
	case sm::V_CHAR: case sm::V_BOOL: return FieldTrait::ft_char;
	case sm::V_FLOAT: return FieldTrait::ft_float;
	default: return FieldTrait::ft_string;
	}
}
static std::string tname(FieldTrait::FieldType t) { return "ft#" + std::to_string((int)t); }
// value class of a fix8 field type code (Field<f8String> reports ft_data, the date/time classes ft_string: all text)
static FieldTrait::FieldType klass(FieldTrait::FieldType t)
{
	if (t >= FieldTrait::ft_int && t <= FieldTrait::ft_end_int) return FieldTrait::ft_int;
	if (t >= FieldTrait::ft_char && t <= FieldTrait::ft_end_char) return FieldTrait::ft_char;
	if (t >= FieldTrait::ft_float && t <= FieldTrait::ft_end_float) return FieldTrait::ft_float;
	if (t >= FieldTrait::ft_string && t <= FieldTrait::ft_end_string) return FieldTrait::ft_string;
	return FieldTrait::ft_untyped;
}

// ---------------------------------------------------------------------------------------------- annotations
struct Ann {
	std::map<std::string, std::vector<std::string>> member, msg;	// key "<msgtype>|<path>" / "<msgtype>"
	void load(const std::string& path)
	{
		std::ifstream in(path); std::string line;
		auto split = [](const std::string& s) { std::vector<std::string> o; std::istringstream is(s); std::string x; while (std::getline(is, x, ',')) if (!x.empty()) o.push_back(x); return o; };
		while (std::getline(in, line)) {
			std::istringstream is(line); std::string k, mt, a, b; is >> k >> mt >> a >> b;
			if (k == "A") member[sm::Schema::unhexs(mt) + "|" + a] = split(b);
			else if (k == "M") msg[sm::Schema::unhexs(mt)] = split(a);
		}
	}
};

// ---------------------------------------------------------------------------------------------- the judge
struct Judge {
	vh::Run& R; const sm::Schema& S; const F8MetaCntx& ctx; Ann ann;
	std::string unit;	// replay string of the unit being compared
	std::vector<std::string> base_tags;
	Judge(vh::Run& r, const sm::Schema& s, const F8MetaCntx& c) : R(r), S(s), ctx(c) {}

	void cmp() { ++R.counters["comparisons"]; }
	void bad(const std::string& clause, const std::string& mode, std::vector<std::string> tags, const std::string& obs, const std::string& exp, const std::string& desc)
	{
		for (auto& t : base_tags) tags.push_back(t);
		std::sort(tags.begin(), tags.end()); tags.erase(std::unique(tags.begin(), tags.end()), tags.end());
		R.outcome("meta:" + clause);
		if (R.verbose()) fprintf(stderr, " MISMATCH %s (%s): observed %s, schema says %s [%s]\n", clause.c_str(), mode.c_str(), obs.c_str(), exp.c_str(), desc.c_str());
		R.viol(clause, mode, tags, unit, obs, exp, desc);
	}

	// ---- one field of the schema
	__attribute__((no_sanitize("vptr"))) void field(const sm::FieldDef& f)
	{
		unit = "meta:field:" + std::to_string(f.num);
		std::vector<std::string> tg { "type:" + f.type, f.realm == 1 ? "realm:set" : f.realm == 2 ? "realm:range" : "realm:none" };
		std::string tags; for (auto& t : tg) tags += (tags.empty() ? "" : ",") + t;
		R.begin_case(unit, tags);
		const std::string what = f.name + "(" + std::to_string(f.num) + ") " + f.type;
		const BaseEntry *be = ctx.find_be((unsigned short)f.num);
		cmp(); if (!be) { bad("field-numbers", "field-missing-from-table", tg, "no entry", "entry for " + what, what); return; }
		cmp(); if (be->_fnum != f.num) bad("field-numbers", "entry-number-differs", tg, std::to_string(be->_fnum), std::to_string(f.num), what);
		cmp(); if (f.name != be->_name) bad("field-names", "name-differs", tg, be->_name, f.name, what);
		// underlying type of the object the table creates
		std::string sample = mg::value_text(f, 0, 0);
		std::unique_ptr<BaseField> bf;
		try { bf.reset(be->_create._do(sample.c_str(), be->_rlm, -1)); } catch (std::exception& e) { bad("field-types", "create-throws:" + exname(e), tg, e.what(), "a field object", what); }
		if (bf) {
			cmp(); if (bf->get_tag() != f.num) bad("field-numbers", "created-field-number-differs", tg, std::to_string(bf->get_tag()), std::to_string(f.num), what);
			cmp(); if (klass(bf->get_underlying_type()) != underlying_of(f)) bad("field-types", "underlying-type-differs", tg, tname(bf->get_underlying_type()), tname(underlying_of(f)), what);
		}
		// realm
		const RealmBase *rb = be->_rlm;
		cmp();
		if (f.realm == 0) { if (rb) bad("enumerated-values", "realm-where-schema-has-none", tg, std::to_string(rb->_sz) + " values", "no realm", what); return; }
		if (!rb) { bad("enumerated-values", "realm-missing", tg, "no realm", std::to_string(f.vals.size()) + " values", what); return; }
		cmp(); if ((rb->_dtype == RealmBase::dt_range) != (f.realm == 2)) bad("enumerated-values", "realm-kind-differs", tg, rb->_dtype == RealmBase::dt_range ? "range" : "set", f.realm == 2 ? "range" : "set", what);
		cmp(); if (rb->_ftype != type_of(f.type)) bad("field-types", "realm-type-differs", tg, tname(rb->_ftype), tname(type_of(f.type)), what);
		// canonical (value, description) lists
		auto canon = [&](const std::string& v) -> std::string {
			switch (underlying_of(f)) {
			case FieldTrait::ft_int: return std::to_string(atoi(v.c_str()));
			case FieldTrait::ft_char: return v.substr(0, 1);
			case FieldTrait::ft_float: { char b[64]; snprintf(b, sizeof b, "%.10g", strtod(v.c_str(), 0)); return b; }
			default: return v;
			}
		};
		std::vector<std::pair<std::string, std::string>> want, got;
		std::set<std::pair<std::string, std::string>> outside;
		for (auto& v : f.vals) {
			// a CHAR field holds one character: enum texts of several characters (FIX44 MiscFeeType "10", MassCancelRejectReason "99")
			// are outside its domain; neither their absence nor an entry for their first character is judged
			if (underlying_of(f) == FieldTrait::ft_char && v.value.size() != 1) { R.outcome("meta:note:multi-character-enum-of-char-field-ignored"); outside.insert({ v.value.substr(0, 1), v.desc }); continue; }
			want.push_back({ canon(v.value), v.desc });
		}
		for (int i = 0; i < rb->_sz; ++i) {
			std::string v;
			switch (underlying_of(f)) {
			case FieldTrait::ft_int: v = std::to_string(rb->get_rlm_val<int>(i)); break;
			case FieldTrait::ft_char: v = std::string(1, rb->get_rlm_val<char>(i)); break;
			case FieldTrait::ft_float: { char b[64]; snprintf(b, sizeof b, "%.10g", (double)rb->get_rlm_val<fp_type>(i)); v = b; break; }
			default: v = rb->get_rlm_val<f8String>(i);
			}
			std::pair<std::string, std::string> g { v, rb->_descriptions && rb->_descriptions[i] ? rb->_descriptions[i] : "(null)" };
			if (!outside.count(g)) got.push_back(g);
		}
		auto show = [](const std::vector<std::pair<std::string, std::string>>& l) { std::string o; for (auto& p : l) o += "[" + p.first + "=" + p.second + "]"; return o; };
		std::sort(want.begin(), want.end()); std::sort(got.begin(), got.end());
		cmp(); if (want.size() != got.size()) { bad("enumerated-values", "value-count-differs", tg, show(got), show(want), what); return; }
		for (size_t i = 0; i < want.size(); ++i) {
			cmp(); if (want[i].first != got[i].first) { bad("enumerated-values", "value-differs", tg, show(got), show(want), what); return; }
			cmp(); if (want[i].second != got[i].second) { bad("enumerated-values", "description-differs", tg, show(got), show(want), what); return; }
		}
	}

	// ---- member list of a message / header / trailer / one group element
	std::vector<std::string> member_tags(const std::string& mt, const std::string& path, const sm::Member& m, int depth)
	{
		std::vector<std::string> tg { depth == 0 ? "level:message" : "level:group", m.group ? "member:group" : "member:field" };
		auto a = ann.member.find(mt + "|" + path); if (a != ann.member.end()) for (auto& t : a->second) tg.push_back(t);
		return tg;
	}
	void members(const std::string& mt, const std::string& mname, const std::vector<sm::Member>& ms, const MessageBase *mb, const std::string& path, int depth)
	{
		const std::string where = mname + (path.empty() ? "" : " group " + path);
		std::vector<const FieldTrait *> tr;
		for (auto& t : mb->_fp.get_presence()) tr.push_back(&t);
		std::stable_sort(tr.begin(), tr.end(), [](const FieldTrait *a, const FieldTrait *b) { return a->_pos < b->_pos; });
		std::string got, want; std::set<int> gs, ws;
		for (auto *t : tr) { got += std::to_string(t->_fnum) + " "; gs.insert(t->_fnum); }
		for (auto& m : ms) { want += std::to_string(m.tag) + " "; ws.insert(m.tag); }
		std::vector<std::string> lt { depth == 0 ? "level:message" : "level:group" };
		cmp();
		if (gs != ws) { bad(depth ? "group-membership" : "message-membership", "member-set-differs", lt, got, want, where); }
		else { cmp(); if (got != want) bad("member-order", "position-order-differs", lt, got, want, where); }
		for (auto& m : ms) {
			const std::string p = path + (path.empty() ? "" : "/") + std::to_string(m.tag);
			auto tg = member_tags(mt, p, m, depth);
			Presence::const_iterator it = mb->_fp.get_presence().find((unsigned short)m.tag);
			if (it == mb->_fp.get_presence().end()) continue;	// reported above
			const std::string mw = where + " member " + S.fields.at(m.tag).name + "(" + std::to_string(m.tag) + ")";
			cmp();
			const FieldTrait::FieldType wt = type_of(S.fields.at(m.tag).type);
			if (m.group) {
				// a group's count field is entered into the member table as a plain int by design (f8c.cpp parse_groups: "add group
				// FieldTrait"), whatever the schema calls its type (FIX44 types NoLegSecurityAltID as STRING); counted, not judged
				if (it->_ftype == FieldTrait::ft_int) R.outcome("meta:note:group-count-member-typed-int");
				else bad("field-types", "group-count-member-type-not-int", tg, tname(it->_ftype), tname(FieldTrait::ft_int), mw);
			}
			else if (it->_ftype != wt) { auto tt = tg; tt.push_back("type:" + S.fields.at(m.tag).type); bad("field-types", "member-type-differs", tt, tname(it->_ftype), tname(wt), mw); }
			const bool framing = depth == 0 && (m.tag == 8 || m.tag == 9 || m.tag == 10 || m.tag == 35);	// filled in by the encoder, presence not checked
			if (!framing) {
				cmp();
				const bool gm = !!it->_field_traits.has(FieldTrait::mandatory);
				if (gm != m.mandatory) bad("mandatory-flags", gm ? "mandatory-where-schema-optional" : "optional-where-schema-mandatory", tg, gm ? "mandatory" : "optional", m.mandatory ? "mandatory" : "optional", mw);
			}
			cmp();
			if (!!it->_field_traits.has(FieldTrait::group) != m.group) bad("group-membership", "group-flag-differs", tg, it->_field_traits.has(FieldTrait::group) ? "group" : "field", m.group ? "group" : "field", mw);
			if (m.group) {
				cmp();
				GroupBase *gb = mb->find_group((unsigned short)m.tag);
				// the generated header class does not create its group objects in the constructor: ask the way the decoder does
				if (!gb) { gb = const_cast<MessageBase *>(mb)->find_add_group((unsigned short)m.tag); if (gb) R.outcome("meta:note:group-object-created-on-demand"); }
				if (!gb) { bad("group-membership", "group-object-missing", tg, "no group object in a deep-constructed message", "group " + std::to_string(m.tag), mw); continue; }
				std::unique_ptr<MessageBase> el;
				try { el.reset(gb->create_group(true)); } catch (std::exception& e) { bad("group-membership", "create_group-throws:" + exname(e), tg, e.what(), "an element", mw); continue; }
				if (!el) { bad("group-membership", "create_group-null", tg, "null", "an element", mw); continue; }
				members(mt, mname, m.kids, el.get(), p, depth + 1);
			}
		}
	}
	void set_msg_tags(const std::string& mt) { base_tags.clear(); auto a = ann.msg.find(mt); if (a != ann.msg.end()) base_tags = a->second; }
	std::string tagstr() const { std::string t; for (auto& x : base_tags) t += (t.empty() ? "" : ",") + x; return t; }

	void message(int mi)
	{
		const sm::MsgDef& md = S.msgs[mi];
		unit = "meta:msg:" + std::to_string(mi);
		set_msg_tags(md.msgtype);
		R.begin_case(unit, tagstr());
		bool grp = false; for (auto& m : md.members) if (m.group) grp = true;
		if (grp) ++R.nontrivial;
		const std::string what = md.name + "(" + md.msgtype + ")";
		const BaseMsgEntry *bme = ctx._bme.find_ptr(md.msgtype.c_str());
		cmp(); if (!bme) { bad("message-types", "message-missing-from-table", {}, "no entry", what, what); return; }
		cmp(); if (md.name != bme->_name) bad("message-types", "message-name-differs", {}, bme->_name, md.name, what);
		std::unique_ptr<Message> m;
		try { m.reset(bme->_create._do(true)); } catch (std::exception& e) { bad("message-types", "create-throws:" + exname(e), {}, e.what(), "a message", what); return; }
		cmp(); if (m->get_msgtype() != md.msgtype) bad("message-types", "msgtype-differs", {}, m->get_msgtype(), md.msgtype, what);
		cmp(); if (m->is_admin() != md.admin) bad("admin-flags", m->is_admin() ? "admin-where-schema-says-application" : "application-where-schema-says-admin", {}, m->is_admin() ? "admin" : "app", md.admin ? "admin" : "app", what);
		members(md.msgtype, md.name, md.members, m.get(), "", 0);
	}
	void section(bool header)
	{
		unit = header ? "meta:header" : "meta:trailer";
		base_tags.clear();
		R.begin_case(unit, "");
		std::unique_ptr<Message> m(ctx._bme.find_ptr(S.msgs[0].msgtype.c_str())->_create._do(true));
		if (header) members("header", "header", S.header, m->Header(), "", 0); else members("trailer", "trailer", S.trailer, m->Trailer(), "", 0);
	}
	void tables()
	{
		unit = "meta:tables"; base_tags.clear();
		R.begin_case(unit, "");
		cmp(); if (ctx._beginStr != S.beginstr) bad("message-types", "beginstring-differs", {}, ctx._beginStr, S.beginstr, "BeginString");
		cmp(); if (ctx._version != (unsigned)(S.major * 1000 + S.minor * 100)) bad("message-types", "version-differs", {}, std::to_string(ctx._version), std::to_string(S.major * 1000 + S.minor * 100), "version");
		for (auto p = ctx._be.begin(); p != ctx._be.end(); ++p) { cmp(); if (!S.fields.count((int)p->_key)) bad("field-numbers", "field-not-in-schema", {}, std::to_string(p->_key), "only fields of the schema", "field table"); }
		std::set<std::string> mts { "header", "trailer" }; for (auto& m : S.msgs) mts.insert(m.msgtype);
		for (auto p = ctx._bme.begin(); p != ctx._bme.end(); ++p) { cmp(); if (!mts.count(p->_key)) bad("message-types", "message-not-in-schema", {}, p->_key, "only messages of the schema", "message table"); }
		cmp(); if (ctx._bme.size() != mts.size()) bad("message-types", "message-count-differs", {}, std::to_string(ctx._bme.size()), std::to_string(mts.size()), "message table");
	}
};

static void used_fields(const std::vector<sm::Member>& ms, std::set<int>& u) { for (auto& m : ms) { u.insert(m.tag); used_fields(m.kids, u); } }

// scope tags of a tree (same vocabulary as codec_lattice)
static void tree_tags(const sm::Schema& s, const mg::NodeList& nl, std::set<std::string>& tags, int depth)
{
	for (auto& n : nl) {
		const sm::FieldDef& f = s.fields.at(n.tag);
		if (f.vclass() == sm::V_INT && !n.text.empty() && n.text[0] == '-') tags.insert("has_negative_int");
		if (f.vclass() == sm::V_DATA && depth > 0) tags.insert("data_in_group");
		if (n.group) tags.insert(n.elems.empty() ? "group_count_0" : "has_group");
		for (auto& e : n.elems) tree_tags(s, e, tags, depth + 1);
	}
}
// the field a difference report talks about ("tag 5003 ..."): its schema type becomes a scope tag
static std::string culprit_type(const sm::Schema& s, const std::string& desc)
{
	size_t p = desc.find("tag "); if (p == std::string::npos) return "";
	int t = atoi(desc.c_str() + p + 4); auto f = s.fields.find(t);
	return f == s.fields.end() ? "" : "at_type:" + f->second.type;
}

int main(int argc, char **argv)
{
	vh::Run R(argc, argv);
	GlobalLogger::set_levels(Logger::Levels(Logger::None));
	const F8MetaCntx& ctx = SG_ctx();
	sm::Schema S; sm::load_schema(S, R.args.get("model"));
	Judge J(R, S, ctx);
	if (R.args.has("ann")) J.ann.load(R.args.get("ann"));
	bigbuf = (char *)malloc(BIG);
	const std::string what = R.args.get("what", "all");
	const int vmax = (int)R.args.num("vmax", 2), orders = (int)R.args.num("orders", 3);
	std::vector<int> nelems; { std::string ne = R.args.get("nelems", "1,2,0"); std::istringstream is(ne); std::string x; while (std::getline(is, x, ',')) nelems.push_back(atoi(x.c_str())); }
	mg::Lattice L(S);
	std::set<int> used; used_fields(S.header, used); used_fields(S.trailer, used); for (auto& m : S.msgs) used_fields(m.members, used);

	auto lattice_case = [&](int mi, int shape, int vi, int nelem, int order) {
		const sm::MsgDef& md = S.msgs[mi];
		mg::Tree t = L.make(md, shape, vi, nelem);
		char idb[128]; snprintf(idb, sizeof idb, "lat:%d:%d:%d:%d:%d", mi, shape, vi, nelem, order);
		const std::string id = idb;
		std::set<std::string> tg; tree_tags(S, t.header, tg, 0); tree_tags(S, t.body, tg, 0); tree_tags(S, t.trailer, tg, 0);
		J.set_msg_tags(md.msgtype); for (auto& x : J.base_tags) tg.insert(x);
		std::vector<std::string> tags(tg.begin(), tg.end());
		std::string tagstr; for (auto& x : tags) tagstr += (tagstr.empty() ? "" : ",") + x;
		R.begin_case(id, tagstr);
		if (mg::has_group(t.body)) ++R.nontrivial;
		++R.counters["lattice_messages"];
		const std::string ref = mg::serialize(S, t);
		if (R.verbose()) fprintf(stderr, "case %s msg=%s(%s)\n reference wire: %s\n", id.c_str(), md.name.c_str(), md.msgtype.c_str(), vh::show(ref).c_str());
		auto viol = [&](const std::string& clause, const std::string& mode, const std::string& obs, const std::string& exp, const std::string& desc) {
			std::vector<std::string> tv(tags); std::string ct = culprit_type(S, obs); if (!ct.empty()) tv.push_back(ct);
			R.outcome("lat:" + clause);
			if (R.verbose()) fprintf(stderr, " VIOLATION %s (%s): %s\n", clause.c_str(), mode.c_str(), obs.c_str());
			R.viol(clause, mode, tv, id, obs, exp, desc);
		};
		std::unique_ptr<Message> m;
		try { m.reset(mg::build(ctx, t, order)); }
		catch (std::exception& e) { viol("constructible", "build-throws:" + exname(e), e.what(), "message built through the metadata API", md.name); return; }
		std::string wire;
		try { wire = encode_big(m.get()); }
		catch (std::exception& e) { viol("encodes", "encode-throws:" + exname(e), e.what(), vh::show(ref), md.name); return; }
		if (R.verbose()) fprintf(stderr, " fix8 wire:      %s\n", vh::show(wire).c_str());
		auto cw = mg::check_wire(S, t, wire);
		if (!cw.first.empty()) { viol(cw.first, "wire-violates-" + cw.first, cw.second + " :: " + vh::show(wire), vh::show(ref), md.name); return; }
		std::unique_ptr<Message> d;
		try { d.reset(Message::factory(ctx, wire)); }
		catch (std::exception& e) { viol("decodes-own-encoding", "decode-throws:" + exname(e), std::string(e.what()).substr(0, 200), "decoded message", vh::show(wire)); return; }
		if (!d) { viol("decodes-own-encoding", "factory-returned-null", "null", "decoded message", vh::show(wire)); return; }
		mg::Tree rb = mg::readback(S, d.get());
		std::string df = mg::diff_trees(S, t, rb);
		if (!df.empty()) { viol("same-fields-values-groups", "decoded-tree-differs", df, "tree equal to the one built", vh::show(wire)); return; }
		df = mg::typed_check_tree(S, d.get(), t);
		if (!df.empty()) { viol("same-fields-values-groups", "decoded-typed-value-differs", df, "typed value equals the value of the text", vh::show(wire)); return; }
		std::string wire2;
		try { wire2 = encode_big(d.get()); }
		catch (std::exception& e) { viol("reencode-identical", "reencode-throws:" + exname(e), e.what(), vh::show(wire), ""); return; }
		if (wire2 != wire) { viol("reencode-identical", "reencode-differs", wire_diff(wire, wire2), vh::show(wire), ""); return; }
		R.outcome("lat:ok");
	};

	if (R.single) {
		const std::string& c = R.single_case;
		if (c == "meta:tables") J.tables();
		else if (c == "meta:header") J.section(true);
		else if (c == "meta:trailer") J.section(false);
		else if (c.compare(0, 11, "meta:field:") == 0) J.field(S.fields.at(atoi(c.c_str() + 11)));
		else if (c.compare(0, 9, "meta:msg:") == 0) J.message(atoi(c.c_str() + 9));
		else if (c.compare(0, 4, "lat:") == 0) { int mi, shape, vi, nelem, order; sscanf(c.c_str(), "lat:%d:%d:%d:%d:%d", &mi, &shape, &vi, &nelem, &order); lattice_case(mi, shape, vi, nelem, order); }
		R.finish(); return R.violations ? 1 : 0;
	}

	unsigned long long id = 0;
	if (what == "all" || what == "meta") {
		if (R.mine(id++)) J.tables();
		for (auto& f : S.fields) { if (!used.count(f.first)) continue; if (R.mine(id++)) J.field(f.second); }
		if (R.mine(id++)) J.section(true);
		if (R.mine(id++)) J.section(false);
		for (int mi = 0; mi < (int)S.msgs.size(); ++mi) if (R.mine(id++)) J.message(mi);
		if (!R.violations) R.outcome("meta:ok");
		R.sample("meta:msg:" + std::to_string(S.msgs.size() - 1), "metadata of " + S.msgs.back().name + " and " + std::to_string(S.msgs.size() - 1) + " other messages, " + std::to_string(used.size()) + " fields");
	}
	id = 1000;
	if (what == "all" || what == "lattice") {
		for (int mi = 0; mi < (int)S.msgs.size() && !R.out_of_time(); ++mi) {
			const int ns = L.nshapes(S.msgs[mi]);
			for (int shape = 0; shape < ns; ++shape)
				for (int vi = 0; vi < vmax; ++vi)
					for (int nelem : nelems)
						for (int order = 0; order < orders; ++order, ++id) {
							if (!R.mine(id)) continue;
							// the element count only matters when the shape contains a group: skip duplicates
							if (nelem != nelems[0] && !mg::has_group(L.make(S.msgs[mi], shape, vi, nelems[0]).body)) continue;
							lattice_case(mi, shape, vi, nelem, order);
						}
		}
	}
	R.finish(true);
	return 0;
}
