HARNESSES += session_in
HARNESS_session_in := gen_utest.o eng/sim/sim.o
