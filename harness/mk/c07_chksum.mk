HARNESSES += c07_chksum
HARNESS_c07_chksum :=
