HARNESSES += session_resend
HARNESS_session_resend := gen_utest.o eng/sim/sim.o
