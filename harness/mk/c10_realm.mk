HARNESSES += c10_realm
HARNESS_c10_realm := gen_utest.o gen_fix44.o
$(B)/san/bin/c10_realm $(B)/plain/bin/c10_realm: | $(B)/gen/utest.model $(B)/gen/fix44.model
