HARNESSES += c31_timer
HARNESS_c31_timer := eng/sched/sched.o
