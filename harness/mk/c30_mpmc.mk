HARNESSES += c30_mpmc
HARNESS_c30_mpmc := eng/sched/sched.o
