HARNESSES += session_pair
HARNESS_session_pair := gen_utest.o eng/sim/sim.o
