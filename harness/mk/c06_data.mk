HARNESSES += c06_data
HARNESS_c06_data := gen_utest.o gen_fix44.o
$(B)/san/bin/c06_data $(B)/plain/bin/c06_data: | $(B)/gen/utest.model $(B)/gen/fix44.model
