HARNESSES += c28_logger
HARNESS_c28_logger := eng/sched/sched.o
