HARNESSES += c32_xml
HARNESS_c32_xml :=
