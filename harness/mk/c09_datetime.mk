HARNESSES += c09_datetime
HARNESS_c09_datetime :=
