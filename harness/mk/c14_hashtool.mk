HARNESSES += c14_hashtool
HARNESS_c14_hashtool :=
