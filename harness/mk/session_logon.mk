HARNESSES += session_logon
HARNESS_session_logon := gen_utest.o eng/sim/sim.o
