HARNESSES += persist_check
HARNESS_persist_check := gen_utest.o eng/sim/sim.o
