HARNESSES += session_hb
HARNESS_session_hb := gen_utest.o eng/sim/sim.o
