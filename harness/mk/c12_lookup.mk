HARNESSES += c12_lookup
HARNESS_c12_lookup := gen_utest.o gen_fix44.o
$(B)/san/bin/c12_lookup $(B)/plain/bin/c12_lookup: | $(B)/gen/utest.model $(B)/gen/fix44.model
