HARNESSES += c08_numeric
HARNESS_c08_numeric :=
