HARNESSES += session_gap
HARNESS_session_gap := gen_utest.o eng/sim/sim.o
