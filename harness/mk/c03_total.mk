HARNESSES += c03_total
HARNESS_c03_total := gen_utest.o gen_fix44.o
$(B)/san/bin/c03_total $(B)/plain/bin/c03_total: | $(B)/gen/utest.model $(B)/gen/fix44.model
