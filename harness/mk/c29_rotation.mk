HARNESSES += c29_rotation
# The two translation units under test are compiled a second time with libstdc++'s assertions switched on, and these
# objects are linked in front of librt.a.  FileLogger::rotate / FilePersister::initialise keep their generation
# names in a std::vector; operator[] past size() but inside capacity() is invisible to ASan (no container
# annotations in libstdc++ without a library-wide rebuild), so the index check itself is the bounds oracle.
# Nothing else changes: same sources, same sanitizer flags.
HARNESS_c29_rotation := c29rt/logger.o c29rt/filepersist.o
define C29_RULES
$(B)/$(1)/c29rt/%.o: $(REPO)/runtime/%.cpp
	@mkdir -p $$(dir $$@)
	$(CXX) $(COMMON) $$(FLAGS_$(1)) -D_GLIBCXX_ASSERTIONS -MMD -MP -c $$< -o $$@
endef
$(foreach v,$(VARIANTS),$(eval $(call C29_RULES,$(v))))
# dladdr() on the backtrace of a caught SIGABRT/SIGSEGV needs the executable's symbols in the dynamic table
LDX_c29_rotation := -rdynamic
