HARNESSES += session_num
HARNESS_session_num := gen_utest.o eng/sim/sim.o
