HARNESSES += c15_two_readers
HARNESS_c15_two_readers := gen_utest.o eng/sched/sched.o
