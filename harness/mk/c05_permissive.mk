HARNESSES += c05_permissive
HARNESS_c05_permissive := gen_utest.o gen_fix44.o
$(B)/san/bin/c05_permissive $(B)/plain/bin/c05_permissive: | $(B)/gen/utest.model $(B)/gen/fix44.model
