HARNESSES += codec_lattice
HARNESS_codec_lattice := gen_utest.o gen_fix44.o
$(B)/san/bin/codec_lattice $(B)/plain/bin/codec_lattice: | $(B)/gen/utest.model $(B)/gen/fix44.model
