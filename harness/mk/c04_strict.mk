HARNESSES += c04_strict
HARNESS_c04_strict := gen_utest.o gen_fix44.o
$(B)/san/bin/c04_strict $(B)/plain/bin/c04_strict: | $(B)/gen/utest.model $(B)/gen/fix44.model
