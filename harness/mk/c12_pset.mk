HARNESSES += c12_pset
HARNESS_c12_pset :=
