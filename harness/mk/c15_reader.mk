HARNESSES += c15_reader
HARNESS_c15_reader := gen_utest.o eng/sim/sim.o
