HARNESSES += c25_senders
HARNESS_c25_senders := gen_utest.o eng/sched/sched.o
