HARNESSES += c24_schedule
HARNESS_c24_schedule :=
