# schemagen_harness is linked per generated schema by vp/sgrun.py (C13, C14), not by make: only its object is a make target
# ($(B)/san/h/schemagen_harness.o through the generic harness object rule)
