// C29 — log and store rotation keeps generations and stays in bounds.
//   FileLogger ctor / FileLogger::rotate(force)           (runtime/logger.cpp)
//   FilePersister(rotnum)::initialise(dir, name, purge)    (runtime/filepersist.cpp)
// Space: rotation count (every value up to maxcount, or the quick list) x pre-existing generation set
//        (count <= 4: every subset of {name, name.1 .. name.(count+1)}; larger counts: none / all / only name /
//        every third / the three around the count) x operation {plain, append, append+rotate(true),
//        append+rotate(false), plain + a second rotate()} for the logger; {purge} for the file store, whose
//        generations are pairs (name.k, name.k.idx); for counts <= 2 the store is also run with every subset of
//        the individual files.  Bystanders that look like generations but are not (name.x, nameX.1, name.1.bak,
//        name.0, name.01, directory name.d with a file in it; store: also name.idx.1) are always present and
//        every file holds distinct content.
// Each case: build the directory, run the real code in-process (threads registered, never started), snapshot the
//        directory, compare with a pure model on a map name -> content.  SIGABRT (bounds assertion) / SIGSEGV / SIGBUS
//        inside the call are caught, attributed to the first fix8 frame of the backtrace and the enumeration goes
//        on (the abandoned object is leaked on purpose); an ASan/UBSan report ends the process and the driver
//        resumes after that case (ids are per case).
// Oracles: (1) the model (rename semantics, k = min(count, Logger::max_rotation) .. 1; the current file is
//        recreated empty, or kept in append mode); (2) every rename(2) the code issues is recorded by an interposed
//        rename() and must be generation k-1 -> generation k with 1 <= k <= min(count, cap); (3) the call must
//        return: no ASan/UBSan report, libstdc++ bounds assertion (logger.cpp / filepersist.cpp are compiled with
//        _GLIBCXX_ASSERTIONS for this harness, see harness/mk/c29_rotation.mk), signal, time-out.
// What the property does not say and the model therefore leaves open: the oldest generation name.n when name.(n-1)
//        did not exist (kept or removed are both accepted).
#include <fix8/f8includes.hpp>
#include <dirent.h>
#include <sys/stat.h>
#include <sys/syscall.h>
#include <execinfo.h>
#include <dlfcn.h>
#include <cxxabi.h>
#include <csetjmp>
#include <csignal>
#include "vh.hpp"
using namespace FIX8;

extern "C" const char *__asan_default_options() { return "detect_leaks=0:handle_segv=0:handle_sigbus=0:handle_abort=0:allow_user_segv_handler=1"; }

// ---------------------------------------------------------------------------------------------------------
// a fatal signal inside the code under test ends the case, not the process
static sigjmp_buf jb; static volatile sig_atomic_t armed = 0; static volatile int sig_caught = 0;
static void *bt[64]; static int nbt = 0;
static void on_fatal(int s)
{
	if (!armed) { signal(s, SIG_DFL); raise(s); return; }
	armed = 0; sig_caught = s; nbt = backtrace(bt, 64);
	siglongjmp(jb, 1);
}

// ---------------------------------------------------------------------------------------------------------
// threads: registered, never started (a legal, maximally unfair schedule); join returns at once
static unsigned long fake_tid = 0x7a000000UL; static unsigned threads_registered = 0;
extern "C" int pthread_create(pthread_t *t, const pthread_attr_t *, void *(*)(void *), void *)
{ fake_tid += 0x1000; *t = (pthread_t)fake_tid; ++threads_registered; return 0; }
extern "C" int pthread_join(pthread_t, void **) { return 0; }

// ---------------------------------------------------------------------------------------------------------
// rename(2) recorder
struct RenRec { char from[120], to[120]; int rc, err; };
static const unsigned MAXREN = 6000;
struct Shared { volatile unsigned n, dropped; RenRec r[MAXREN]; };
static Shared shm_store, *shm = &shm_store; static int probe[2] = { -1, -1 }; static volatile int recording = 0;

// copy a NUL terminated string from a pointer that may be garbage, without faulting (the kernel does the access)
static void safe_copy(const char *p, char *out, size_t cap)
{
	if (!p) { snprintf(out, cap, "<null pointer>"); return; }
	size_t o = 0;
	while (o < cap - 1) {
		size_t chunk = std::min<size_t>(cap - 1 - o, 4096 - ((uintptr_t)(p + o) & 4095));
		long w = syscall(SYS_write, probe[1], p + o, chunk);
		if (w <= 0) { snprintf(out, cap, "<invalid pointer>"); return; }
		long g = syscall(SYS_read, probe[0], out + o, (size_t)w);
		if (g != w) { snprintf(out, cap, "<probe failed>"); return; }
		if (memchr(out + o, 0, (size_t)w)) return;
		o += (size_t)w;
	}
	out[cap - 1] = 0;
}
extern "C" int rename(const char *from, const char *to)
{
	long rc = syscall(SYS_rename, from, to); const int e = errno;
	if (recording && shm) {
		if (shm->n < MAXREN) {
			RenRec& r = shm->r[shm->n];
			safe_copy(from, r.from, sizeof r.from); safe_copy(to, r.to, sizeof r.to); r.rc = (int)rc; r.err = rc ? e : 0;
			shm->n = shm->n + 1;
		} else shm->dropped = shm->dropped + 1;
	}
	errno = e; return (int)rc;
}

// ---------------------------------------------------------------------------------------------------------
typedef std::map<std::string, std::string> Files;	// path relative to the case directory -> content; "d/" = directory
static const unsigned CAP = Logger::max_rotation;	// the documented maximum (logger.hpp: max_rotation = 1024)

enum Op { PLAIN, APPEND, APPEND_FORCE, APPEND_NOFORCE, PLAIN_TWICE, PURGE, NOPS };
static const char *opname[] = { "plain", "append", "append_force", "append_noforce", "plain_twice", "purge" };
struct Case { int target; unsigned count; char skind; unsigned long smask; int op; };	// target 0 = log, 1 = db

static std::string base_of(int target) { return target ? "sess.db" : "sess.log"; }
static std::string gen(const std::string& base, unsigned k, bool idx)
{ std::string s(base); if (k) { s += '.'; s += std::to_string(k); } if (idx) s += ".idx"; return s; }
static std::string case_str(const Case& c)
{ char b[96]; snprintf(b, sizeof b, "%s,%u,%c%lu,%s", c.target ? "db" : "log", c.count, c.skind, c.smask, opname[c.op]); return b; }

static const char *patname[] = { "none", "all", "only-current", "every-third", "around-count" };
// is generation i (0 = current) present in the initial directory?  (pairs for the store unless skind == 's')
static bool in_set(const Case& c, unsigned i)
{
	if (c.skind == 'm') return i < 64 && (c.smask >> i) & 1;
	switch (c.smask) {
	case 0: return false;
	case 1: return true;
	case 2: return i == 0;
	case 3: return i % 3 == 0;
	default: return i + 1 >= c.count && i <= c.count + 1;
	}
}
static Files initial(const Case& c)
{
	Files f; const std::string b(base_of(c.target));
	for (unsigned i = 0; i <= c.count + 1; ++i) {
		if (c.skind == 's') {
			if ((c.smask >> (2 * i)) & 1) f[gen(b, i, false)] = "GEN:" + gen(b, i, false) + "\n";
			if ((c.smask >> (2 * i + 1)) & 1) f[gen(b, i, true)] = "GEN:" + gen(b, i, true) + "\n";
		} else if (in_set(c, i)) {
			f[gen(b, i, false)] = "GEN:" + gen(b, i, false) + "\n";
			if (c.target) f[gen(b, i, true)] = "GEN:" + gen(b, i, true) + "\n";
		}
	}
	std::vector<std::string> by { b + ".x", b + "X.1", b + ".1.bak", b + ".0", b + ".01" };
	if (c.target) { by.push_back(b + ".idx.1"); by.push_back(b + ".x.idx"); by.push_back(b + ".0.idx"); }
	for (auto& n : by) f[n] = "BYSTANDER:" + n + "\n";
	f[b + ".d/"] = "<dir>"; f[b + ".d/inner"] = "BYSTANDER:inner\n";
	return f;
}

// the model -------------------------------------------------------------------------------------------------
struct Model { Files f; std::set<std::string> open_cells; unsigned moves = 0; };
static void m_rotate(Model& m, const std::string& b, unsigned count, bool pairs)
{
	const unsigned n = std::min(count, CAP);
	for (int idx = 0; idx < (pairs ? 2 : 1); ++idx)
		for (unsigned k = n; k >= 1; --k) {
			const std::string src(gen(b, k - 1, idx)), dst(gen(b, k, idx));
			auto i = m.f.find(src);
			if (i != m.f.end()) { m.f[dst] = i->second; m.f.erase(src); m.open_cells.erase(dst); ++m.moves; }
			else if (k == n && m.f.count(dst)) m.open_cells.insert(dst);	// oldest generation, nothing to replace it: unspecified
		}
}
static Model expect(const Case& c, const Files& init)
{
	Model m; m.f = init; const std::string b(base_of(c.target));
	auto trunc = [&](const std::string& n) { m.f[n] = ""; };
	auto app = [&](const std::string& n) { m.f.insert({ n, "" }); };
	switch (c.op) {
	case PLAIN: m_rotate(m, b, c.count, false); trunc(b); break;
	case PLAIN_TWICE: m_rotate(m, b, c.count, false); trunc(b); m_rotate(m, b, c.count, false); trunc(b); break;
	case APPEND: app(b); break;
	case APPEND_NOFORCE: app(b); app(b); break;
	case APPEND_FORCE: app(b); m_rotate(m, b, c.count, false); app(b); break;
	case PURGE: m_rotate(m, b, c.count, true); trunc(b); trunc(b + ".idx"); break;
	}
	return m;
}

// the file system ---------------------------------------------------------------------------------------------
static bool put_file(const std::string& p, const std::string& content)
{
	int fd = open(p.c_str(), O_WRONLY | O_CREAT | O_TRUNC, 0644); if (fd < 0) return false;
	bool ok = write(fd, content.data(), content.size()) == (ssize_t)content.size(); close(fd); return ok;
}
static void snapshot(const std::string& dir, const std::string& rel, Files& out)
{
	DIR *d = opendir((dir + "/" + rel).c_str()); if (!d) return;
	while (struct dirent *e = readdir(d)) {
		std::string n(e->d_name); if (n == "." || n == "..") continue;
		std::string p(dir + "/" + rel + n); struct stat st;
		if (lstat(p.c_str(), &st)) { out[rel + n] = "<unstatable>"; continue; }
		if (S_ISDIR(st.st_mode)) { out[rel + n + "/"] = "<dir>"; if (rel.empty()) snapshot(dir, n + "/", out); }
		else if (S_ISREG(st.st_mode)) {
			std::string c; int fd = open(p.c_str(), O_RDONLY);
			if (fd >= 0) { char buf[4096]; ssize_t r; while ((r = read(fd, buf, sizeof buf)) > 0 && c.size() < 65536) c.append(buf, (size_t)r); close(fd); }
			out[rel + n] = c;
		} else out[rel + n] = "<special>";
	}
	closedir(d);
}
static void rm_rf(const std::string& p)
{
	struct stat st; if (lstat(p.c_str(), &st)) return;
	if (S_ISDIR(st.st_mode)) {
		std::vector<std::string> names;
		if (DIR *d = opendir(p.c_str())) { while (struct dirent *e = readdir(d)) { std::string n(e->d_name); if (n != "." && n != "..") names.push_back(n); } closedir(d); }
		for (auto& n : names) rm_rf(p + "/" + n);
		rmdir(p.c_str());
	} else unlink(p.c_str());
}
static std::string slurp(const std::string& p)
{ std::string c; int fd = open(p.c_str(), O_RDONLY); if (fd >= 0) { char buf[4096]; ssize_t r; while ((r = read(fd, buf, sizeof buf)) > 0) c.append(buf, (size_t)r); close(fd); } return c; }

// the real code -------------------------------------------------------------------------------------------------
// returns 0 ok, 40 f8Exception, 41 a call returned false, 42 std::exception, -1 fatal signal (sig_caught, bt[] set).
// Objects are heap allocated: after a fatal signal they are abandoned where they are (their mutex may be held).
static int run_op(const Case& c, const std::string& dir)
{
	sig_caught = 0; nbt = 0;
	if (sigsetjmp(jb, 1)) { recording = 0; return -1; }
	armed = 1; recording = 1;
	int rc = 0;
	try {
		if (c.target == 0) {
			Logger::LogFlags fl; fl << Logger::timestamp << Logger::sequence << Logger::level;
			if (c.op == APPEND || c.op == APPEND_FORCE || c.op == APPEND_NOFORCE) fl << Logger::append;
			FileLogger *lg = new FileLogger(dir + "/sess.log", fl, Logger::Levels(Logger::All), " ", Logger::LogPositions(), c.count);
			if (c.op == APPEND_FORCE) { if (!lg->rotate(true)) rc = 41; }
			else if (c.op == APPEND_NOFORCE) { if (!lg->rotate(false)) rc = 41; }
			else if (c.op == PLAIN_TWICE) { if (!lg->rotate()) rc = 41; }
			delete lg;
		} else {
			FilePersister *fp = new FilePersister(c.count);
			if (!fp->initialise(dir, "sess.db", true)) rc = 41;
			delete fp;
		}
	} catch (f8Exception& e) { fprintf(stderr, "f8Exception: %s\n", e.what()); rc = 40; }
	catch (std::exception& e) { fprintf(stderr, "std::exception: %s\n", e.what()); rc = 42; }
	recording = 0; armed = 0;
	return rc;
}

// normalised description of a fatal signal: what (from the message on stderr / the signal) and the first fix8 frame
static std::string crash_mode(const std::string& err, int sig, std::string *trace = 0)
{
	std::string kind; size_t p;
	if (err.find("Assertion '__n < this->size()' failed") != std::string::npos) kind = "assert:vector-subscript-past-size";
	else if ((p = err.find("Assertion '")) != std::string::npos) kind = "assert:" + err.substr(p + 11, err.find('\'', p + 11) - p - 11);
	else kind = sig == SIGSEGV ? "signal:SIGSEGV" : sig == SIGABRT ? "signal:SIGABRT" : sig == SIGBUS ? "signal:SIGBUS" : sig == SIGFPE ? "signal:SIGFPE" : "signal:" + std::to_string(sig);
	std::string where;
	for (int i = 0; i < nbt; ++i) {
		Dl_info di; std::string fn("?");
		if (dladdr(bt[i], &di) && di.dli_sname) {
			int st = 0; char *d = abi::__cxa_demangle(di.dli_sname, 0, 0, &st);
			fn = st == 0 && d ? d : di.dli_sname; free(d);
		}
		if (trace) *trace += "    #" + std::to_string(i) + " " + fn + "\n";
		if (where.empty() && fn.compare(0, 6, "FIX8::") == 0) where = fn.substr(0, fn.find('('));
	}
	return kind + (where.empty() ? "" : " in " + where);
}

static std::string showc(const Files& f, const std::string& k)
{
	auto i = f.find(k); if (i == f.end()) return "<absent>";
	std::string s(i->second); if (s.size() > 40) s = s.substr(0, 40) + "..."; for (auto& ch : s) if (ch == '\n') ch = '$';
	return "'" + s + "'";
}

int main(int argc, char **argv)
{
	vh::Run R(argc, argv);
	const unsigned maxcount = (unsigned)R.args.num("maxcount", 1100);
	const unsigned dense = (unsigned)R.args.num("dense", 12);
	const unsigned stride = (unsigned)R.args.num("stride", 1);
	const unsigned lo = (unsigned)R.args.num("around_lo", 1020), hi = (unsigned)R.args.num("around_hi", 1030);

	char tagb[64]; snprintf(tagb, sizeof tagb, "c29-%d", (int)getpid());
	const std::string dir(tagb), errfile(dir + ".err"), globlog(dir + ".global.log");
	const int efd = open(errfile.c_str(), O_RDWR | O_CREAT | O_TRUNC, 0644);
	if (efd < 0 || pipe(probe)) { fprintf(stderr, "setup failed\n"); return 2; }
	struct sigaction sa; memset(&sa, 0, sizeof sa); sa.sa_handler = on_fatal; sa.sa_flags = SA_NODEFER;
	sigaction(SIGABRT, &sa, 0); sigaction(SIGSEGV, &sa, 0); sigaction(SIGBUS, &sa, 0); sigaction(SIGFPE, &sa, 0);
	// the library's global logger (used by FilePersister for its info line) is itself a FileLogger: create it once,
	// here, under a name of its own in the scratch directory, outside the case directory
	GlobalLogger::set_global_filename(globlog);
	(void)GlobalLogger::is_loggable(Logger::Info);

	auto tags_of = [&](const Case& c) {
		std::vector<std::string> t;
		t.push_back(c.target ? "target:db" : "target:log");
		t.push_back(std::string("op:") + opname[c.op]);
		t.push_back(c.count > CAP ? "count_gt:1024" : "count_le:1024");
		if (c.count == 0) t.push_back("count_eq:0");
		return t;
	};

	auto run_case = [&](const Case& c, const std::string& id) {
		const std::vector<std::string> tags(tags_of(c));
		const Files init(initial(c));
		const std::string b(base_of(c.target));
		rm_rf(dir);
		bool setup_ok = mkdir(dir.c_str(), 0755) == 0;
		for (auto& kv : init) {
			if (kv.first.back() == '/') setup_ok = setup_ok && mkdir((dir + "/" + kv.first).c_str(), 0755) == 0;
		}
		for (auto& kv : init) if (kv.first.back() != '/') setup_ok = setup_ok && put_file(dir + "/" + kv.first, kv.second);
		if (!setup_ok) { R.outcome("setup-failed"); R.viol("harness", "setup-failed", tags, id, strerror(errno), "scratch directory writable", ""); rm_rf(dir); return; }
		shm->n = 0; shm->dropped = 0;
		// stderr of the call (assertion text, exception text) goes to a file of this shard
		fflush(stdout); fflush(stderr);
		if (ftruncate(efd, 0) || lseek(efd, 0, SEEK_SET) < 0) {}
		const int saved2 = dup(2); dup2(efd, 2);
		const int rc = run_op(c, dir);
		fflush(stderr); dup2(saved2, 2); close(saved2);
		Files obs; snapshot(dir, "", obs);
		const Model m(expect(c, init));
		const unsigned n = std::min(c.count, CAP);
		if (m.moves || c.count > CAP) ++R.nontrivial;
		const bool verbose = R.verbose();
		if (verbose) {
			fprintf(stderr, "case %s: count=%u cap=%u set=%s op=%s; %zu files before, %zu after, model moved %u, %u rename calls\n", id.c_str(), c.count, CAP,
				c.skind == 'p' ? patname[c.smask] : "mask", opname[c.op], init.size(), obs.size(), m.moves, shm->n);
			if (init.size() <= 40) for (auto& kv : init) fprintf(stderr, "  before  %-22s %s\n", kv.first.c_str(), showc(init, kv.first).c_str());
		}
		bool bad = false;
		// (3) the call must come back
		if (rc < 0) {
			std::string trace; const std::string err(slurp(errfile)), mode(crash_mode(err, sig_caught, &trace));
			R.outcome("fatal-signal");
			R.viol("stays-in-bounds", mode, tags, id, mode, "rotation completes without reading or writing outside its generation list", err.substr(0, 600) + trace.substr(0, 900));
			if (verbose) fprintf(stderr, "call did not return: %s\n%s%s\n", mode.c_str(), err.substr(0, 3000).c_str(), trace.c_str());
			rm_rf(dir);
			return;
		}
		if (rc != 0) {
			const char *md = rc == 40 ? "threw-f8Exception" : rc == 42 ? "threw-std-exception" : "returned-false";
			R.outcome(md); bad = true;
			R.viol("completes", md, tags, id, slurp(errfile).substr(0, 300), "rotation succeeds on a writable directory", "");
		}
		// (2) every rename the code issued is generation k-1 -> k, 1 <= k <= min(count, cap)
		{
			std::set<std::string> legal;
			for (unsigned k = 1; k <= n; ++k) {
				legal.insert(dir + "/" + gen(b, k - 1, false) + "\n" + dir + "/" + gen(b, k, false));
				if (c.target) legal.insert(dir + "/" + gen(b, k - 1, true) + "\n" + dir + "/" + gen(b, k, true));
			}
			unsigned nbad = 0; std::string first;
			for (unsigned i = 0; i < shm->n; ++i) {
				const RenRec& r = shm->r[i];
				if (!legal.count(std::string(r.from) + "\n" + r.to)) {
					if (!nbad++) { first = std::string("rename(") + r.from + ", " + r.to + ")"; size_t p; while ((p = first.find(dir + "/")) != std::string::npos) first.erase(p, dir.size() + 1); }
				}
			}
			if (verbose) for (unsigned i = 0; i < shm->n && i < 12; ++i) fprintf(stderr, "  rename #%u %s -> %s rc=%d\n", i, shm->r[i].from, shm->r[i].to, shm->r[i].rc);
			if (nbad || shm->dropped) {
				bad = true; R.outcome("rename-outside-list");
				R.viol("stays-in-bounds", "rename-argument-not-a-generation-path", tags, id, first + " (" + std::to_string(nbad) + " such calls)",
					"only rename(generation k-1, generation k) for 1 <= k <= min(count, " + std::to_string(CAP) + ")", "");
			}
		}
		// (1) the directory afterwards equals the model
		{
			std::map<std::string, std::vector<std::string>> diffs;	// "clause|mode" -> files
			std::set<std::string> keys; for (auto& kv : obs) keys.insert(kv.first); for (auto& kv : m.f) keys.insert(kv.first);
			std::set<std::string> gens, cur; cur.insert(b); if (c.target) cur.insert(b + ".idx");
			for (unsigned k = 1; k <= n; ++k) { gens.insert(gen(b, k, false)); if (c.target) gens.insert(gen(b, k, true)); }
			const bool norot = c.op == APPEND || c.op == APPEND_NOFORCE;
			unsigned open_kept = 0, open_gone = 0;
			for (auto& k : keys) {
				auto o = obs.find(k); auto e = m.f.find(k);
				const bool oh = o != obs.end(), eh = e != m.f.end();
				if (oh && eh && o->second == e->second) { if (m.open_cells.count(k)) ++open_kept; continue; }
				if (!oh && eh && m.open_cells.count(k)) { ++open_gone; continue; }
				std::string clause, mode;
				const char *how = !oh ? "missing" : !eh ? "unexpectedly-present" : "content-differs";
				if (norot) { clause = "append-not-rotated-unless-forced"; mode = std::string("file-") + how; }
				else if (cur.count(k)) { clause = "current-file"; mode = std::string("current-") + how; }
				else if (gens.count(k)) { clause = "shift-generations"; mode = std::string("generation-") + how; }
				else { clause = "never-touches-other-files"; mode = std::string("other-file-") + how; }
				diffs[clause + "|" + mode].push_back(k);
			}
			if (open_kept) R.outcome("oldest-generation-kept-without-predecessor", 1);
			if (open_gone) R.outcome("oldest-generation-removed-without-predecessor", 1);
			for (auto& d : diffs) {
				bad = true;
				const size_t bar = d.first.find('|'); std::string ob, ex;
				for (size_t i = 0; i < d.second.size() && i < 6; ++i) {
					ob += (i ? "; " : "") + d.second[i] + "=" + showc(obs, d.second[i]);
					ex += (i ? "; " : "") + d.second[i] + "=" + showc(m.f, d.second[i]);
				}
				if (d.second.size() > 6) { ob += "; ... (" + std::to_string(d.second.size()) + " files)"; ex += "; ..."; }
				R.outcome("mismatch:" + d.first.substr(0, bar));
				R.viol(d.first.substr(0, bar), d.first.substr(bar + 1), tags, id, ob, ex, "");
				if (verbose) fprintf(stderr, "  MISMATCH %s\n    observed %s\n    expected %s\n", d.first.c_str(), ob.c_str(), ex.c_str());
			}
			if (verbose && obs.size() <= 40) for (auto& k : keys) fprintf(stderr, "  after   %-22s observed %-34s model %s%s\n", k.c_str(), showc(obs, k).c_str(), showc(m.f, k).c_str(), m.open_cells.count(k) ? " (or absent)" : "");
		}
		if (!bad) R.outcome(m.moves ? (c.count > CAP ? "ok-rotated-capped" : "ok-rotated") : (c.op == APPEND || c.op == APPEND_NOFORCE) ? "ok-append-untouched" : "ok-nothing-to-rotate");
		rm_rf(dir);
	};

	auto cleanup = [&]() { rm_rf(dir); close(efd); unlink(errfile.c_str()); unlink(globlog.c_str()); };

	if (R.single) {
		Case c{}; char tg[16] = "", st[40] = "", op[32] = "";
		if (sscanf(R.single_case.c_str(), "%15[^,],%u,%39[^,],%31s", tg, &c.count, st, op) != 4) { fprintf(stderr, "bad case string\n"); return 2; }
		c.target = !strcmp(tg, "db"); c.skind = st[0]; c.smask = strtoul(st + 1, 0, 10); c.op = -1;
		for (int i = 0; i < NOPS; ++i) if (!strcmp(op, opname[i])) c.op = i;
		if (c.op < 0 || !strchr("mps", c.skind)) { fprintf(stderr, "bad case string\n"); return 2; }
		R.begin_case(R.single_case);
		run_case(c, R.single_case);
		R.finish(); cleanup();
		return R.violations ? 1 : 0;
	}

	std::vector<unsigned> counts;
	for (unsigned k = 0; k <= maxcount; ++k)
		if (stride <= 1 || k <= dense || (k >= lo && k <= hi) || k % stride == 0 || k == maxcount) counts.push_back(k);

	unsigned long long id = 0; bool done = true;
	for (unsigned ci = 0; ci < counts.size() && done; ++ci) {
		const unsigned count = counts[ci];
		std::vector<Case> cs;
		for (int target = 0; target < 2; ++target) {
			std::vector<std::pair<char, unsigned long>> sets;
			if (count <= 4) for (unsigned long mk = 0; mk < (1UL << (count + 2)); ++mk) sets.push_back({ 'm', mk });
			else for (unsigned long p = 0; p < 5; ++p) sets.push_back({ 'p', p });
			if (target && count <= 2) for (unsigned long mk = 0; mk < (1UL << (2 * (count + 2))); ++mk) sets.push_back({ 's', mk });
			for (auto& s : sets)
				for (int op = target ? PURGE : PLAIN; op <= (target ? PURGE : PLAIN_TWICE); ++op) cs.push_back(Case{ target, count, s.first, s.second, op });
		}
		for (auto& c : cs) {
			const unsigned long long my = id++;
			if (!R.mine(my)) continue;
			if (R.out_of_time()) { done = false; break; }
			const std::string s(case_str(c)); std::string tg; for (auto& t : tags_of(c)) tg += (tg.empty() ? "" : ",") + t;
			R.begin_case(s, tg);
			run_case(c, s);
			if (c.target == 0 && c.count == 3 && c.skind == 'm' && c.smask == 31 && c.op == PLAIN) R.sample(s, "log, count 3, name and name.1..name.4 exist, plain: name.1..3 shift, name.4 untouched");
			if (c.target == 1 && c.count == 1024 && c.skind == 'p' && c.smask == 1) R.sample(s, "store, count 1024, all 1026 db/idx pairs exist, purge");
			if (c.target == 0 && c.count == 1030 && c.skind == 'p' && c.smask == 4 && c.op == APPEND_FORCE) R.sample(s, "log, count 1030 (> cap), name.1029..1031 exist, append + forced rotate");
		}
	}
	R.counters["threads_registered_never_run"] = threads_registered;
	R.finish(done);
	cleanup();
	return 0;
}
