// C12 part a — the generated lookup tables behave as exact maps.
// For both compiled schemas (FIX42UTEST -> UTEST, FIX44 -> F44) every key of a stated finite key space is looked up in the
// real tables and judged against the independent schema model (vp/schema_model.py):
//   tag      all tags 0..65535 through _be.find_ptr / find_pair_ptr / find_ref (GeneratedTable::_find), F8MetaCntx::find_be
//            (the _flu array) and create_field(tag, text); plus keys above 65535 through _be (unsigned key)
//   msgtype  every msgtype of the schema, "header", "trailer", "" and every near miss (one character removed / replaced /
//            inserted over the alphabet of the msgtypes + "Aa0z~ ", case flipped), every string of <= 2 printable characters and
//            every 3-character string over that alphabet through _bme.find_ptr / find_bme / create_msg
//   fname    every field long name (also of the fields f8c does not generate) and near misses through reverse_find_be /
//   mname    reverse_find_fnum / create_field(name, text); message long names through reverse_find_bme / create_msg_from_longname
//   trait    for the header, the trailer, every message and every (nested) repeating group of the schema: all tags 0..65535
//            through FieldTraits::has / has(hint) / get_presence().find / find-with-answer / getPos / is_group / is_mandatory /
//            is_present / getComp / getval on a real instance (create_msg, find_add_group, create_group)
// Oracle: hit <=> the key is defined (tables: the field is defined and used by some message - f8c does not generate unused
// fields; traits: the tag is a member of that container), and the entry returned is that key's (name, number, type class,
// realm present; msgtype / name of the message; tag, type, group flag, mandatory flag, position order of the member).
// args: spaces=utest,fix44     replay: <schema>:<kind>:<key...>
#include <fix8/f8includes.hpp>
#include "utest_types.hpp"
#include "utest_router.hpp"
#include "utest_classes.hpp"
#include "fix44_types.hpp"
#include "fix44_router.hpp"
#include "fix44_classes.hpp"
#include "explore/schema.hpp"
#include <memory>
using namespace FIX8;

extern "C" const char *__asan_default_options() { return "allocator_release_to_os_interval_ms=-1"; }

static vh::Run *RR;
static bool g_verbose = false;

struct Ctx {
	std::string schema; const F8MetaCntx *ctx; sm::Schema S;
	std::set<int> used;								// tags that occur in some message / header / trailer / group
	std::map<std::string, const sm::MsgDef *> by_type, by_name;
	std::map<std::string, int> fnum_by_name;			// all fields of the model
};

static void collect_used(const std::vector<sm::Member>& ms, std::set<int>& u) { for (auto& m : ms) { u.insert(m.tag); collect_used(m.kids, u); } }

// a text the field's constructor is happy with (the lookup, not the conversion, is under test)
static const char *sample_text(const sm::FieldDef& f)
{
	switch (f.vclass()) {
	case sm::V_INT: return "1"; case sm::V_CHAR: return "A"; case sm::V_BOOL: return "Y"; case sm::V_FLOAT: return "1.5";
	case sm::V_TIMESTAMP: return "20240229-12:00:00"; case sm::V_TIMEONLY: return "12:00:00"; case sm::V_DATEONLY: case sm::V_LOCALMKTDATE: return "20240229";
	case sm::V_MONTHYEAR: return "202402"; default: return "x";
	}
}
static int type_class(FieldTrait::FieldType t) { return FieldTrait::is_int(t) ? 0 : FieldTrait::is_char(t) ? 1 : FieldTrait::is_float(t) ? 2 : 3; }
static int model_class(const sm::FieldDef& f) { sm::VClass c = f.vclass(); return c == sm::V_INT ? 0 : c == sm::V_CHAR || c == sm::V_BOOL ? 1 : c == sm::V_FLOAT ? 2 : 3; }
// FIX type name of the schema -> the library's FieldType of that name (documented meaning of the enum)
static int model_ftype(const std::string& t)
{
	static const std::map<std::string, FieldTrait::FieldType> m {
		{ "INT", FieldTrait::ft_int }, { "LENGTH", FieldTrait::ft_Length }, { "TAGNUM", FieldTrait::ft_TagNum }, { "SEQNUM", FieldTrait::ft_SeqNum }, { "NUMINGROUP", FieldTrait::ft_NumInGroup },
		{ "DAYOFMONTH", FieldTrait::ft_DayOfMonth }, { "CHAR", FieldTrait::ft_char }, { "BOOLEAN", FieldTrait::ft_Boolean }, { "FLOAT", FieldTrait::ft_float }, { "QTY", FieldTrait::ft_Qty },
		{ "QUANTITY", FieldTrait::ft_Qty }, { "PRICE", FieldTrait::ft_Price }, { "PRICEOFFSET", FieldTrait::ft_PriceOffset }, { "AMT", FieldTrait::ft_Amt }, { "PERCENTAGE", FieldTrait::ft_Percentage },
		{ "STRING", FieldTrait::ft_string }, { "MULTIPLEVALUECHAR", FieldTrait::ft_MultipleCharValue }, { "MULTIPLECHARVALUE", FieldTrait::ft_MultipleCharValue },
		{ "MULTIPLEVALUESTRING", FieldTrait::ft_MultipleStringValue }, { "MULTIPLESTRINGVALUE", FieldTrait::ft_MultipleStringValue }, { "COUNTRY", FieldTrait::ft_Country },
		{ "CURRENCY", FieldTrait::ft_Currency }, { "EXCHANGE", FieldTrait::ft_Exchange }, { "MONTHYEAR", FieldTrait::ft_MonthYear }, { "UTCTIMESTAMP", FieldTrait::ft_UTCTimestamp },
		{ "UTCTIMEONLY", FieldTrait::ft_UTCTimeOnly }, { "UTCTIME", FieldTrait::ft_UTCTimeOnly }, { "UTCDATEONLY", FieldTrait::ft_UTCDateOnly }, { "UTCDATE", FieldTrait::ft_UTCDateOnly },
		{ "LOCALMKTDATE", FieldTrait::ft_LocalMktDate }, { "TZTIMEONLY", FieldTrait::ft_TZTimeOnly }, { "TZTIMESTAMP", FieldTrait::ft_TZTimestamp }, { "DATA", FieldTrait::ft_data },
		{ "XMLDATA", FieldTrait::ft_XMLData }, { "PATTERN", FieldTrait::ft_pattern }, { "TENOR", FieldTrait::ft_Tenor }, { "LANGUAGE", FieldTrait::ft_Language } };
	auto i = m.find(t); return i == m.end() ? -1 : (int)i->second;
}

struct Rep {	// one case: collects the first failure
	const Ctx& c; std::string id; std::vector<std::string> tags; bool failed = false;
	void fail(const char *clause, const char *mode, const std::string& obs, const std::string& exp, const std::string& desc)
	{
		if (g_verbose) fprintf(stderr, "  VIOLATED %s/%s: observed %s, expected %s (%s)\n", clause, mode, obs.c_str(), exp.c_str(), desc.c_str());
		if (failed) return; failed = true;
		RR->viol(clause, mode, tags, id, obs, exp, desc);
	}
};
static std::string pstr(const void *p) { return p ? "hit" : "miss"; }

// ------------------------------------------------------------------------------------------------ tags through the field tables
static void case_tag(const Ctx& c, unsigned key, const std::string& id)
{
	const F8MetaCntx& ctx = *c.ctx;
	const bool small = key <= 65535;
	auto fi = small ? c.S.fields.find((int)key) : c.S.fields.end();
	const bool want = fi != c.S.fields.end() && c.used.count((int)key);
	Rep r { c, id, { "schema:" + c.schema, "table:field", want ? "key:defined" : fi != c.S.fields.end() ? "key:defined_but_unused" : "key:undefined", small ? "key_le_65535" : "key_gt_65535" } };
	const BaseEntry *a = ctx._be.find_ptr(key);
	const FieldTable::Pair *pp = ctx._be.find_pair_ptr(key);
	const BaseEntry *viaref = nullptr; bool threw = false;
	try { viaref = &ctx._be.find_ref(key); } catch (std::exception&) { threw = true; }
	if (g_verbose) fprintf(stderr, "  _be.find_ptr(%u)=%s find_pair_ptr=%s find_ref %s%s   [oracle: %s]\n", key, pstr(a).c_str(), pstr(pp).c_str(), threw ? "threw InvalidMetadata" : "returned",
		a ? (std::string(" name ") + a->_name + " fnum " + std::to_string(a->_fnum)).c_str() : "", want ? ("defined: " + fi->second.name).c_str() : "not in the compiled schema");
	if ((a != nullptr) != want) r.fail("field-table-hit-iff-defined", a ? "hit-for-undefined-tag" : "miss-for-defined-tag", "_be.find_ptr " + pstr(a), want ? "hit" : "miss", "tag " + std::to_string(key));
	if ((pp != nullptr) != want) r.fail("field-table-hit-iff-defined", pp ? "hit-for-undefined-tag" : "miss-for-defined-tag", "_be.find_pair_ptr " + pstr(pp), want ? "hit" : "miss", "tag " + std::to_string(key));
	if (threw == want) r.fail("field-table-hit-iff-defined", threw ? "miss-for-defined-tag" : "hit-for-undefined-tag", std::string("_be.find_ref ") + (threw ? "threw" : "returned"), want ? "returns" : "throws InvalidMetadata", "tag " + std::to_string(key));
	const BaseEntry *b = nullptr; std::unique_ptr<BaseField> bf;
	if (small) {
		b = ctx.find_be((unsigned short)key);
		if ((b != nullptr) != want) r.fail("field-table-hit-iff-defined", b ? "hit-for-undefined-tag" : "miss-for-defined-tag", "find_be " + pstr(b), want ? "hit" : "miss", "tag " + std::to_string(key));
		bf.reset(ctx.create_field((unsigned short)key, want ? sample_text(fi->second) : "1"));
		if ((bf != nullptr) != want) r.fail("field-table-hit-iff-defined", bf ? "hit-for-undefined-tag" : "miss-for-defined-tag", "create_field " + pstr(bf.get()), want ? "a field" : "null", "tag " + std::to_string(key));
	}
	if (want && !r.failed) {
		const sm::FieldDef& f = fi->second;
		if (a != b || viaref != a || &pp->_value != a) r.fail("field-table-returns-that-entry", "lookups-disagree", "find_ptr / find_be / find_ref / find_pair_ptr return different entries", "one entry", f.name);
		else if (pp->_key != key || a->_fnum != key || f.name != a->_name) r.fail("field-table-returns-that-entry", "entry-of-other-field", std::string(a->_name) + "(" + std::to_string(a->_fnum) + ") key " + std::to_string(pp->_key), f.name + "(" + std::to_string(key) + ")", "");
		else if ((a->_rlm != nullptr) != (f.realm != 0)) r.fail("field-table-returns-that-entry", "entry-realm-presence-differs", a->_rlm ? "realm" : "no realm", f.realm ? "realm" : "no realm", f.name);
		else if (bf->get_tag() != key) r.fail("field-table-returns-that-entry", "created-field-of-other-tag", std::to_string(bf->get_tag()), std::to_string(key), f.name);
		else if (type_class(bf->get_underlying_type()) != model_class(f)) r.fail("field-table-returns-that-entry", "created-field-of-other-type-class", std::to_string(type_class(bf->get_underlying_type())), std::to_string(model_class(f)) + " (" + f.type + ")", f.name);
	}
	RR->outcome(c.schema + ":tag:" + (want ? "hit" : fi != c.S.fields.end() ? "miss(unused field)" : "miss") + (r.failed ? ":VIOLATED" : ""));
	if (want || fi != c.S.fields.end() || (small && (c.S.fields.count((int)key - 1) || c.S.fields.count((int)key + 1)))) ++RR->nontrivial;
}

// ------------------------------------------------------------------------------------------------ msgtypes
static void near(const std::string& m, const std::string& alpha, std::set<std::string>& out)
{
	out.insert(m);
	for (size_t i = 0; i < m.size(); ++i) { std::string d = m; d.erase(i, 1); out.insert(d); }
	for (size_t i = 0; i < m.size(); ++i) for (char ch : alpha) { std::string d = m; d[i] = ch; out.insert(d); }
	for (size_t i = 0; i <= m.size(); ++i) for (char ch : alpha) { std::string d = m; d.insert(i, 1, ch); out.insert(d); }
	for (size_t i = 0; i < m.size(); ++i) { std::string d = m; d[i] = isupper((unsigned char)d[i]) ? tolower(d[i]) : toupper(d[i]); out.insert(d); }
}
static void case_msgtype(const Ctx& c, const std::string& key, const std::string& id)
{
	const F8MetaCntx& ctx = *c.ctx;
	auto mi = c.by_type.find(key); const bool pseudo = key == "header" || key == "trailer";
	const bool want = mi != c.by_type.end() || pseudo;
	Rep r { c, id, { "schema:" + c.schema, "table:msgtype", want ? (pseudo ? "key:header_or_trailer" : "key:defined") : "key:undefined" } };
	const BaseMsgEntry *a = ctx._bme.find_ptr(key.c_str()), *b = ctx.find_bme(key.c_str());
	if (g_verbose) fprintf(stderr, "  _bme.find_ptr(\"%s\")=%s%s   [oracle: %s]\n", vh::show(key).c_str(), pstr(a).c_str(), a ? (std::string(" name ") + a->_name).c_str() : "", want ? "defined" : "not defined");
	if ((a != nullptr) != want) r.fail("msg-table-hit-iff-defined", a ? "hit-for-undefined-msgtype" : "miss-for-defined-msgtype", "_bme.find_ptr " + pstr(a) + (a ? std::string(" (") + a->_name + ")" : ""), want ? "hit" : "miss", "msgtype '" + vh::show(key) + "'");
	if (a != b) r.fail("msg-table-returns-that-entry", "lookups-disagree", "find_bme differs from _bme.find_ptr", "same entry", key);
	if (!pseudo) {
		std::unique_ptr<Message> m(ctx.create_msg(key.c_str()));
		if ((m != nullptr) != want) r.fail("msg-table-hit-iff-defined", m ? "hit-for-undefined-msgtype" : "miss-for-defined-msgtype", "create_msg " + pstr(m.get()), want ? "a message" : "null", "msgtype '" + vh::show(key) + "'");
		if (m && want && m->get_msgtype() != key) r.fail("msg-table-returns-that-entry", "created-message-of-other-type", m->get_msgtype(), key, "");
	}
	if (want && a && !r.failed) {
		const std::string wn = pseudo ? key : mi->second->name;
		if (wn != a->_name) r.fail("msg-table-returns-that-entry", "entry-of-other-message", a->_name, wn, "msgtype " + key);
	}
	RR->outcome(c.schema + ":msgtype:" + (want ? "hit" : "miss") + (r.failed ? ":VIOLATED" : ""));
	++RR->nontrivial;
}

// ------------------------------------------------------------------------------------------------ reverse (long name) lookups
static void case_fname(const Ctx& c, const std::string& key, const std::string& id)
{
	const F8MetaCntx& ctx = *c.ctx;
	auto fi = c.fnum_by_name.find(key);
	const bool defined = fi != c.fnum_by_name.end(), want = defined && c.used.count(fi->second);
	Rep r { c, id, { "schema:" + c.schema, "table:reverse-field", want ? "key:defined" : defined ? "key:defined_but_unused" : "key:undefined" } };
	const BaseEntry *a = ctx.reverse_find_be(key.c_str());
	const unsigned short n = ctx.reverse_find_fnum(key.c_str());
	if (g_verbose) fprintf(stderr, "  reverse_find_be(\"%s\")=%s%s reverse_find_fnum=%u   [oracle: %s]\n", vh::show(key).c_str(), pstr(a).c_str(), a ? (std::string(" ") + a->_name + "(" + std::to_string(a->_fnum) + ")").c_str() : "", n,
		want ? std::to_string(fi->second).c_str() : "not a field name of the compiled schema");
	if ((a != nullptr) != want) r.fail("reverse-hit-iff-defined", a ? "hit-for-undefined-name" : "miss-for-defined-name", "reverse_find_be " + pstr(a) + (a ? std::string(" (") + a->_name + ")" : ""), want ? "hit" : "miss", "field name '" + vh::show(key) + "'");
	if ((n != 0) != want) r.fail("reverse-hit-iff-defined", n ? "hit-for-undefined-name" : "miss-for-defined-name", "reverse_find_fnum " + std::to_string(n), want ? std::to_string(fi->second) : "0", "field name '" + vh::show(key) + "'");
	std::unique_ptr<BaseField> bf(ctx.create_field(key.c_str(), want ? sample_text(c.S.fields.at(fi->second)) : "1"));
	if ((bf != nullptr) != want) r.fail("reverse-hit-iff-defined", bf ? "hit-for-undefined-name" : "miss-for-defined-name", "create_field(name) " + pstr(bf.get()), want ? "a field" : "null", "field name '" + vh::show(key) + "'");
	if (want && !r.failed) {
		if (a->_fnum != fi->second || n != fi->second || key != a->_name || bf->get_tag() != fi->second || a != ctx.find_be((unsigned short)fi->second))
			r.fail("reverse-returns-that-entry", "entry-of-other-field", std::string(a->_name) + "(" + std::to_string(a->_fnum) + ") fnum " + std::to_string(n) + " created " + std::to_string(bf->get_tag()), key + "(" + std::to_string(fi->second) + ")", "");
	}
	RR->outcome(c.schema + ":fname:" + (want ? "hit" : defined ? "miss(unused field)" : "miss") + (r.failed ? ":VIOLATED" : ""));
	++RR->nontrivial;
}
static void case_mname(const Ctx& c, const std::string& key, const std::string& id)
{
	const F8MetaCntx& ctx = *c.ctx;
	auto mi = c.by_name.find(key); const bool pseudo = key == "header" || key == "trailer";
	const bool want = mi != c.by_name.end() || pseudo;
	Rep r { c, id, { "schema:" + c.schema, "table:reverse-msg", want ? (pseudo ? "key:header_or_trailer" : "key:defined") : "key:undefined" } };
	const BaseMsgEntry *a = ctx.reverse_find_bme(key.c_str());
	if (g_verbose) fprintf(stderr, "  reverse_find_bme(\"%s\")=%s%s   [oracle: %s]\n", vh::show(key).c_str(), pstr(a).c_str(), a ? (std::string(" ") + a->_name).c_str() : "", want ? "defined" : "not a message name");
	if ((a != nullptr) != want) r.fail("reverse-hit-iff-defined", a ? "hit-for-undefined-name" : "miss-for-defined-name", "reverse_find_bme " + pstr(a) + (a ? std::string(" (") + a->_name + ")" : ""), want ? "hit" : "miss", "message name '" + vh::show(key) + "'");
	if (!pseudo) {
		std::unique_ptr<Message> m(ctx.create_msg_from_longname(key.c_str()));
		if ((m != nullptr) != want) r.fail("reverse-hit-iff-defined", m ? "hit-for-undefined-name" : "miss-for-defined-name", "create_msg_from_longname " + pstr(m.get()), want ? "a message" : "null", "message name '" + vh::show(key) + "'");
		if (m && want && m->get_msgtype() != mi->second->msgtype) r.fail("reverse-returns-that-entry", "created-message-of-other-type", m->get_msgtype(), mi->second->msgtype, key);
	}
	if (want && a && !r.failed) {
		if (key != a->_name) r.fail("reverse-returns-that-entry", "entry-of-other-message", a->_name, key, "");
		else if (!pseudo && a != ctx.find_bme(mi->second->msgtype.c_str())) r.fail("reverse-returns-that-entry", "entry-of-other-message", "entry differs from the one found by msgtype", mi->second->msgtype, key);
	}
	RR->outcome(c.schema + ":mname:" + (want ? "hit" : "miss") + (r.failed ? ":VIOLATED" : ""));
	++RR->nontrivial;
}
static void name_keys(const std::string& m, std::set<std::string>& out)
{
	out.insert(m); out.insert(m + "X"); out.insert("X" + m); out.insert(m + " ");
	for (size_t i = 0; i < m.size(); ++i) { std::string d = m; d.erase(i, 1); out.insert(d); }
	for (size_t i = 0; i < m.size(); ++i) { std::string d = m; d[i] = isupper((unsigned char)d[i]) ? tolower(d[i]) : toupper(d[i]); out.insert(d); }
	for (size_t i = 0; i < m.size(); ++i) { std::string d = m; d[i] = (char)(d[i] + 1); out.insert(d); d[i] = (char)(d[i] - 2); out.insert(d); }
	for (size_t i = 1; i < m.size(); ++i) out.insert(m.substr(0, i));
}

// ------------------------------------------------------------------------------------------------ field traits of every container
struct Cont { int kind; int mi; std::vector<int> path; const std::vector<sm::Member> *members; std::string desc; };	// kind 0 header 1 trailer 2 message (path empty) / group
static void list_groups(const std::vector<sm::Member>& ms, int kind, int mi, std::vector<int>& path, const std::string& desc, std::vector<Cont>& out)
{
	for (auto& m : ms) if (m.group) {
		path.push_back(m.tag);
		const std::string d = desc + "/" + std::to_string(m.tag);
		out.push_back({ kind, mi, path, &m.kids, d });
		list_groups(m.kids, kind, mi, path, d, out);
		path.pop_back();
	}
}
static void list_containers(const Ctx& c, std::vector<Cont>& out)
{
	std::vector<int> path;
	out.push_back({ 0, 0, {}, &c.S.header, "header" }); list_groups(c.S.header, 0, 0, path, "header", out);
	out.push_back({ 1, 0, {}, &c.S.trailer, "trailer" }); list_groups(c.S.trailer, 1, 0, path, "trailer", out);
	for (size_t mi = 0; mi < c.S.msgs.size(); ++mi) {
		out.push_back({ 2, (int)mi, {}, &c.S.msgs[mi].members, c.S.msgs[mi].name }); list_groups(c.S.msgs[mi].members, 2, (int)mi, path, c.S.msgs[mi].name, out);
	}
}
struct Live { std::unique_ptr<Message> msg; std::vector<std::unique_ptr<MessageBase>> elems; MessageBase *mb = nullptr; };
static bool make_live(const Ctx& c, const Cont& k, Live& L)
{
	L.msg.reset(c.ctx->create_msg(c.S.msgs[k.mi].msgtype.c_str()));
	if (!L.msg) return false;
	MessageBase *mb = k.kind == 0 ? L.msg->Header() : k.kind == 1 ? L.msg->Trailer() : L.msg.get();
	GroupBase *parent = nullptr;
	for (int g : k.path) {
		GroupBase *gb = mb->find_add_group((unsigned short)g, parent);
		if (!gb) return false;
		L.elems.emplace_back(gb->create_group(true));
		mb = L.elems.back().get(); parent = gb;
	}
	L.mb = mb; return true;
}
struct MemberInfo { bool group, mandatory; int order; };
struct TraitStats { long long misses = 0, nontrivial = 0; std::vector<char> near; };	// near[tag] = tag-1, tag or tag+1 is a member
static void case_trait(const Ctx& c, const Cont& k, MessageBase *mb, const std::map<int, MemberInfo>& mem, std::map<int, unsigned>& pos_seen, unsigned tag, const std::string& id, TraitStats& ts)
{
	const FieldTraits& fp = mb->get_fp();
	auto mi = mem.find((int)tag); const bool want = mi != mem.end();
	const unsigned short t = (unsigned short)tag;
	if (!want && !g_verbose) {	// the common case, kept free of allocations: a non-member that every lookup reports as absent
		const Presence& pr0 = fp.get_presence(); Presence::const_iterator h0 = pr0.end(); bool a0 = true;
		if (!fp.has(t) && !fp.has(t, h0) && pr0.find(t) == pr0.end() && pr0.find(FieldTrait(t)) == pr0.end() && (const_cast<Presence&>(pr0).find(t, a0), !a0)
			&& !fp.getPos(t) && !fp.is_group(t) && !fp.is_mandatory(t) && !fp.is_present(t) && !fp.getComp(t) && !const_cast<FieldTraits&>(fp).getval(t) && !fp.get(t, FieldTrait::position)) {
			++ts.misses; if (ts.near[tag]) ++ts.nontrivial;
			return;
		}
	}
	Rep r { c, id, { "schema:" + c.schema, "table:traits", std::string("container:") + (k.path.empty() ? (k.kind == 0 ? "header" : k.kind == 1 ? "trailer" : "message") : "group"), want ? "key:member" : "key:not_member" } };
	const std::string what = k.desc + " tag " + std::to_string(tag);
	const Presence& pr = fp.get_presence();
	const bool has = fp.has(t);
	Presence::const_iterator hint = pr.end(); const bool has2 = fp.has(t, hint);
	Presence::const_iterator f = pr.find(t);
	Presence::const_iterator f2 = pr.find(FieldTrait(t));
	bool ans = !want; Presence::iterator f3 = const_cast<Presence&>(pr).find(t, ans);
	if (g_verbose) fprintf(stderr, "  %s: has=%d has(hint)=%d find=%s find(answer)=%d getPos=%u is_group=%d is_mandatory=%d   [oracle: %s]\n", what.c_str(), has, has2, f != pr.end() ? "hit" : "end", ans,
		fp.getPos(t), fp.is_group(t), fp.is_mandatory(t), want ? (std::string("member") + (mi->second.group ? " group" : "") + (mi->second.mandatory ? " mandatory" : "")).c_str() : "not a member");
	if (has != want) r.fail("traits-hit-iff-member", has ? "hit-for-non-member" : "miss-for-member", std::string("has ") + (has ? "true" : "false"), want ? "true" : "false", what);
	if (has2 != want) r.fail("traits-hit-iff-member", has2 ? "hit-for-non-member" : "miss-for-member", std::string("has(hint) ") + (has2 ? "true" : "false"), want ? "true" : "false", what);
	if ((f != pr.end()) != want || (f2 != pr.end()) != want) r.fail("traits-hit-iff-member", want ? "miss-for-member" : "hit-for-non-member", "find " + std::string(f != pr.end() ? "hit" : "end"), want ? "hit" : "end", what);
	if (ans != want) r.fail("traits-hit-iff-member", ans ? "hit-for-non-member" : "miss-for-member", std::string("find(key, answer) ") + (ans ? "true" : "false"), want ? "true" : "false", what);
	if (!r.failed && want) {
		const MemberInfo& m = mi->second; const sm::FieldDef& fd = c.S.fields.at((int)tag);
		const bool special = k.path.empty() && ((k.kind == 0 && (tag == 8 || tag == 9 || tag == 35)) || (k.kind == 1 && tag == 10));	// f8c clears their mandatory flag on purpose
		if (f->_fnum != tag || f2 != f || f3 != f || hint != f) r.fail("traits-return-that-entry", "entry-of-other-tag", "find gave the entry of tag " + std::to_string(f->_fnum), std::to_string(tag), what);
		if (!r.failed) {
			if (m.group && type_class(f->_ftype) == 0) {	// f8c types every group count as int, whatever the schema calls it (FIX44: NUMINGROUP, one STRING)
				if ((int)f->_ftype != model_ftype(fd.type)) ++RR->counters[c.schema + ":trait:group-count-typed-int(schema says " + fd.type + ")"];
			} else if (type_class(f->_ftype) != model_class(fd)) r.fail("traits-return-that-entry", "entry-type-class-differs", std::to_string((int)f->_ftype), std::to_string(model_class(fd)) + " (" + fd.type + ")", what);
			else if ((int)f->_ftype != model_ftype(fd.type)) ++RR->counters[c.schema + ":trait:member-type-coarser-than-schema(" + fd.type + " as " + std::to_string((int)f->_ftype) + ")"];
		}
		if (!r.failed && fp.is_group(t) != m.group) r.fail("traits-return-that-entry", "group-flag-differs", fp.is_group(t) ? "group" : "not a group", m.group ? "group" : "not a group", what);
		if (!r.failed && !special && fp.is_mandatory(t) != m.mandatory) r.fail("traits-return-that-entry", "mandatory-flag-differs", fp.is_mandatory(t) ? "mandatory" : "optional", m.mandatory ? "mandatory" : "optional", what);
		if (!r.failed && fp.getPos(t) == 0) r.fail("traits-return-that-entry", "member-without-position", "getPos 0", "the member's position", what);
		if (!r.failed) pos_seen[m.order] = fp.getPos(t);
	} else if (!r.failed) {
		if (fp.getPos(t) || fp.is_group(t) || fp.is_mandatory(t) || fp.is_present(t) || fp.getComp(t) || const_cast<FieldTraits&>(fp).getval(t) || fp.get(t, FieldTrait::position))
			r.fail("traits-hit-iff-member", "attribute-for-non-member", "getPos " + std::to_string(fp.getPos(t)) + " is_group " + std::to_string(fp.is_group(t)) + " is_mandatory " + std::to_string(fp.is_mandatory(t)) + " getComp " + std::to_string(fp.getComp(t)), "0 / false", what);
	}
	if (want || r.failed) RR->outcome(c.schema + ":trait:" + (want ? "member" : "non-member") + (r.failed ? ":VIOLATED" : ""));
	else ++ts.misses;
	if (ts.near[tag]) ++ts.nontrivial;
}
static void trait_stats_init(TraitStats& ts, const std::map<int, MemberInfo>& mem)
{ ts.near.assign(65537, 0); for (auto& kv : mem) for (int d = -1; d <= 1; ++d) if (kv.first + d >= 0 && kv.first + d <= 65535) ts.near[kv.first + d] = 1; }
static std::map<int, MemberInfo> member_map(const std::vector<sm::Member>& ms)
{ std::map<int, MemberInfo> m; int o = 0; for (auto& x : ms) { if (!m.count(x.tag)) m[x.tag] = { x.group, x.mandatory, o }; ++o; } return m; }

// ------------------------------------------------------------------------------------------------ driver
static void load_ctx(Ctx& c, const std::string& schema)
{
	const std::string bdir = std::string(getenv("VERIF_BUILD") ? getenv("VERIF_BUILD") : "build/main") + "/gen/";
	c.schema = schema; c.ctx = schema == "utest" ? &UTEST::ctx() : &F44::ctx();
	sm::load_schema(c.S, bdir + schema + ".model");
	collect_used(c.S.header, c.used); collect_used(c.S.trailer, c.used); for (auto& m : c.S.msgs) collect_used(m.members, c.used);
	for (auto& m : c.S.msgs) { c.by_type[m.msgtype] = &m; c.by_name[m.name] = &m; }
	for (auto& kv : c.S.fields) c.fnum_by_name[kv.second.name] = kv.first;
}
static std::vector<unsigned> big_keys(const Ctx& c)
{
	std::set<unsigned> k { 65536u, 65537u, 0x7fffffffu, 0x80000000u, 0xffffffffu, 0xffff0000u, 131072u };
	for (auto& kv : c.S.fields) { k.insert(65536u + (unsigned)kv.first); k.insert(0x80000000u | (unsigned)kv.first); }
	return std::vector<unsigned>(k.begin(), k.end());
}
static std::vector<std::string> msgtype_keys(const Ctx& c)
{
	std::set<char> al { 'A', 'a', '0', 'z', '~', ' ' }; for (auto& m : c.S.msgs) for (char ch : m.msgtype) al.insert(ch);
	std::string alpha(al.begin(), al.end()); std::set<std::string> out { "" };
	for (auto& m : c.S.msgs) near(m.msgtype, alpha, out);
	near("header", "Hxr ", out); near("trailer", "Txr ", out);
	for (auto& m : c.S.msgs) out.insert(m.name);	// a long name is not a msgtype
	// every string of up to 2 printable characters (the msgtypes of both schemas are that short), every 3-character string over the msgtype alphabet
	for (int a = 0x20; a < 0x7f; ++a) { out.insert(std::string(1, (char)a)); for (int b = 0x20; b < 0x7f; ++b) out.insert(std::string(1, (char)a) + (char)b); }
	for (char a : alpha) for (char b : alpha) for (char d : alpha) out.insert(std::string(1, a) + b + d);
	return std::vector<std::string>(out.begin(), out.end());
}
static std::vector<std::string> fname_keys(const Ctx& c, size_t lo, size_t hi)
{
	std::set<std::string> out; size_t i = 0;
	for (auto& kv : c.fnum_by_name) { if (i >= lo && i < hi) name_keys(kv.first, out); ++i; }
	if (lo == 0) { out.insert(""); for (auto& m : c.S.msgs) out.insert(m.name); out.insert("header"); }
	return std::vector<std::string>(out.begin(), out.end());
}
static std::vector<std::string> mname_keys(const Ctx& c)
{
	std::set<std::string> out { "" };
	for (auto& m : c.S.msgs) { name_keys(m.name, out); out.insert(m.msgtype); }
	name_keys("header", out); name_keys("trailer", out);
	size_t i = 0; for (auto& kv : c.fnum_by_name) if (i++ % 7 == 0) out.insert(kv.first);	// field names are not message names
	return std::vector<std::string>(out.begin(), out.end());
}

static void run_space(vh::Run& R, const std::string& schema, unsigned long long& id)
{
	Ctx c; load_ctx(c, schema);
	const size_t NCH = 64;	// field names per unit
	if (R.single) {
		std::vector<std::string> p; { std::istringstream is(R.single_case); std::string x; while (std::getline(is, x, ':')) p.push_back(x); }
		p.resize(4); R.begin_case(R.single_case);
		if (p[1] == "tag" || p[1] == "key") case_tag(c, (unsigned)strtoul(p[2].c_str(), 0, 10), R.single_case);
		else if (p[1] == "msgtype") case_msgtype(c, vh::unhex(p[2]), R.single_case);
		else if (p[1] == "fname") case_fname(c, vh::unhex(p[2]), R.single_case);
		else if (p[1] == "mname") case_mname(c, vh::unhex(p[2]), R.single_case);
		else if (p[1] == "trait") {
			std::vector<Cont> cs; list_containers(c, cs); const Cont& k = cs.at(atoi(p[2].c_str()));
			Live L; if (!make_live(c, k, L)) { fprintf(stderr, "cannot build container %s\n", k.desc.c_str()); return; }
			auto mem = member_map(*k.members); std::map<int, unsigned> ps; TraitStats ts; trait_stats_init(ts, mem);
			unsigned lo = (unsigned)atoi(p[3].c_str()), hi = lo; size_t dash = p[3].find('-'); if (dash != std::string::npos) hi = (unsigned)atoi(p[3].c_str() + dash + 1);
			fprintf(stderr, "%s container %s (%zu members), tags %u..%u\n", c.schema.c_str(), k.desc.c_str(), mem.size(), lo, hi);
			for (unsigned tag = lo; tag <= hi && tag <= 65535; ++tag) { if (hi != lo && !ts.near[tag]) g_verbose = false; case_trait(c, k, L.mb, mem, ps, tag, R.single_case, ts); g_verbose = true; }
		}
		return;
	}
	// tags 0..65535 in units of 4096, then the keys above 65535
	for (unsigned u = 0; u < 16; ++u, ++id) {
		if (!R.mine(id) || R.out_of_time()) continue;
		for (unsigned tag = u * 4096; tag < (u + 1) * 4096; ++tag) {
			char b[64]; snprintf(b, sizeof b, "%s:tag:%u", schema.c_str(), tag);
			R.begin_case(b); case_tag(c, tag, b);
			if (tag == 54) R.sample(b, schema + " tag 54 (Side) through _be.find_ptr, find_be, create_field");
		}
	}
	if (R.mine(id)) for (unsigned key : big_keys(c)) { const std::string b = schema + ":key:" + std::to_string(key); R.begin_case(b); case_tag(c, key, b); }
	++id;
	if (R.mine(id)) for (auto& k : msgtype_keys(c)) { const std::string b = schema + ":msgtype:" + vh::hex(k); R.begin_case(b); case_msgtype(c, k, b); if (k == "d") R.sample(b, schema + " msgtype 'd' (near miss of 'D')"); }
	++id;
	for (size_t lo = 0; lo < c.fnum_by_name.size(); lo += NCH, ++id) {
		if (!R.mine(id) || R.out_of_time()) continue;
		for (auto& k : fname_keys(c, lo, lo + NCH)) { const std::string b = schema + ":fname:" + vh::hex(k); R.begin_case(b); case_fname(c, k, b); }
	}
	if (R.mine(id)) for (auto& k : mname_keys(c)) { const std::string b = schema + ":mname:" + vh::hex(k); R.begin_case(b); case_mname(c, k, b); }
	++id;
	std::vector<Cont> cs; list_containers(c, cs);
	for (size_t ci = 0; ci < cs.size(); ++ci, ++id) {
		if (!R.mine(id) || R.out_of_time()) continue;
		const Cont& k = cs[ci];
		Live L;
		if (!make_live(c, k, L)) { R.begin_case(schema + ":trait:" + std::to_string(ci) + ":0"); R.viol("traits-hit-iff-member", "container-cannot-be-built", { "schema:" + schema, "table:traits" }, schema + ":trait:" + std::to_string(ci) + ":0", "no instance", "an instance of " + k.desc, k.desc); continue; }
		++R.counters[schema + ":containers:" + (k.path.empty() ? (k.kind == 0 ? "header" : k.kind == 1 ? "trailer" : "message") : "group")];
		auto mem = member_map(*k.members); std::map<int, unsigned> pos_seen;
		const std::string pre = schema + ":trait:" + std::to_string(ci) + ":";
		// the process-death bookkeeping (begin_case) is per block of 256 tags - a block replays as a whole; a violation is reported for its own tag
		TraitStats ts; trait_stats_init(ts, mem); std::string b; b.reserve(64);
		for (unsigned t0 = 0; t0 < 65536; t0 += 256) {
			R.begin_case(pre + std::to_string(t0) + "-" + std::to_string(t0 + 255)); R.evaluations += 255;
			for (unsigned tag = t0; tag < t0 + 256; ++tag) { b = pre; b += std::to_string(tag); case_trait(c, k, L.mb, mem, pos_seen, tag, b, ts); }
		}
		R.counters[schema + ":trait:non-member-miss"] += ts.misses; R.nontrivial += ts.nontrivial;
		if (L.mb->get_fp().size() != mem.size()) R.viol("traits-hit-iff-member", "member-count-differs", { "schema:" + schema, "table:traits" }, pre + "0", "size() " + std::to_string(L.mb->get_fp().size()), std::to_string(mem.size()), k.desc);
		// the positions of the members must be distinct and in the order of the schema
		unsigned last = 0; bool ordered = true; for (auto& pv : pos_seen) { if (pv.second <= last) ordered = false; last = pv.second; }
		if (!ordered) { std::string o; for (auto& pv : pos_seen) o += std::to_string(pv.second) + " "; R.viol("traits-return-that-entry", "positions-not-in-schema-order", { "schema:" + schema, "table:traits" }, pre + "0", o.substr(0, 200), "strictly ascending in member order", k.desc); }
		if (ci == 5) R.sample(pre + std::to_string(mem.begin()->first), schema + " container " + k.desc + ", member tag " + std::to_string(mem.begin()->first));
	}
}

int main(int argc, char **argv)
{
	vh::Run R(argc, argv); RR = &R; g_verbose = R.verbose();
	GlobalLogger::set_levels(Logger::Levels(Logger::None));
	std::vector<std::string> todo; { std::istringstream is(R.args.get("spaces", "utest,fix44")); std::string x; while (std::getline(is, x, ',')) todo.push_back(x); }
	unsigned long long id = 0;
	R.traces = 0;	// part a is an enumeration of keys, not a state search: nothing to add to the trace count of part b
	if (R.single) { run_space(R, R.single_case.substr(0, R.single_case.find(':')), id); R.finish(); return R.violations ? 1 : 0; }
	for (auto& t : todo) { if (R.out_of_time()) break; run_space(R, t, id); }
	R.finish(true);
	return 0;
}
