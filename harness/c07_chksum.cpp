// C07 — Message::calc_chksum == byte sum mod 256 of exactly [offset, offset+len) (or the remainder of the
// buffer when no length is given), and no byte outside that range is read.
// Space: all (size, offset, len) with size <= maxsize, offset <= min(size,16), len in {-1} u [0,size-offset]
//        x content patterns; every case is run twice: once with the byte after the range on an inaccessible
//        page, once with the byte before the range on an inaccessible page.  For size <= 2 all contents.
// Oracle: plain unsigned char loop; SIGSEGV inside the call = out-of-range read.
#include <fix8/f8includes.hpp>
#include <csetjmp>
#include <csignal>
#include "vh.hpp"
using namespace FIX8;

static sigjmp_buf jb; static volatile sig_atomic_t armed = 0;
static void on_segv(int) { if (armed) siglongjmp(jb, 1); _exit(99); }
extern "C" const char *__asan_default_options() { return "handle_segv=0:detect_leaks=0:allow_user_segv_handler=1"; }

static char *region; static const size_t PG = 4096;

static unsigned ref_sum(const unsigned char *p, size_t n) { unsigned s = 0; for (size_t i = 0; i < n; ++i) s += p[i]; return s & 0xff; }

static void fill(unsigned char *b, size_t n, int pat, size_t hot)
{
	switch (pat) {
	case 0: memset(b, 0xff, n); break;
	case 1: memset(b, 0x80, n); break;
	case 2: memset(b, 0x7f, n); break;
	case 3: for (size_t i = 0; i < n; ++i) b[i] = (unsigned char)(i * 7 + 3); break;
	case 4: for (size_t i = 0; i < n; ++i) b[i] = (unsigned char)(255 - (i % 251)); break;
	case 5: memset(b, 0, n); if (hot < n) b[hot] = 0xff; break;
	case 6: case 7: case 8: memset(b, 0, n); for (size_t i = (size_t)(pat - 6) + hot; i < n; i += 4) b[i] = 0xff; break;	// one byte lane of the 4-byte stride all 0xff (hot = lane shift 0/1)
	}
}
static const char *patname[] = { "all-ff", "all-80", "all-7f", "ramp7", "ramp-down", "one-hot", "lane0-ff", "lane1-ff", "lane2-ff", "bytes" };

struct Case { unsigned size, off; int len; int pat; unsigned hot; int api; };	// api 0 = const char*, 1 = f8String

// returns -1 on fault, else the checksum; place: 0 = guard after the range, 1 = guard before the range
static int run_one(const Case& c, int place, const unsigned char *content)
{
	const size_t rlen = c.len == -1 ? c.size - c.off : (size_t)c.len;	// bytes the contract allows to be read
	// layout: region = [page0][page1 (data)][page2 (data)][page3]; guards are page0 / page3 made PROT_NONE
	char *start;	// address of byte `off` (first byte of the range)
	if (place == 0) start = region + 3 * PG - rlen; else start = region + PG;
	char *from = start - c.off;
	// place 0: bytes [0,off) before the range are accessible, the byte after the range is not;
	// place 1: the byte before the range is not accessible (from itself may point into the guard page), bytes after are
	memcpy(start, content + c.off, place == 0 ? rlen : c.size - c.off);
	if (place == 0 && c.off) memcpy(from, content, c.off);
	int r;
	armed = 1;
	if (sigsetjmp(jb, 1) == 0) {
		if (c.api == 0) r = (int)Message::calc_chksum(from, c.size, c.off, c.len);
		else r = -3;
	} else r = -1;
	armed = 0;
	return r;
}

int main(int argc, char **argv)
{
	vh::Run R(argc, argv);
	const unsigned maxsize = (unsigned)R.args.num("maxsize", 300);
	const unsigned hotmax = (unsigned)R.args.num("hotmax", 64);
	region = (char *)mmap(0, 4 * PG, PROT_READ | PROT_WRITE, MAP_PRIVATE | MAP_ANONYMOUS, -1, 0);
	mprotect(region, PG, PROT_NONE); mprotect(region + 3 * PG, PG, PROT_NONE);
	struct sigaction sa; memset(&sa, 0, sizeof sa); sa.sa_handler = on_segv; sigaction(SIGSEGV, &sa, 0); sigaction(SIGBUS, &sa, 0);

	const unsigned longmax = std::min<unsigned>((unsigned)R.args.num("longmax", 0), 8000);
	std::vector<unsigned char> content(std::max(maxsize, longmax) + 16);
	std::set<std::string> distinct;
	auto judge = [&](const Case& c, const unsigned char *content, const std::string& id) {
		const size_t rlen = c.len == -1 ? c.size - c.off : (size_t)c.len;
		const unsigned want = ref_sum(content + c.off, rlen);
		for (int place = 0; place < 2; ++place) {
			int got = run_one(c, place, content);
			if (got == -2) continue;
			std::vector<std::string> tags;
			if (c.off > 0 && c.len == -1) tags.push_back("offset_gt0_len_default");
			if (got == -1) {
				R.outcome("fault");
				R.viol("reads-only-range", place == 0 ? "read-past-end" : "read-before-start", tags, id,
					"SIGSEGV", "no access outside [offset, offset+len)", "");
			} else if ((unsigned)got != want) {
				R.outcome("wrong-sum");
				R.viol("sum-mod-256", "wrong-sum", tags, id, std::to_string(got), std::to_string(want), "");
			} else R.outcome("ok");
		}
	};

	if (R.single) {
		Case c; unsigned long long bytes = 0;
		// size,off,len,pat,hot[,hexbytes]
		char hexb[64] = "";
		sscanf(R.single_case.c_str(), "%u,%u,%d,%d,%u,%63s", &c.size, &c.off, &c.len, &c.pat, &c.hot, hexb); c.api = 0;
		std::vector<unsigned char> ct(c.size + 16);
		if (c.pat == 9) { std::string b = vh::unhex(hexb); memcpy(ct.data(), b.data(), std::min<size_t>(b.size(), c.size)); }
		else fill(ct.data(), c.size, c.pat, c.hot);
		R.begin_case(R.single_case);
		judge(c, ct.data(), R.single_case);
		const size_t rlen = c.len == -1 ? c.size - c.off : (size_t)c.len;
		fprintf(stderr, "case size=%u offset=%u len=%d pattern=%s: reference=%u\n", c.size, c.off, c.len, c.pat == 9 ? "bytes" : patname[c.pat], ref_sum(ct.data() + c.off, rlen));
		R.finish(); return R.violations ? 1 : 0;
	}

	unsigned long long id = 0;
	// part 1: all contents for size <= 2 (exhaustive bytes), offsets and lens
	for (unsigned size = 0; size <= 2 && !R.out_of_time(); ++size)
		for (unsigned long long v = 0; v < (size == 0 ? 1ULL : size == 1 ? 256ULL : 65536ULL); ++v, ++id) {
			if (!R.mine(id)) continue;
			unsigned char ct[4] = { (unsigned char)(v & 0xff), (unsigned char)(v >> 8), 0, 0 };
			for (unsigned off = 0; off <= size; ++off)
				for (int len = -1; len <= (int)(size - off); ++len) {
					Case c{ size, off, len, 9, 0, 0 };
					char idb[96]; snprintf(idb, sizeof idb, "%u,%u,%d,9,0,%02x%02x", size, off, len, ct[0], ct[1]);
					R.begin_case(idb); judge(c, ct, idb);
					if (size == 2) ++R.nontrivial;
				}
		}
	// part 2: size x offset x len x pattern
	for (unsigned size = 0; size <= maxsize && !R.out_of_time(); ++size, ++id) {
		if (!R.mine(id)) continue;
		for (int pat = 0; pat < 6; ++pat) {
			const unsigned nhot = pat == 5 ? std::min(size, hotmax) : 1;
			for (unsigned hot = 0; hot < nhot; ++hot) {
				fill(content.data(), size, pat, hot);
				const unsigned offmax = std::min(size, 16u);
				for (unsigned off = 0; off <= offmax; ++off)
					for (int len = -1; len <= (int)(size - off); ++len) {
						// one-hot only needs the lens around the hot byte and the full range (keeps the product finite and small)
						if (pat == 5 && !(len == -1 || len == (int)(size - off) || (hot >= off && (len == (int)(hot - off) || len == (int)(hot - off + 1))))) continue;
						Case c{ size, off, len, pat, hot, 0 };
						char idb[96]; snprintf(idb, sizeof idb, "%u,%u,%d,%d,%u", size, off, len, pat, hot);
						R.begin_case(idb); judge(c, content.data(), idb);
						if (size >= 8) ++R.nontrivial;	// non-trivial: the strided loop runs at least once
						if (size == 300 && off == 3 && len == 290 && pat == 3) R.sample(idb, "size=300 offset=3 len=290 pattern=ramp7");
						if (size == 8 && off == 0 && len == -1 && pat == 0) R.sample(idb, "size=8 offset=0 len=default pattern=all-ff");
					}
			}
		}
	}
	// part 3: long buffers (the carry bookkeeping of the strided loop is flushed every 256 bytes: a counter that is not flushed
	// in time overflows only after more than a thousand bytes of 0xff in one byte lane)
	for (unsigned size = maxsize + 1; size <= longmax && !R.out_of_time(); ++size, ++id) {
		if (!R.mine(id)) continue;
		for (int pat : { 0, 6, 7, 8, 3 }) for (unsigned hot = 0; hot < (pat >= 6 ? 2u : 1u); ++hot) {
			fill(content.data(), size, pat, hot);
			for (unsigned off = 0; off <= 3; ++off) for (int len : { -1, (int)(size - off), (int)(size - off) - 1 }) {
				Case c{ size, off, len, pat, hot, 0 };
				char idb[96]; snprintf(idb, sizeof idb, "%u,%u,%d,%d,%u", size, off, len, pat, hot);
				R.begin_case(idb); judge(c, content.data(), idb); ++R.nontrivial;
			}
		}
	}
	R.finish(true);
	return 0;
}
