// one translation unit for the generated FIX44 code
#include "fix44_types.cpp"
#include "fix44_traits.cpp"
#include "fix44_classes.cpp"
