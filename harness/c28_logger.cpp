// c28_logger — C28: loggers write every accepted line exactly once, in order (schedule search on the real Logger).
// A Logger subclass whose stream is a string stream; k producer threads submit lines (one at a disabled level); the
// main thread calls stop() either after joining the producers or while they run.  All schedules up to a preemption bound.
#include <fix8/f8includes.hpp>
#include <pthread.h>
#include "sched/explore.hpp"
using namespace FIX8;

// The stream behaves like the file stream of FileLogger: what is inserted sits in a buffer and reaches the device only when the
// buffer is flushed or full.  "Written" means: reached the device (a line still in the buffer when stop() returns is not in the file).
struct DevBuf : std::streambuf {
	char buf[4096]; std::string dev;
	DevBuf() { setp(buf, buf + sizeof buf); }
	void drain() { dev.append(pbase(), pptr() - pbase()); setp(buf, buf + sizeof buf); }
	int_type overflow(int_type c) override { drain(); if (c != traits_type::eof()) { *pptr() = (char)c; pbump(1); } return 0; }
	int sync() override { drain(); return 0; }
};
struct CapLogger : Logger {
	DevBuf db; std::ostream os;
	CapLogger() : Logger(LogFlags() << sequence, Levels(bitsum(Info, Error))), os(&db) {}
	std::ostream& get_stream() const override { return const_cast<std::ostream&>(os); }
};

static int K = 2, LINES = 2, MODE = 0;	// MODE 0: stop after join; 1: stop while producers run
static CapLogger *lg;
struct Sub { std::string text; int level; bool ret; long end_seq; };
static std::vector<std::vector<Sub>> subs;
static long gseq = 0;

static void *producer(void *a)
{
	long id = (long)a;
	for (int k = 0; k < LINES; ++k) {
		VS_BOOKKEEPING_BEGIN();
		Sub& s = subs[id][k];
		s.text = "P" + std::to_string(id) + "L" + std::to_string(k);
		s.level = (id == 0 && k == LINES - 1 && LINES > 1) ? Logger::Debug : (k % 2 ? Logger::Error : Logger::Info);	// one line at a disabled level
		const std::string text = s.text; const Logger::Level lvl = (Logger::Level)s.level;
		VS_BOOKKEEPING_END();
		const bool ret = lg->send(text, lvl);
		VS_BOOKKEEPING_BEGIN(); s.ret = ret; s.end_seq = ++gseq; VS_BOOKKEEPING_END();
	}
	return 0;
}

static std::string body()
{
	lg = new CapLogger; gseq = 0;
	subs.assign(K, std::vector<Sub>(LINES));
	pthread_t pt[8];
	for (long i = 0; i < K; ++i) pthread_create(&pt[i], 0, producer, (void *)i);
	if (MODE == 0) for (int i = 0; i < K; ++i) pthread_join(pt[i], 0);
	const long stop_called = ++gseq;
	lg->stop();
	const std::string at_stop = lg->db.dev;
	if (MODE == 1) for (int i = 0; i < K; ++i) pthread_join(pt[i], 0);
	const std::string later = lg->db.dev;
	// ---- oracle
	std::vector<std::string> lines; { std::istringstream is(at_stop); std::string l; while (std::getline(is, l)) lines.push_back(l); }
	std::string verdict;
	std::map<std::string, int> count; std::vector<std::string> texts; std::vector<long> seqs;
	for (auto& l : lines) {	// "0000001 text"
		size_t sp = l.find(' '); std::string t = sp == std::string::npos ? l : l.substr(sp + 1); texts.push_back(t); ++count[t]; seqs.push_back(atol(l.c_str()));
	}
	for (size_t i = 0; i < seqs.size() && verdict.empty(); ++i) if (seqs[i] != (long)i + 1) verdict = "consecutive-sequence-numbers|line " + std::to_string(i + 1) + " carries sequence " + std::to_string(seqs[i]);
	for (int p = 0; p < K && verdict.empty(); ++p) {
		long lastpos = -1;
		for (int k = 0; k < LINES && verdict.empty(); ++k) {
			const Sub& s = subs[p][k]; const bool enabled = s.level != Logger::Debug;
			const int c = count.count(s.text) ? count[s.text] : 0;
			if (!enabled) { if (c) verdict = "disabled-level-never-appears|" + s.text + " (Debug) was written"; continue; }
			if (c > 1) { verdict = "written-exactly-once|" + s.text + " written " + std::to_string(c) + " times"; break; }
			if (!s.ret) { verdict = "submit-reports-success-when-accepted|send(" + s.text + ") returned false" + (c ? " although the line was written" : ""); break; }
			if (s.end_seq < stop_called && c != 1) { verdict = "submitted-before-stop-is-written|" + s.text + " was submitted before stop() and is missing when stop() returned"; break; }
			if (c == 1) { long pos = std::find(texts.begin(), texts.end(), s.text) - texts.begin(); if (pos < lastpos) { verdict = "producer-order|" + s.text + " written before an earlier line of the same producer"; break; } lastpos = pos; }
		}
	}
	if (verdict.empty() && later != at_stop) verdict = "stop-returns-after-writing|the stream changed after stop() returned";
	std::string out; for (auto& t : texts) out += t + ",";
	delete lg;
	return (verdict.empty() ? "OK|" : "BAD|" + verdict + "|") + out;
}

int main(int argc, char **argv)
{
	vh::Run R(argc, argv);
	GlobalLogger::set_levels(Logger::Levels(Logger::None));
	K = (int)R.args.num("k", 2); LINES = (int)R.args.num("lines", 2); const int bound = (int)R.args.num("bound", 2);
	std::set<std::string> distinct;
	auto judge = [&](const sx::Exec& x, const std::string& id) {
		std::vector<std::string> tags { id.substr(0, id.find(';')) };
		if (x.end != "OK") { R.outcome(x.end); R.viol(x.end.compare(0, 5, "CRASH") == 0 ? "memory-safe-and-total" : "stop-returns", "schedule-ends:" + x.end.substr(0, x.end.find(':')), tags, id, x.end + " " + x.err.substr(0, 400), "stop() returns after all accepted lines are written"); return; }
		size_t a = x.outcome.find('|');
		if (x.outcome.substr(0, a) != "OK") { size_t b = x.outcome.find('|', a + 1), c = x.outcome.find('|', b + 1); R.outcome("bad:" + x.outcome.substr(a + 1, b - a - 1)); R.viol(x.outcome.substr(a + 1, b - a - 1), "logger-oracle-failed", tags, id, x.outcome.substr(b + 1, c - b - 1), "every accepted line once, in order"); return; }
		distinct.insert(x.outcome); R.outcome("ok");
		if (R.samples_emitted < 2 && x.preemptions() >= 1) R.sample(id, "stream order: " + x.outcome.substr(a + 1));
	};
	if (R.single) {
		size_t sc = R.single_case.find(';'); std::string cfg = R.single_case.substr(0, sc); sscanf(cfg.c_str(), "k%dl%dm%d", &K, &LINES, &MODE);
		R.begin_case(R.single_case); sx::Exec x = sx::run_once(body, sx::parse_choices(R.single_case.substr(sc + 1))); judge(x, R.single_case);
		fprintf(stderr, "schedule %s: end=%s outcome=%s points=%zu preemptions=%d\n%s", R.single_case.c_str(), x.end.c_str(), x.outcome.c_str(), x.pts.size(), x.preemptions(), x.err.substr(0, 1500).c_str());
		R.finish(); return R.violations ? 1 : 0;
	}
	sx::Stats S;
	for (MODE = 0; MODE < 2 && !S.capped; ++MODE) {
		const std::string cfg = "k" + std::to_string(K) + "l" + std::to_string(LINES) + "m" + std::to_string(MODE);
		sx::explore(R, cfg, body, judge, bound, S);
	}
	R.counters["bound_completed"] = S.bound_completed; R.counters["max_points"] = S.maxpts; R.counters["distinct_outcomes"] = (long long)distinct.size();
	R.traces = S.execs;
	R.finish(!S.capped);
	return 0;
}
