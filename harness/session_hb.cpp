// session_hb — C22: heartbeat and test-request supervision (history search over virtual timelines).
// Real Session + Connection in the coroutine process model: inbound bytes go through the real FIXReader (which stamps
// the receive time), outbound through the real FIXWriter/send_process (which stamps the send time); the supervision
// tick is Session::heartbeat_service() called by the driver, as the session timer would once a second.
#include <fix8/f8includes.hpp>
#include "utest_types.hpp"
#include "utest_router.hpp"
#include "utest_classes.hpp"
#include "sim/world.hpp"
#include "explore/bfs.hpp"
using namespace FIX8;
using namespace sim;

static vh::Run *RR;

struct Model {
	unsigned H; bool acceptor; bool reneg = false;	// reneg: the acceptor is configured with another interval (3H+1) than the one the Logon asks for (H)
	std::vector<int> deltas;
	enum { E_IN_HB, E_IN_TR_X, E_IN_APP, E_SEND, E_IN_TR_TEST, E_IN_AHEAD, E_TICK0 };
	Model(unsigned h, int role) : H(h), acceptor(role >= 1), reneg(role == 2)
	{
		int t = (int)(H + H / 5);
		for (int d : { 1, (int)H - 1, (int)H, t, t + 1 }) if (d >= 1 && std::find(deltas.begin(), deltas.end(), d) == deltas.end()) deltas.push_back(d);
	}
	int nevents() const { return E_TICK0 + (int)deltas.size(); }
	std::string evname(int e) const
	{
		switch (e) { case E_IN_HB: return "in-hb"; case E_IN_TR_X: return "in-testreq(X)"; case E_IN_APP: return "in-app"; case E_SEND: return "send"; case E_IN_TR_TEST: return "in-testreq(TEST)"; case E_IN_AHEAD: return "in-app-ahead"; }
		return "wait" + std::to_string(deltas[e - E_TICK0]) + "s+tick";
	}
	std::string cfgname() const { return std::string(reneg ? "accneg" : acceptor ? "acc" : "ini") + "-H" + std::to_string(H); }

	bfs::Step run(const bfs::Hist& h, bool verbose)
	{
		bfs::Step st;
		WorldCfg wc; wc.acceptor = acceptor; wc.pk = P_NONE; wc.hb = reneg ? 3 * H + 1 : H; wc.pm = pm_coro; if (!acceptor) { wc.us = "CLI"; wc.them = "SRV"; }
		World w(wc);
		sim::vnow_ns = 1700000000LL * 1000000000LL;
		w.connect();
		auto feed_wire = [&](const std::string& raw) { w.sock->feed(raw); w.conn->reader_execute(); };
		feed_wire(w.inbound("A", 1, std::string("98=0") + SOH + "108=" + std::to_string(H) + SOH));
		w.take_out();
		// reference supervisor
		long long last_sent = sim::now_s(), recv_base = sim::now_s(); bool pending = false, traffic_since_tr = false;
		std::string clause, mode, detail; int idn = 0;
		for (size_t i = 0; i < h.size(); ++i) {
			int ev = h[i]; const bool last = i + 1 == h.size();
			if (w.ses->is_shutdown()) { st.enabled = false; break; }
			const long e = w.ses->nr();
			if (verbose) fprintf(stderr, "  event %zu: %s   t=%lld idle_send=%lld idle_recv=%lld pending=%d state=%s\n", i, evname(ev).c_str(), sim::now_s() - 1700000000LL, sim::now_s() - last_sent, sim::now_s() - recv_base, pending,
				Session::get_session_state_string((States::SessionStates)w.ses->st()).c_str());
			bool exp_hb = false, exp_tr = false, exp_lo = false, exp_either = false, exp_hb_id = false; std::string want_id; bool is_tick = false;
			switch (ev) {
			case E_IN_HB: feed_wire(w.inbound("0", e, "")); recv_base = sim::now_s(); pending = false; traffic_since_tr = false; break;
			case E_IN_TR_X: case E_IN_TR_TEST: want_id = ev == E_IN_TR_X ? "X" : "TEST"; feed_wire(w.inbound("1", e, "112=" + want_id + SOH)); recv_base = sim::now_s(); exp_hb_id = true; if (pending) traffic_since_tr = true; break;
			case E_IN_APP: feed_wire(w.inbound("D", e, World::nos_body("A" + std::to_string(i)))); recv_base = sim::now_s(); if (pending) traffic_since_tr = true; break;
			// an application message two numbers ahead: the session asks for a resend and waits for it (state resend_request_sent);
			// supervision must go on in that state as in any other
			case E_IN_AHEAD: feed_wire(w.inbound("D", e + 2, World::nos_body("G" + std::to_string(i)))); recv_base = sim::now_s(); if (pending) traffic_since_tr = true; break;
			case E_SEND: w.ses->send(World::nos("S" + std::to_string(++idn))); break;
			default: {
				is_tick = true;
				sim::advance_s(deltas[ev - E_TICK0]);
				const long long now = sim::now_s();
				exp_hb = now - last_sent >= (long long)H;
				// The TestRequest is "unanswered for the same period" when nothing at all arrived since it was sent: Logout.  When other
				// traffic (but no answering Heartbeat) arrived in between and the line then went quiet again, the property does not say
				// whether the old TestRequest still counts: a new TestRequest and a Logout are both accepted, silence is not.
				if (5 * (now - recv_base) > 6 * (long long)H) { if (pending && !traffic_since_tr) exp_lo = true; else if (pending) exp_either = true; else exp_tr = true; }
				w.ses->tick();
				break; }
			}
			auto out = w.take_out();
			bool got_hb = false, got_tr = false, got_lo = false, got_hb_id = false; std::string got_id;
			for (auto& m : out) {
				if (verbose) fprintf(stderr, "    OUT %s\n", vh::show(m).c_str());
				std::string t = tagval(m, 35);
				if (t == "0") { if (hastag(m, 112)) { got_hb_id = true; got_id = tagval(m, 112); } else got_hb = true; }
				if (t == "1") got_tr = true;
				if (t == "5") got_lo = true;
			}
			if (!out.empty()) last_sent = sim::now_s();
			st.outcome = std::string(got_lo ? "logout" : got_tr ? "testreq" : got_hb ? "heartbeat" : got_hb_id ? "hb-reply" : "quiet");
			if (last) {
				auto V = [&](const char *c, const char *m, const std::string& d) { if (clause.empty()) { clause = c; mode = m; detail = d; } };
				if (is_tick && exp_either) {
					if (!got_tr && !got_lo) V("testrequest-when-idle-receive", "no-testrequest", "nothing received for more than 1.2 H after other traffic had followed an unanswered TestRequest: neither a TestRequest nor a Logout");
					if (got_lo && !w.ses->is_shutdown()) V("logout-when-testrequest-unanswered", "logout-without-termination", "Logout sent but the session goes on");
				} else if (is_tick) {
					if (exp_hb && !got_hb && !got_tr && !got_lo) V("heartbeat-when-idle-send", "no-heartbeat-after-H-idle", "idle_send >= H but nothing was sent");
					if (!exp_hb && got_hb) V("heartbeat-when-idle-send", "heartbeat-before-H-idle", "Heartbeat although something was sent less than H seconds ago");
					if (exp_tr && !got_tr) V("testrequest-when-idle-receive", got_lo ? "logout-instead-of-testrequest" : "no-testrequest", "nothing received for more than 1.2 H, no TestRequest pending");
					if (!exp_tr && got_tr) V("testrequest-when-idle-receive", "testrequest-too-early", "TestRequest although idle receive <= 1.2 H or one is already pending");
					if (exp_lo && !(got_lo && w.ses->is_shutdown())) V("logout-when-testrequest-unanswered", "no-logout-after-unanswered-testrequest", "TestRequest unanswered for more than 1.2 H");
					if (!exp_lo && (got_lo || w.ses->is_shutdown())) V("logout-when-testrequest-unanswered", pending ? "logout-before-testrequest-period-elapsed" : "logout-without-testrequest", "Logout/termination although the TestRequest period has not elapsed");
				} else {
					if (exp_hb_id && !(got_hb_id && got_id == want_id)) V("testrequest-answered-with-same-id", "no-heartbeat-with-testreqid", "expected Heartbeat with 112=" + want_id + ", got " + (got_hb_id ? "112=" + got_id : "none"));
					if (ev == E_IN_HB && w.ses->st() != States::st_continuous && w.ses->st() != States::st_resend_request_sent) V("heartbeat-clears-pending-testrequest", "state-not-continuous-after-heartbeat", Session::get_session_state_string((States::SessionStates)w.ses->st()));
					if (got_tr || got_lo) V("no-supervision-action-outside-tick", "unexpected-testrequest-or-logout", "");
				}
			}
			if ((exp_tr || exp_either) && got_tr) { pending = true; traffic_since_tr = false; recv_base = sim::now_s(); }
			if (exp_either) { if (!got_tr && !got_lo && !last) { st.enabled = false; break; } if (got_lo) exp_lo = true; }
			else if (exp_tr != got_tr || exp_lo != got_lo || (w.ses->is_shutdown() && !exp_lo)) { if (!last) { st.enabled = false; break; } }	// prefix already deviated
		}
		if (!st.enabled) { w.teardown(); return st; }
		if (!clause.empty()) {
			st.violated = true;
			std::string desc; for (int e : h) desc += evname(e) + " ";
			std::vector<std::string> tags { "cfg:" + cfgname(), std::string("last:") + evname(h.back()) };
			if (pending) tags.push_back("testrequest_pending");
			RR->viol(clause, mode, tags, cfgname() + ";" + bfs::hist_str(h), detail, "reference supervisor", desc);
		}
		const long long now = sim::now_s(); const long long cap = 2 * H + 3;
		st.key = cfgname() + "|st" + std::to_string(w.ses->st()) + "|sd" + std::to_string(w.ses->is_shutdown()) + "|is" + std::to_string(std::min(cap, now - last_sent)) + "|ir" + std::to_string(std::min(cap, now - recv_base))
			+ "|p" + std::to_string(pending) + std::to_string(traffic_since_tr) + "|lr" + std::to_string(std::min<long long>(cap, now - w.ses->get_last_received().secs())) + "|ls" + std::to_string(std::min<long long>(cap, now - w.ses->get_last_sent().secs()));
		w.teardown();
		return st;
	}
};

int main(int argc, char **argv)
{
	vh::Run R(argc, argv); RR = &R;
	GlobalLogger::set_levels(Logger::Levels(Logger::None));
	const int depth = (int)R.args.num("depth", 4);
	std::vector<unsigned> hs; { std::istringstream is(R.args.get("H", "2,5")); std::string x; while (std::getline(is, x, ',')) hs.push_back(atoi(x.c_str())); }
	if (R.single) {
		size_t sc = R.single_case.find(';'); std::string cn = R.single_case.substr(0, sc);
		for (unsigned H : { 1u, 2u, 3u, 5u, 7u, 10u, 30u }) for (int acc = 2; acc >= 0; --acc) { Model M(H, acc); if (M.cfgname() == cn) { R.begin_case(R.single_case); M.run(bfs::parse_hist(R.single_case.substr(sc + 1)), true); } }
		R.finish(); return R.violations ? 1 : 0;
	}
	for (unsigned H : hs) for (int acc = 2; acc >= 0; --acc) { Model M(H, acc); bfs::explore(M, R, depth, M.cfgname()); if (R.hit_deadline) break; }
	R.finish(true);
	return 0;
}
