// C04 — strict decoding accepts exactly schema-conforming messages (differential against a reference acceptor).
// Space: base messages = lattice shapes "mandatory only" (0) and "all fields" (1), value index 0, of every message
//   type of a compiled schema, written by the reference serializer mg::serialize (never by fix8's encoder); token
//   edits, one (and, for the message types listed in pairtypes=, every compatible pair) at every token position:
//     U  insert an unknown tag (9000, 0, 65535) before token p
//     A  insert tag = valid tag + 65536*k (k = 1, 2) before token p   (16-bit truncation aliasing)
//     M  insert a header tag / a body tag / a trailer tag before token p (misplaced unless p lies in its section)
//     F  insert a second 8= / 9= / 35= / 10= before token p
//     D  duplicate token i (copy directly after it, or directly before the final 10=)
//     X  delete token i (any token, mandatory or not, 8/9/35/10 included)
//     G  swap the first two fields of a group element (the element then starts with its second member)
//     C  corrupt CheckSum: +1, -1 (mod 256), "000"
//     N  replace the text of a numeric field (group counts and Lengths excepted) by 007, -5, 5.0, .5, 5., +5, 5x, "5 0",
//        " 5", 0x1e.  Texts in the FIX syntax of the field's type (int: 007, and -5 for INT; float: the first five) must
//        be accepted with that value; for the others the decoder may throw, but if it returns, the decoded value must
//        be the number the text denotes (so a text that denotes no number cannot be accepted)
//     L  replace the text of a string field (first one of header, body and of a group element) by 2047 and by 2048
//        characters (FIX8_MAX_FLD_LENGTH is 2048: 2047 must be accepted; 2048 may be refused, never dropped silently)
//   BodyLength and CheckSum are recomputed by plain loops after the edit (C edits excepted).
// Oracle: fe::refaccept (engines/explore/fixedit.hpp).  Message::factory(ctx, bytes) (permissive=false,
//   no_chksum=false) must return iff refaccept accepts, otherwise throw; and when it returns, the tree read back has
//   exactly the tokens of the input (nothing dropped, added or re-tagged; numeric value = value of the text).
// args: schema=utest|fix44 nelem=<elements per group> pairtypes=<msgtype,msgtype,...> pairshapes=<n> pairmax=<max tokens of a base message for pairs> chunk=<ids per child>
#include <fix8/f8includes.hpp>
#include "utest_types.hpp"
#include "utest_router.hpp"
#include "utest_classes.hpp"
#include "fix44_types.hpp"
#include "fix44_router.hpp"
#include "fix44_classes.hpp"
#include "explore/fixedit.hpp"
#include <sys/wait.h>
using namespace FIX8;

// runs before the (slow) dynamic initialisation of the generated schema tables
// a decode that does not come back (endless loop) is ended here, so that the driver can attribute it to the case at once
static void on_alarm(int) { static const char m[] = "hang: Message::factory did not return within 20 s\n"; if (write(2, m, sizeof m - 1)) {} _exit(70); }
__attribute__((constructor(101))) static void tune_asan(int, char **argv, char **) { fe::reexec_small_quarantine(argv); }

struct Edit { char kind; int pos; long a; };
static const char *kindname(char k)
{
	switch (k) { case 'U': return "unknown_tag"; case 'A': return "alias_tag"; case 'M': return "known_tag_inserted"; case 'F': return "framing_dup";
	case 'D': return "dup"; case 'X': return "delete"; case 'G': return "group_first_swapped"; case 'C': return "chksum"; case 'N': return "numtext"; case 'L': return "long_value"; case 'B': return "dup_before"; case 'S': return "length_off_by_one"; case 'J': return "data_separator_replaced"; }
	return "none";
}
static const char *numvar[] = { "007", "-5", "5.0", ".5", "5.", "+5", "5x", "5 0", " 5", "0x1e" };
static const int NNUMVAR = 10;

struct Base {
	int mi, shape; mg::Tree tree; fe::Toks toks; fe::Verdict ref;
	std::vector<Edit> singles, pairset;
	mutable std::set<int> tags; mutable std::map<const void *, int> absent;
};

struct Harness {
	vh::Run& R; const F8MetaCntx& ctx; const sm::Schema& S; std::string schema; int nelem;

	std::string value_for(long tag, const Base& b) const
	{
		const int t = (int)(tag & 0xffff);
		if (t == 8) return S.beginstr; if (t == 9) return "5"; if (t == 35) return b.tree.msgtype; if (t == 10) return "000";
		auto f = S.fields.find(t);
		if (f == S.fields.end()) return "X";
		if (f->second.is_length()) return "1";
		return mg::value_text(f->second, 0, 0);
	}
	static bool plain_member(const sm::Schema& S, const sm::Member& m)
	{
		if (m.group || m.tag == 8 || m.tag == 9 || m.tag == 35 || m.tag == 10) return false;
		const sm::FieldDef& f = S.fields.at(m.tag);
		return !f.is_length() && f.vclass() != sm::V_DATA;
	}
	// first plain member of ms that occurs nowhere in the base message; 0 if none
	int absent_member(const Base& b, const std::vector<sm::Member>& ms) const
	{
		auto c = b.absent.find(&ms); if (c != b.absent.end()) return c->second;
		if (b.tags.empty()) for (auto& k : b.toks) b.tags.insert(atoi(k.tag.c_str()));
		int r = 0;
		for (auto& m : ms) if (plain_member(S, m) && !b.tags.count(m.tag)) { r = m.tag; break; }
		b.absent[&ms] = r; return r;
	}
	int last_top_tag(const Base& b, int sec) const
	{
		int r = 0;
		for (size_t i = 3; i + 1 < b.toks.size(); ++i) if (b.ref.ctx[i].sec == sec && b.ref.ctx[i].depth == 0 && !b.ref.ctx[i].count) {
			auto f = S.fields.find(atoi(b.toks[i].tag.c_str()));
			if (f != S.fields.end() && !f->second.is_length() && f->second.vclass() != sm::V_DATA) r = f->first;
		}
		return r;
	}
	// numeric field open to the N edits?  wf = bit mask of the variants that are in the FIX syntax of its type
	bool numeric_field(const Base& b, size_t i, unsigned& wf) const
	{
		const fe::Ctx& c = b.ref.ctx[i]; if (c.count) return false;
		const int tag = atoi(b.toks[i].tag.c_str()); if (tag == 8 || tag == 9 || tag == 35 || tag == 10) return false;
		auto f = S.fields.find(tag); if (f == S.fields.end()) return false;
		const sm::FieldDef& fd = f->second;
		const sm::Member *m = fe::find_member(*c.ms, tag); if (m && m->group) return false;
		if (fd.vclass() == sm::V_FLOAT) { wf = 0x1f; return true; }
		if (fd.vclass() == sm::V_INT) {
			if (fd.is_length()) return false;			// a Length's text says how many bytes follow: not a free number
			wf = 1 | (fd.type == "INT" ? 2 : 0);		// leading zeros: every integer type; sign: INT only (SeqNum, NumInGroup, TagNum, DayOfMonth are non-negative)
			if (fd.type != "INT") wf |= 0x100;			// marker: "-5" is outside the type's domain, not generated
			return true;
		}
		return false;
	}
	bool wellformed_variant(const Base& b, const Edit& e) const { unsigned wf = 0; return numeric_field(b, e.pos, wf) && e.a < 5 && (wf >> e.a & 1); }

	void make_edits(Base& b) const
	{
		const int n = (int)b.toks.size();
		auto& E = b.singles; auto& P = b.pairset;
		const int H = absent_member(b, S.header) ? absent_member(b, S.header) : last_top_tag(b, 0);
		const sm::MsgDef& md = S.msgs[b.mi];
		const int Bt = absent_member(b, md.members) ? absent_member(b, md.members) : last_top_tag(b, 1);
		const int T = 93;
		for (int p = 3; p <= n - 1; ++p) {
			for (long u : { 9000L, 0L, 65535L }) { E.push_back({ 'U', p, u }); if (u == 9000) P.push_back(E.back()); }
			// aliases: the tag of the previous token, and a field that is legal here but absent from the message
			std::vector<int> cand { atoi(b.toks[p - 1].tag.c_str()) };
			for (const std::vector<sm::Member> *ms : { b.ref.ctx[p - 1].ms, b.ref.ctx[p].ms }) {
				if (!ms) continue; int a = absent_member(b, *ms);
				if (a && std::find(cand.begin(), cand.end(), a) == cand.end()) cand.push_back(a);
			}
			for (int c : cand) for (long k = 1; k <= 2; ++k) { E.push_back({ 'A', p, c + 65536 * k }); if (k == 1) P.push_back(E.back()); }
			for (int c : cand) { E.push_back({ 'A', p, c + 4294967296L }); E.push_back({ 'A', p, c + 3 * 4294967296L }); }	// tags that only alias after wrapping a 32-bit accumulator
			for (int t : { H, Bt, T }) if (t) { E.push_back({ 'M', p, t }); P.push_back(E.back()); }
			for (long t : { 8L, 9L, 35L, 10L }) { E.push_back({ 'F', p, t }); if (t == 35) P.push_back(E.back()); }
		}
		for (int i = 3; i <= n - 2; ++i) { E.push_back({ 'D', i, 0 }); P.push_back(E.back()); E.push_back({ 'D', i, 1 }); }
		for (int i = 4; i <= n - 2; ++i) E.push_back({ 'B', i, 0 });
		// a Length field directly followed by its data field: the announced length one too small / one too large
		for (int i = 3; i + 1 <= n - 2; ++i) {
			auto f = S.fields.find(atoi(b.toks[i].tag.c_str())), g = S.fields.find(atoi(b.toks[i + 1].tag.c_str()));
			if (f != S.fields.end() && g != S.fields.end() && f->second.is_length() && g->second.vclass() == sm::V_DATA && b.ref.ctx[i].depth == 0)
				{ for (long d : { -1L, 1L, 99L }) E.push_back({ 'S', i, d }); if (i + 2 <= n - 2) E.push_back({ 'J', i, 0 }); }
		}
		for (int i = 0; i <= n - 1; ++i) { E.push_back({ 'X', i, 0 }); P.push_back(E.back()); }
		for (int i = 3; i + 1 <= n - 2; ++i) {
			const fe::Ctx& c = b.ref.ctx[i], &d = b.ref.ctx[i + 1];
			if (c.depth > 0 && c.first && d.depth == c.depth && !d.first && d.group == c.group) { E.push_back({ 'G', i, 0 }); P.push_back(E.back()); }
		}
		for (long c : { 1L, -1L, 0L }) { E.push_back({ 'C', n - 1, c }); if (c == 1) P.push_back(E.back()); }
		unsigned wf;
		for (int i = 3; i <= n - 2; ++i) if (numeric_field(b, i, wf)) for (int v = 0; v < NNUMVAR; ++v) {
			if (v == 1 && (wf & 0x100)) continue;
			E.push_back({ 'N', i, v }); if (v == 0 || v == 6) P.push_back(E.back());
		}
		// long values: first plain string field of the header, of the body and of a group element
		bool done[3] = { false, false, false };
		for (int i = 3; i <= n - 2; ++i) {
			const fe::Ctx& c = b.ref.ctx[i]; const int tag = atoi(b.toks[i].tag.c_str());
			auto f = S.fields.find(tag); if (f == S.fields.end() || f->second.vclass() != sm::V_STRING || f->second.realm || c.count) continue;
			const int slot = c.depth > 0 ? 2 : c.sec == 0 ? 0 : c.sec == 1 ? 1 : -1; if (slot < 0 || done[slot]) continue;
			done[slot] = true;
			E.push_back({ 'L', i, 2047 }); E.push_back({ 'L', i, 2048 }); P.push_back(E.back());
		}
	}
	static bool compatible(const Edit& a, const Edit& b)
	{
		auto touched = [](const Edit& e, int& lo, int& hi) { lo = hi = -1;
			switch (e.kind) { case 'D': case 'X': case 'N': case 'L': case 'C': case 'B': case 'S': lo = hi = e.pos; break; case 'J': lo = e.pos; hi = e.pos + 2; break; case 'G': lo = e.pos; hi = e.pos + 1; break; } };
		int al, ah, bl, bh; touched(a, al, ah); touched(b, bl, bh);
		if (al < 0 || bl < 0) return true;
		return ah < bl || bh < al;
	}

	// the edited token list; cks = checksum corruption to apply after BodyLength / CheckSum were recomputed
	fe::Toks apply(const Base& b, const std::vector<Edit>& es, std::string& wire) const
	{
		const int n = (int)b.toks.size();
		fe::Toks src = b.toks; std::vector<char> del(n, 0); std::vector<fe::Toks> ins(n + 1);
		const Edit *cks = nullptr;
		for (auto& e : es) switch (e.kind) {
			case 'U': ins[e.pos].push_back({ std::to_string(e.a), "X" }); break;
			case 'A': case 'M': case 'F': ins[e.pos].push_back({ std::to_string(e.a), value_for(e.a, b) }); break;
			case 'D': ins[e.a == 0 ? e.pos + 1 : n - 1].push_back(b.toks[e.pos]); break;
			case 'B': ins[e.pos - 1].push_back(b.toks[e.pos]); break;	// a copy of the token in front of its predecessor (96=x|95=1|96=x)
			case 'J': src[e.pos + 1].val += "X" + b.toks[e.pos + 2].tag + "=" + b.toks[e.pos + 2].val; del[e.pos + 2] = 1; break;	// the SOH that ends the data field replaced by 'X'
			case 'S': {	// Length announces one byte less / more than the data field has; 99: so many more that the value ends exactly in front of the last separator of the message
				long d = e.a;
				if (e.a == 99) { d = 0; for (int j = e.pos + 2; j < n; ++j) d += (long)b.toks[j].tag.size() + (long)b.toks[j].val.size() + 2; }
				src[e.pos].val = std::to_string(atol(b.toks[e.pos].val.c_str()) + d); break; }
			case 'X': del[e.pos] = 1; break;
			case 'G': std::swap(src[e.pos], src[e.pos + 1]); break;
			case 'N': src[e.pos].val = numvar[e.a]; break;
			case 'L': src[e.pos].val.assign((size_t)e.a, 'A'); break;
			case 'C': cks = &e; break;
		}
		fe::Toks out; out.reserve(n + es.size());
		for (int i = 0; i < n; ++i) { for (auto& t : ins[i]) out.push_back(t); if (!del[i]) out.push_back(src[i]); }
		wire = fe::assemble(out, true, true);
		if (cks && !out.empty() && out.back().tag == "10") {
			int v = atoi(out.back().val.c_str()); char bf[8];
			snprintf(bf, sizeof bf, "%03d", cks->a == 0 ? 0 : (v + (int)cks->a + 256) % 256); out.back().val = bf;
			wire = fe::assemble(out, false, false);
		}
		return out;
	}

	std::string idstr(const Base& b, const std::vector<Edit>& es) const
	{
		std::string s = schema + ":" + std::to_string(b.mi) + ":" + std::to_string(b.shape) + ":" + std::to_string(nelem) + ":";
		if (es.empty()) s += "none";
		for (size_t i = 0; i < es.size(); ++i) { if (i) s += "+"; s += es[i].kind; s += "." + std::to_string(es[i].pos) + "." + std::to_string(es[i].a); }
		return s;
	}

	// The global logger starts a thread when it is first touched.  It is touched here, i.e. only in a process that
	// runs cases: the parent of the chunked enumeration must stay single-threaded, a fork() of a process with a second
	// thread can leave the child with an allocator lock that nobody will release.
	static void quiet_logger() { static bool done = false; if (!done) { GlobalLogger::set_levels(Logger::Levels(Logger::None)); done = true; } }
	void run_case(const Base& b, const std::vector<Edit>& es)
	{
		quiet_logger();
		std::string wire; fe::Toks t = apply(b, es, wire);
		fe::Verdict v = fe::refaccept(S, t);
		const std::string id = idstr(b, es);
		std::set<std::string> tg;
		for (auto& e : es) tg.insert(std::string("edit:") + kindname(e.kind));
		tg.insert("ref:" + (v.ok ? std::string("conforming") : v.reason));
		if (!v.ok && v.reason != "missing" && v.reason != "chksum" && v.reason != "framing" && v.at < t.size()) {
			// where the offending token stands, in terms of the (conforming) neighbourhood that precedes it
			const fe::Ctx& pv = v.ctx[v.at ? v.at - 1 : 0];
			tg.insert(std::string("at:") + (pv.depth > 0 || pv.count ? "group" : pv.sec == 0 ? "header" : pv.sec == 1 ? "body" : "trailer"));
		}
		// value edits outside the sentence of the property: a numeric text that is not in the FIX syntax of the field's type, a
		// value of FIX8_MAX_FLD_LENGTH bytes or more.  Such a message may be refused; if it is accepted, nothing may be lost
		bool may_reject = false;
		// a Length whose text does not say how many bytes its data field has (outside the sentence of the property as well): the
		// decoder cannot honour both the announced length and the separator; it may refuse, if it accepts nothing may be lost or changed
		if (v.ok) for (size_t i = 3; i + 2 < t.size(); ++i) {
			auto f = S.fields.find(atoi(t[i].tag.c_str())), g = S.fields.find(atoi(t[i + 1].tag.c_str()));
			if (f != S.fields.end() && g != S.fields.end() && f->second.is_length() && g->second.vclass() == sm::V_DATA
				&& atol(t[i].val.c_str()) != (long)t[i + 1].val.size()) { may_reject = true; tg.insert("length_data_mismatch"); break; }
		}
		for (auto& e : es) {
			if (e.kind == 'N' && !wellformed_variant(b, e)) { may_reject = true; tg.insert("numtext_not_fix_syntax"); }
			if (e.kind == 'L' && e.a >= 2048) { may_reject = true; tg.insert("value_len_ge:2048"); }
		}
		std::vector<std::string> tags(tg.begin(), tg.end());
		std::string tagstr; for (auto& x : tags) tagstr += (tagstr.empty() ? "" : ",") + x;
		R.begin_case(id, tagstr);
		if (!v.ok) ++R.nontrivial;
		if (R.verbose()) fprintf(stderr, "case %s  %s(%s) shape %d\n input:  %.1200s\n reference acceptor: %s%s\n", id.c_str(), S.msgs[b.mi].name.c_str(), b.tree.msgtype.c_str(), b.shape,
			vh::show(wire).c_str(), v.ok ? "conforming" : ("NOT conforming: " + v.reason + ": ").c_str(), v.detail.c_str());
		std::unique_ptr<Message> m; std::string threw, what;
		alarm(20);
		try { m.reset(Message::factory(ctx, wire)); if (!m) threw = "null"; }
		catch (std::exception& e) { threw = fe::exname(e); what = e.what(); }
		catch (...) { threw = "non-std-exception"; }
		alarm(0);
		if (R.verbose()) fprintf(stderr, " Message::factory: %s\n", threw.empty() ? "returned a message" : ("threw " + threw + ": " + what.substr(0, 200)).c_str());
		if (!threw.empty()) {
			if (v.ok && may_reject) R.outcome("rejected value-outside-type-syntax-or-length by " + threw);
			else if (v.ok) { R.outcome("VIOL rejected-conforming:" + threw); R.viol("accepts-conforming", "rejected-conforming:" + threw, tags, id, "threw " + threw + ": " + what.substr(0, 160), "message returned (the input satisfies every condition of the property)", vh::show(wire)); }
			else R.outcome("rejected " + v.reason + " by " + threw);
			return;
		}
		mg::Tree rb = mg::readback(S, m.get());
		if (R.verbose()) fprintf(stderr, " decoded: header[%s] body[%s] trailer[%s]\n", mg::show_nodes(rb.header).c_str(), mg::show_nodes(rb.body).c_str(), mg::show_nodes(rb.trailer).c_str());
		if (!v.ok) {
			// what became of the input: compare the decoded fields with the tokens (flat multiset) for the report
			std::vector<std::pair<int, std::string>> got; mg::flatten(rb.header, got); mg::flatten(rb.body, got); mg::flatten(rb.trailer, got);
			size_t lost = 0; std::string firstlost; std::vector<char> used(got.size(), 0);
			for (size_t i = 3; i + 1 < t.size(); ++i) {
				bool f = false; for (size_t j = 0; j < got.size(); ++j) if (!used[j] && std::to_string(got[j].first) == t[i].tag && fe::val_eq(S, got[j].first, t[i].val, got[j].second)) { used[j] = 1; f = true; break; }
				if (!f) { if (!lost) firstlost = t[i].tag + "=" + vh::show(t[i].val); ++lost; }
			}
			R.outcome("VIOL accepted " + v.reason);
			R.viol("rejects-nonconforming", "accepted:" + v.reason, tags, id,
				"message returned; " + std::to_string(lost) + " of " + std::to_string(t.size() - 4) + " input tokens are not in the decoded message" + (lost ? " (first: " + firstlost + ")" : ""),
				"exception: " + v.detail, vh::show(wire));
			return;
		}
		auto d = fe::cmp_trees(S, v.tree, rb);
		if (!d.first.empty()) { R.outcome("VIOL " + d.first); R.viol("retains-every-field", d.first, tags, id, d.second, "decoded message has exactly the input's fields", vh::show(wire)); return; }
		std::string td = mg::typed_check_tree(S, m.get(), v.tree);
		if (!td.empty()) { R.outcome("VIOL typed-value-differs"); R.viol("retains-every-field", "typed-value-differs", tags, id, td, "typed value = value of the text", vh::show(wire)); return; }
		R.outcome("accepted conforming");
	}
};

int main(int argc, char **argv)
{
	vh::Run R(argc, argv);
	signal(SIGALRM, on_alarm);
	const std::string schema = R.args.get("schema", "utest");
	const F8MetaCntx& ctx = schema == "utest" ? UTEST::ctx() : F44::ctx();
	sm::Schema S; sm::load_schema(S, std::string(getenv("VERIF_BUILD") ? getenv("VERIF_BUILD") : "build/main") + "/gen/" + schema + ".model");
	for (int u : { 9000, 0, 65535 }) if (S.fields.count(u)) { fprintf(stderr, "tag %d is defined by the schema: not an unknown tag\n", u); return 3; }
	mg::Lattice L(S);
	const int nelem = (int)R.args.num("nelem", 2);
	Harness H { R, ctx, S, schema, nelem };
	std::set<std::string> pairtypes; { std::istringstream is(R.args.get("pairtypes", "")); std::string x; while (std::getline(is, x, ',')) if (!x.empty()) pairtypes.insert(x); }
	const int pairshapes = (int)R.args.num("pairshapes", 2), pairmax = (int)R.args.num("pairmax", 0);

	auto make_base = [&](int mi, int shape) {
		Base b; b.mi = mi; b.shape = shape; b.tree = L.make(S.msgs[mi], shape, 0, nelem);
		b.toks = fe::from_wire(S, mg::serialize(S, b.tree)); b.ref = fe::refaccept(S, b.toks);
		if (!b.ref.ok) { fprintf(stderr, "reference acceptor rejects the unedited base message %s shape %d: %s %s\n", S.msgs[mi].name.c_str(), shape, b.ref.reason.c_str(), b.ref.detail.c_str()); exit(3); }
		H.make_edits(b); return b;
	};
	auto parse_edits = [&](const std::string& s) {
		std::vector<Edit> es; if (s == "none") return es;
		std::istringstream is(s); std::string x;
		while (std::getline(is, x, '+')) { Edit e; char k; int p; long a; if (sscanf(x.c_str(), "%c.%d.%ld", &k, &p, &a) == 3) { e.kind = k; e.pos = p; e.a = a; es.push_back(e); } }
		return es;
	};

	if (R.single) {
		char sc[32], rest[256] = ""; int mi, shape, ne;
		if (sscanf(R.single_case.c_str(), "%31[^:]:%d:%d:%d:%255s", sc, &mi, &shape, &ne, rest) < 5) { fprintf(stderr, "bad case string\n"); return 3; }
		H.nelem = ne; Harness H2 { R, ctx, S, schema, ne };
		Base b; b.mi = mi; b.shape = shape; b.tree = L.make(S.msgs[mi], shape, 0, ne); b.toks = fe::from_wire(S, mg::serialize(S, b.tree)); b.ref = fe::refaccept(S, b.toks);
		H2.run_case(b, parse_edits(rest));
		R.finish(); return R.violations ? 1 : 0;
	}

	// enumeration, simplest first: per base message the unedited message, every single edit, then (selected types) every compatible pair
	const long long chunk = R.args.num("chunk", 0);	// ids per forked child (0 = everything in this process); bounds the memory a throwing factory() leaks
	const std::string idof = R.args.get("idof", "");	// with count=1: print the running id of this case string
	auto enumerate = [&](long long lo, long long hi, bool count_only) -> long long {
		long long id = 0;
		for (int mi = 0; mi < (int)S.msgs.size(); ++mi) for (int shape = 0; shape < 2; ++shape) {
			if (!count_only && R.out_of_time()) return -1;
			Base b = make_base(mi, shape);
			auto go = [&](std::initializer_list<Edit> il) { if (count_only && !idof.empty()) { std::vector<Edit> es(il); if (H.idstr(b, es) == idof) fprintf(stderr, "id of %s: %lld\n", idof.c_str(), id); }
				if (!count_only && id >= lo && id < hi && R.mine(id)) { std::vector<Edit> es(il); H.run_case(b, es); if (R.samples_emitted < 3 && (id % 9973) == 0) R.sample(H.idstr(b, es), S.msgs[mi].name); } ++id; };
			go({});
			for (auto& e : b.singles) go({ e });
			if (pairtypes.count(b.tree.msgtype) && shape < pairshapes && (!pairmax || (int)b.toks.size() <= pairmax)) {
				const auto& P = b.pairset;
				for (size_t i = 0; i < P.size(); ++i) {
					if (!count_only && id + (long long)P.size() >= lo && id < hi && R.out_of_time()) return -1;
					for (size_t j = i; j < P.size(); ++j) {
						if (i == j && !(P[i].kind == 'U' || P[i].kind == 'A' || P[i].kind == 'M' || P[i].kind == 'F')) continue;	// the same insert twice is a pair; the same replacement is not
						if (!Harness::compatible(P[i], P[j])) continue;
						go({ P[i], P[j] });
					}
				}
			}
		}
		return id;
	};
	if (R.args.has("count")) { fprintf(stderr, "ids: %lld\n", enumerate(0LL, 0LL, true)); return 0; }
	return fe::run_chunked(R, chunk, enumerate);
}
