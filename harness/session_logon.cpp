// session_logon — C23: logon acceptance and CompID identity (complete product; DESIGN §3 C23)
#include <fix8/f8includes.hpp>
#include "utest_types.hpp"
#include "utest_router.hpp"
#include "utest_classes.hpp"
#include "sim/world.hpp"
#include "vh.hpp"
using namespace FIX8;
using namespace sim;

int main(int argc, char **argv)
{
	vh::Run R(argc, argv);
	GlobalLogger::set_levels(Logger::Levels(Logger::None));
	std::vector<std::string> cases;
	// acceptor product: target, sender, clients, enforce, reset, hb, store
	for (int tgt = 0; tgt < 2; ++tgt) for (int snd = 0; snd < 2; ++snd) for (int cl = 0; cl < 3; ++cl) for (int enf = 1; enf >= 0; --enf)
		for (int rst = 0; rst < 3; ++rst) for (int hb = 0; hb < 2; ++hb) for (int store = 0; store < 2; ++store) for (int stn = 0; stn < 3; ++stn) {
			// stn: numbers handed to Session::start — 0 none, 1 outbound only (9), 2 both (9, 4)
			char b[64]; snprintf(b, sizeof b, "A:%d:%d:%d:%d:%d:%d:%d:%d", tgt, snd, cl, enf, rst, hb, store, stn); cases.push_back(b);
		}
	for (int t = 0; t < 2; ++t) for (int s = 0; s < 2; ++s) for (int enf = 1; enf >= 0; --enf) { char b[64]; snprintf(b, sizeof b, "I:%d:%d:%d", t, s, enf); cases.push_back(b); }
	const char *ids[] = { "A", "B" };
	for (int a = 0; a < 2; ++a) for (int b = 0; b < 2; ++b) for (int c = 0; c < 2; ++c) for (int d = 0; d < 2; ++d) { char x[64]; snprintf(x, sizeof x, "S:%d:%d:%d:%d", a, b, c, d); cases.push_back(x); }
	cases.push_back("S:self");

	auto run_case = [&](const std::string& cs) {
		R.begin_case(cs); ++R.nontrivial;
		const bool verbose = R.verbose();
		sim::vnow_ns = 1700000000LL * 1000000000LL;
		if (cs[0] == 'S') {
			if (cs == "S:self") { SessionID x(f8String("FIX.4.2"), f8String("A"), f8String("B")); bool eq = x == x, ne = x != x; if (!eq || ne) R.viol("identity-comparison", "self-comparison-wrong", {}, cs, std::string("==") + (eq ? "1" : "0") + " !=" + (ne ? "1" : "0"), "== true, != false"); else R.outcome("ok"); return; }
			int a, b, c, d; sscanf(cs.c_str(), "S:%d:%d:%d:%d", &a, &b, &c, &d);
			SessionID x(f8String("FIX.4.2"), f8String(ids[a]), f8String(ids[b])), y(f8String("FIX.4.2"), f8String(ids[c]), f8String(ids[d]));
			const bool want_eq = a == c && b == d; const bool eq = x == y, ne = x != y;
			std::vector<std::string> tags; if ((a != c) != (b != d)) tags.push_back("exactly_one_compid_differs");
			if (eq != want_eq) R.viol("identity-comparison", "equality-wrong", tags, cs, eq ? "equal" : "not equal", want_eq ? "equal" : "not equal");
			else if (ne != !want_eq) R.viol("identity-comparison", "inequality-not-negation-of-equality", tags, cs, ne ? "!= true" : "!= false", !want_eq ? "!= true" : "!= false");
			else R.outcome("ok");
			return;
		}
		if (cs[0] == 'A') {
			int tgt, snd, cl, enf, rst, hbi, store, stn = 0; sscanf(cs.c_str(), "A:%d:%d:%d:%d:%d:%d:%d:%d", &tgt, &snd, &cl, &enf, &rst, &hbi, &store, &stn);
			WorldCfg wc; if (stn >= 1) wc.start_send = 9; if (stn == 2) wc.start_recv = 4; wc.acceptor = true; wc.pk = store ? P_FILE : P_NONE; wc.enforce_compids = enf; wc.fname = "l" + std::to_string(getpid()) + ".db";
			World w(wc); w.remove_files();
			if (store) { std::unique_ptr<Persister> p(w.make_persister()); p->put(5u, 7u); }
			w.connect();
			if (cl == 1) w.ses->lp()._clients.insert({ snd == 0 ? "CLI" : "CLX", Client("client", Poco::Net::IPAddress()) });
			if (cl == 2) w.ses->lp()._clients.insert({ "SOMEONE", Client("other", Poco::Net::IPAddress()) });
			const unsigned hb = hbi ? 30 : 5;
			const bool reset = rst == 2;
			// without a reset the numbers given to start() take precedence over the recovered ones, each on its own
			const long peer_seq = reset ? 1 : stn == 2 ? 4 : (store ? 7 : 1);
			std::string body = std::string("98=0") + SOH + "108=" + std::to_string(hb) + SOH + (rst == 1 ? std::string("141=N") + SOH : rst == 2 ? std::string("141=Y") + SOH : "");
			const char *sender = snd == 0 ? "CLI" : "CLX", *target = tgt == 0 ? "SRV" : "SRX";
			std::string lg = w.inbound("A", peer_seq, body, "", sender, target);
			if (verbose) fprintf(stderr, "  IN  %s\n", vh::show(lg).c_str());
			w.feed(lg);
			auto out = w.take_out(); if (verbose) for (auto& m : out) fprintf(stderr, "  OUT %s\n", vh::show(m).c_str());
			const bool listed = cl == 0 || cl == 1;
			const bool want = (tgt == 0 || !enf) && listed;
			bool reply = false; std::string r108, r34;
			for (auto& m : out) if (tagval(m, 35) == "A") { reply = true; r108 = tagval(m, 108); r34 = tagval(m, 34); }
			const bool completed = reply && !w.ses->is_shutdown() && w.ses->st() == States::st_continuous;
			std::vector<std::string> tags { enf ? "enforce:on" : "enforce:off", tgt ? "target:other" : "target:own", cl == 0 ? "clients:none" : cl == 1 ? "clients:has-sender" : "clients:other-only", reset ? "reset:Y" : "reset:no", store ? "store:ctl57" : "store:none", stn == 0 ? "start:none" : stn == 1 ? "start:send9" : "start:send9recv4" };
			if (completed != want) { R.outcome("accept-wrong"); R.viol("logon-completes-iff-allowed", completed ? "accepted-but-must-refuse" : "refused-but-must-accept", tags, cs, completed ? "logon completed" : "logon refused", want ? "completes" : "refused"); w.teardown(); w.remove_files(); return; }
			if (want) {
				if (r108 != std::to_string(hb)) { R.viol("reply-echoes-heartbtint", "heartbtint-not-echoed", tags, cs, "108=" + r108, "108=" + std::to_string(hb)); w.teardown(); w.remove_files(); return; }
				const long want34 = reset ? 1 : stn ? 9 : (store ? 5 : 1);
				if (atol(r34.c_str()) != want34) { R.viol(reset ? "reset-restarts-numbers" : "reply-number", "logon-reply-number-wrong", tags, cs, "34=" + r34, "34=" + std::to_string(want34)); w.teardown(); w.remove_files(); return; }
				if ((long)w.ses->nr() != peer_seq + 1) { R.viol(reset ? "reset-restarts-numbers" : "reply-number", "expected-inbound-wrong", tags, cs, std::to_string(w.ses->nr()), std::to_string(peer_seq + 1)); w.teardown(); w.remove_files(); return; }
				// one application message each way to observe the numbers
				// (the session's identity is now (own, sender): the application message uses the same CompIDs as the Logon)
				w.feed(w.inbound("D", peer_seq + 1, World::nos_body("X1"), "", sender, target));
				if (w.ses->rt.got.size() != 1 && !(tgt == 1)) { R.viol("usable-after-logon", "in-sequence-message-not-delivered", tags, cs, std::to_string(w.ses->rt.got.size()), "1 delivery"); w.teardown(); w.remove_files(); return; }
				w.take_out();
				if (!w.ses->is_shutdown()) {
					w.ses->send(World::nos("Y1")); auto o2 = w.take_out();
					if (o2.size() != 1 || atol(tagval(o2[0], 34).c_str()) != want34 + 1) { R.viol(reset ? "reset-restarts-numbers" : "reply-number", "next-outbound-number-wrong", tags, cs, o2.empty() ? "none" : "34=" + tagval(o2[0], 34), "34=" + std::to_string(want34 + 1)); w.teardown(); w.remove_files(); return; }
				}
				R.outcome("accepted");
			} else R.outcome("refused");
			w.teardown(); w.remove_files();
			return;
		}
		if (cs[0] == 'I') {
			int t, s, enf; sscanf(cs.c_str(), "I:%d:%d:%d", &t, &s, &enf);
			WorldCfg wc; wc.acceptor = false; wc.pk = P_NONE; wc.us = "CLI"; wc.them = "SRV"; wc.enforce_compids = enf;
			World w(wc); w.connect(); w.take_out();
			// reply from (sender = T or T', target = S or S')
			std::string lg = w.inbound("A", 1, std::string("98=0") + SOH + "108=30" + SOH, "", t == 0 ? "SRV" : "SRX", s == 0 ? "CLI" : "CLX");
			if (verbose) fprintf(stderr, "  IN  %s\n", vh::show(lg).c_str());
			w.feed(lg);
			const bool mirrored = t == 0 && s == 0;
			const bool ended = w.ses->is_shutdown();
			std::vector<std::string> tags { enf ? "enforce:on" : "enforce:off" }; if ((t != 0) != (s != 0)) tags.push_back("exactly_one_compid_differs");
			const bool want_end = !mirrored && enf;
			if (ended != want_end) R.viol("initiator-detects-compid-mismatch", ended ? "mirrored-reply-refused" : "mismatch-accepted", tags, cs, ended ? "session ended" : "session continues", want_end ? "session ended" : "session continues");
			else R.outcome(ended ? "refused" : "accepted");
			w.teardown();
			return;
		}
	};
	if (R.single) { run_case(R.single_case); R.finish(); return R.violations ? 1 : 0; }
	for (size_t i = 0; i < cases.size() && !R.out_of_time(); ++i) {
		if (!R.mine(i)) continue;
		run_case(cases[i]);
		if (i == 0 || i == 300 || i == cases.size() - 2) R.sample(cases[i], cases[i][0] == 'A' ? "acceptor: target:sender:clients:enforce:reset:hb:store:start-numbers" : "identity / initiator case");
	}
	R.transitions = R.evaluations; R.traces = R.evaluations;
	R.finish(true);
	return 0;
}
