// session_pair — C21: two fix8 sessions (initiator + acceptor, file stores) deliver every application message across
// drops and restarts.  History search (bfs.hpp) over sends on both sides, message-granular deliveries in either direction,
// connection drops (messages in flight are lost), reconnects and process restarts of either side.  Both ends are the real
// Session / Connection / FilePersister on the sim runtime; the link is two in-flight queues between the scripted sockets.
// Reconnection follows sessionwrapper.hpp: the initiator's Session object and store survive a reconnect
// (ReliableClientSession), the acceptor gets a new Session and a re-initialised store per connection (SessionInstance);
// a process restart destroys everything on that side and reopens the files.
// args: depth=N cfgs=default,ignlogon
#include <fix8/f8includes.hpp>
#include "utest_types.hpp"
#include "utest_router.hpp"
#include "utest_classes.hpp"
#include "sim/world.hpp"
#include "explore/bfs.hpp"
#include <deque>
using namespace FIX8;
using namespace sim;

static vh::Run *RR;
enum Ev { E_SEND_I, E_SEND_A, E_DELIVER_IA, E_DELIVER_AI, E_DROP, E_RECONNECT, E_RESTART_I, E_RESTART_A, E_N };
static const char *EVN[] = { "sendI", "sendA", "deliverI>A", "deliverA>I", "drop", "reconnect", "restartI", "restartA" };

struct Cfg { std::string name; bool ignlogon; };

struct Side {
	World *w = nullptr; const char *tag;
	std::vector<std::string> sent;						// ids whose send() returned true, in order
	std::vector<std::pair<std::string, bool>> got;	// (id, PossDup) delivered to this side's application, in order, over all session objects
	const Ses *seen_ses = nullptr; size_t seen_n = 0;
	void harvest()	// collect what the current session object has delivered since the last look
	{
		if (!w->ses) return;
		if (w->ses != seen_ses) { seen_ses = w->ses; seen_n = 0; }
		for (; seen_n < w->ses->rt.got.size(); ++seen_n) got.emplace_back(w->ses->rt.got[seen_n], (bool)w->ses->rt.got_possdup[seen_n]);
	}
	void forget_session() { harvest(); seen_ses = nullptr; seen_n = 0; }
};

struct Model {
	Cfg cfg;
	int nevents() const { return E_N; }
	std::string evname(int e) const { return EVN[e]; }

	static std::string qkey(const std::deque<std::string>& q)
	{ std::string k; for (auto& m : q) k += tagval(m, 35) + tagval(m, 34) + (tagval(m, 43) == "Y" ? "d" : "") + (tagval(m, 35) == "4" ? ">" + tagval(m, 36) : "") + (tagval(m, 35) == "2" ? ":" + tagval(m, 7) + "-" + tagval(m, 16) : "") + ","; return k; }
	static std::string storekey(World& w)
	{
		std::string k; Persister *p = w.persist; bool own = false;
		if (!p) { p = w.make_persister(); own = true; }	// side is down: look at the files
		unsigned s = 0, r = 0; if (p->get(s, r)) k += "c" + std::to_string(s) + "." + std::to_string(r); else k += "c-";
		for (unsigned q = 1; q <= 24; ++q) { f8String v; if (p->get(q, v)) k += "," + std::to_string(q) + (tagval(v, 43) == "Y" ? "d" : "") + tagval(v, 11); }
		if (own) delete p;
		return k;
	}

	bfs::Step run(const bfs::Hist& h, bool verbose)
	{
		bfs::Step st;
		WorldCfg ci, ca;
		ci.acceptor = false; ci.pk = P_FILE; ci.us = "CLI"; ci.them = "SRV"; ci.fname = "pi" + std::to_string(getpid()) + ".db"; ci.ignore_logon_seq = cfg.ignlogon;
		ca.acceptor = true; ca.pk = P_FILE; ca.us = "SRV"; ca.them = "CLI"; ca.fname = "pa" + std::to_string(getpid()) + ".db"; ca.ignore_logon_seq = cfg.ignlogon;
		World wi(ci), wa(ca); wi.remove_files(); wa.remove_files();
		sim::vnow_ns = 1700000000LL * 1000000000LL;
		Side I, A; I.w = &wi; I.tag = "I"; A.w = &wa; A.tag = "A";
		std::deque<std::string> qIA, qAI;
		bool up = false, logon_high = false, lost_any = false;
		int ni = 0, na = 0;
		std::string fail_clause, fail_mode, fail_detail;
		auto show = [&](const char *dir, const std::string& m) { if (verbose) fprintf(stderr, "    %s %s\n", dir, vh::show(m).c_str()); };
		auto fail = [&](const std::string& c, const std::string& m, const std::string& d) { if (fail_clause.empty()) { fail_clause = c; fail_mode = m; fail_detail = d; } };
		auto alive = [&](const char *when) {
			for (Side *s : { &I, &A }) if (s->w->ses && up && s->w->ses->is_shutdown())
				fail("sessions-reestablish-without-terminating", std::string("session-ended:") + when, std::string(s->tag) + " shut down: state=" + Session::get_session_state_string((States::SessionStates)s->w->ses->st()) + " expects " + std::to_string(s->w->ses->nr()) + " next out " + std::to_string(s->w->ses->ns()));
		};
		// hand one message to a side and queue what it writes
		auto feed = [&](Side& to, std::deque<std::string>& back, const std::string& m) {
			show(to.w == &wi ? "A>I" : "I>A", m);
			sim::advance_ms(1000);
			to.w->feed(m); to.harvest();
			for (auto& x : to.w->take_out()) { if (verbose) fprintf(stderr, "        %s writes %s\n", to.tag, vh::show(x).substr(0, 150).c_str()); back.push_back(x); }
			if (verbose) fprintf(stderr, "        %s now: expects %u, next out %u, state %s%s\n", to.tag, to.w->ses->nr(), to.w->ses->ns(), Session::get_session_state_string((States::SessionStates)to.w->ses->st()).c_str(), to.w->ses->is_shutdown() ? " SHUTDOWN" : "");
		};
		auto bring_up = [&]() {
			// acceptor side listens, initiator connects and sends its Logon; the handshake itself (Logon, Logon reply) is
			// delivered at once, everything the two sides write beyond it (ResendRequests, replays) stays in flight
			wa.connect(); wa.take_out();
			wi.connect();
			auto oi = wi.take_out();
			up = true;
			// what each side expects next from the other, as its store / session says before the Logon arrives
			unsigned a_exp = 1; { unsigned ss = 0, rr = 0; if (wa.persist && wa.persist->get(ss, rr)) a_exp = rr; }
			for (auto& m : oi) {
				if (tagval(m, 35) == "A") { if (atol(tagval(m, 34).c_str()) > (long)a_exp) logon_high = true; feed(A, qAI, m); }
				else qIA.push_back(m);
			}
			// the acceptor's Logon reply, if it is at the head of the queue, completes the handshake
			if (!qAI.empty() && tagval(qAI.front(), 35) == "A") {
				std::string m = qAI.front(); qAI.pop_front();
				if (atol(tagval(m, 34).c_str()) > (long)wi.ses->nr()) logon_high = true;
				feed(I, qIA, m);
			}
			alive("logon");
		};
		auto take_down = [&](bool lose) {
			if (lose && (!qIA.empty() || !qAI.empty())) lost_any = true;
			qIA.clear(); qAI.clear();
			I.harvest(); A.harvest();
			if (wi.conn) wi.disconnect();
			if (wa.conn) { A.forget_session(); wa.disconnect(); }
			up = false;
		};
		auto send = [&](Side& s, std::deque<std::string>& q, const std::string& id) {
			sim::advance_ms(1000);
			const bool ok = s.w->ses->send(World::nos(id));
			if (ok) s.sent.push_back(id);
			for (auto& x : s.w->take_out()) { show(s.w == &wi ? "I: " : "A: ", x); q.push_back(x); }
			return ok;
		};

		bring_up();
		for (size_t i = 0; i < h.size() && fail_clause.empty(); ++i) {
			const int ev = h[i];
			if (verbose) fprintf(stderr, "  event %zu: %s   [I: out %u in %u | A: out %u in %u | I>A %zu A>I %zu | %s]\n", i, EVN[ev],
				wi.ses ? wi.ses->ns() : 0, wi.ses ? wi.ses->nr() : 0, wa.ses ? wa.ses->ns() : 0, wa.ses ? wa.ses->nr() : 0, qIA.size(), qAI.size(), up ? "up" : "down");
			switch (ev) {
			case E_SEND_I: if (!up) { st.enabled = false; break; } st.outcome = send(I, qIA, "I" + std::to_string(++ni)) ? "sent" : "refused"; break;
			case E_SEND_A: if (!up) { st.enabled = false; break; } st.outcome = send(A, qAI, "A" + std::to_string(++na)) ? "sent" : "refused"; break;
			case E_DELIVER_IA: if (!up || qIA.empty()) { st.enabled = false; break; } { std::string m = qIA.front(); qIA.pop_front(); st.outcome = "35=" + tagval(m, 35) + (tagval(m, 43) == "Y" ? "dup" : ""); feed(A, qAI, m); alive("deliver"); } break;
			case E_DELIVER_AI: if (!up || qAI.empty()) { st.enabled = false; break; } { std::string m = qAI.front(); qAI.pop_front(); st.outcome = "35=" + tagval(m, 35) + (tagval(m, 43) == "Y" ? "dup" : ""); feed(I, qIA, m); alive("deliver"); } break;
			case E_DROP: if (!up) { st.enabled = false; break; } st.outcome = (qIA.empty() && qAI.empty()) ? "idle-link" : "lost-in-flight"; take_down(true); break;
			case E_RECONNECT: if (up) { st.enabled = false; break; } bring_up(); st.outcome = logon_high ? "after-loss" : "clean"; break;
			case E_RESTART_I: st.outcome = up ? "while-up" : "while-down"; take_down(true); I.forget_session(); wi.teardown(); break;
			case E_RESTART_A: st.outcome = up ? "while-up" : "while-down"; take_down(true); wa.teardown(); break;
			}
			if (!st.enabled) break;
		}
		if (!st.enabled) { wi.teardown(); wa.teardown(); wi.remove_files(); wa.remove_files(); return st; }
		I.harvest(); A.harvest();
		// ---- canonical state (before the completion phase)
		{
			std::string k = cfg.name + (up ? "|up" : "|down");
			for (Side *s : { &I, &A }) {
				k += std::string("|") + s->tag;
				if (s->w->ses) k += "st" + std::to_string(s->w->ses->st()) + "nr" + std::to_string(s->w->ses->nr()) + "ns" + std::to_string(s->w->ses->ns()) + "sd" + std::to_string(s->w->ses->is_shutdown());
				else k += "none";
				k += "|p" + storekey(*s->w) + "|s" + std::to_string(s->sent.size()) + "|g";
				for (auto& g : s->got) k += g.first + (g.second ? "d" : "") + ",";
			}
			k += "|qIA" + qkey(qIA) + "|qAI" + qkey(qAI);
			st.key = k;
		}
		// ---- completion phase: reconnect if needed, drain, one application message each way (exposes tail gaps), drain
		if (fail_clause.empty()) {
			if (verbose) fprintf(stderr, "  completion phase\n");
			auto drain = [&]() {
				int guard = 0;
				while ((!qIA.empty() || !qAI.empty()) && fail_clause.empty() && ++guard < 600) {
					if (!qIA.empty()) { std::string m = qIA.front(); qIA.pop_front(); feed(A, qAI, m); alive("completion"); }
					if (!qAI.empty() && fail_clause.empty()) { std::string m = qAI.front(); qAI.pop_front(); feed(I, qIA, m); alive("completion"); }
				}
				if (fail_clause.empty() && (!qIA.empty() || !qAI.empty())) fail("recovery-terminates", "endless-exchange", "messages still in flight after 600 deliveries");
			};
			if (!up) bring_up();
			drain();
			if (fail_clause.empty()) { if (!send(I, qIA, "FI")) fail("send-accepted", "final-send-refused", "initiator refused a send on an established session"); }
			if (fail_clause.empty()) { if (!send(A, qAI, "FA")) fail("send-accepted", "final-send-refused", "acceptor refused a send on an established session"); }
			drain();
			I.harvest(); A.harvest();
			// every accepted application message reached the peer's application at least once; first deliveries in send order;
			// every re-delivery flagged PossDup
			auto judge = [&](Side& from, Side& to) {
				std::vector<std::string> first; std::set<std::string> seen;
				for (auto& g : to.got) {
					if (seen.insert(g.first).second) first.push_back(g.first);
					else if (!g.second) fail("redelivery-flagged-possdup", "redelivered-without-possdup", std::string(to.tag) + " received " + g.first + " again without PossDupFlag=Y");
				}
				for (auto& id : from.sent) if (!seen.count(id)) { fail("every-application-message-delivered", "message-never-delivered", std::string(from.tag) + "'s message " + id + " never reached the peer's application"); return; }
				std::vector<std::string> fs; for (auto& id : first) if (std::find(from.sent.begin(), from.sent.end(), id) != from.sent.end()) fs.push_back(id);
				if (fs != from.sent) { std::string a, b; for (auto& x : fs) a += x + " "; for (auto& x : from.sent) b += x + " "; fail("first-deliveries-in-send-order", "first-deliveries-out-of-order", std::string("first deliveries at ") + to.tag + ": " + a + "; sent: " + b); }
			};
			if (fail_clause.empty()) judge(I, A);
			if (fail_clause.empty()) judge(A, I);
		}
		if (verbose) {
			fprintf(stderr, "  end: I out %u in %u state %s | A out %u in %u state %s\n", wi.ses ? wi.ses->ns() : 0, wi.ses ? wi.ses->nr() : 0, wi.ses ? Session::get_session_state_string((States::SessionStates)wi.ses->st()).c_str() : "-",
				wa.ses ? wa.ses->ns() : 0, wa.ses ? wa.ses->nr() : 0, wa.ses ? Session::get_session_state_string((States::SessionStates)wa.ses->st()).c_str() : "-");
			for (Side *s : { &I, &A }) { std::string a, b; for (auto& x : s->sent) a += x + " "; for (auto& g : s->got) b += g.first + (g.second ? "(dup) " : " "); fprintf(stderr, "  %s sent: %s| received: %s\n", s->tag, a.c_str(), b.c_str()); }
		}
		if (!fail_clause.empty()) {
			st.violated = true;
			std::vector<std::string> tags { "cfg:" + cfg.name, cfg.ignlogon ? "ignore_logon_sequence_check:on" : "ignore_logon_sequence_check:off" };
			if (logon_high) tags.push_back("logon_above_expected");
			std::set<std::string> evs; for (int e : h) evs.insert(EVN[e]); for (auto& e : evs) tags.push_back("has:" + e);
			std::string desc; for (int e : h) desc += std::string(EVN[e]) + " ";
			RR->viol(fail_clause, fail_mode, tags, cfg.name + ";" + bfs::hist_str(h), fail_detail, "every accepted message delivered once in order, re-deliveries PossDup, no session ends", desc);
		}
		wi.teardown(); wa.teardown(); wi.remove_files(); wa.remove_files();
		return st;
	}
};

int main(int argc, char **argv)
{
	vh::Run R(argc, argv); RR = &R;
	GlobalLogger::set_levels(Logger::Levels(Logger::None));
	const int depth = (int)R.args.num("depth", 4);
	std::vector<Cfg> cfgs { { "default", false }, { "ignlogon", true } };
	const std::string want = R.args.get("cfgs", "default,ignlogon");
	if (R.single) {
		size_t sc = R.single_case.find(';'); std::string cn = R.single_case.substr(0, sc);
		for (auto& c : cfgs) if (c.name == cn) { Model M; M.cfg = c; R.begin_case(R.single_case); M.run(bfs::parse_hist(R.single_case.substr(sc + 1)), true); }
		R.finish(); return R.violations ? 1 : 0;
	}
	for (auto& c : cfgs) { if (("," + want + ",").find("," + c.name + ",") == std::string::npos) continue; Model M; M.cfg = c; bfs::explore(M, R, depth, c.name); if (R.hit_deadline) break; }
	R.finish(true);
	return 0;
}
