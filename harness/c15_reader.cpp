// c15_reader — C15: the socket reader frames the byte stream exactly (DESIGN §3 C15).
// Real Connection/FIXReader over the scripted socket.  Part "chunks": streams of valid messages, every execution with
// at most K deviations of the environment's answers to receiveBytes (short reads, early EOF), both process models.
// Part "preamble": corrupted preambles; the reader must stop with an error, hand nothing on, and stay memory safe.
#include <fix8/f8includes.hpp>
#include "utest_types.hpp"
#include "utest_router.hpp"
#include "utest_classes.hpp"
#include "sim/world.hpp"
#include "vh.hpp"
using namespace FIX8;
using namespace sim;

struct RecSes : Session {
	std::vector<std::string> handed;
	RecSes(const F8MetaCntx& c, const sender_comp_id& sci) : Session(c, sci, nullptr) {}
	bool process(const f8String& from) override { handed.push_back(from); return true; }
	bool handle_application(const unsigned, const Message *&) override { return true; }
	int st() const { return _state; }
};

struct Exec { std::vector<std::string> handed; int calls = 0; bool terminated = false; int rv = 0; bool threw = false; std::string what; };

// policy: 0 all, 1 one byte, 2 n-1 bytes, 3 half, 4 EOF now
static Exec run_stream(const std::string& stream, const std::map<int, int>& dev, ProcessModel pm, bool eof_at_end = true)
{
	Exec x;
	sim::vnow_ns = 1700000000LL * 1000000000LL;
	ScriptSock *sock = new ScriptSock; Poco::Net::StreamSocket ps(sock);
	Poco::Net::SocketAddress addr("127.0.0.1", 9999);
	RecSes ses(UTEST::ctx(), sender_comp_id("SRV"));
	ServerConnection *conn = new ServerConnection(&ps, addr, ses, 30, pm);
	ses.start(conn, false);
	sock->in = stream; sock->eof = eof_at_end;
	int calls = 0; bool forced_eof = false;
	sock->chunk = [&](size_t n, size_t avail) -> size_t {
		int i = calls++; auto it = dev.find(i); size_t m = std::min(n, avail);
		if (it == dev.end()) return m;
		switch (it->second) { case 1: return 1; case 2: return m > 1 ? m - 1 : m; case 3: return m > 1 ? m / 2 : m; case 4: forced_eof = true; return 0; }
		return m;
	};
	// EOF policy: make the socket report end of stream from that call on
	struct EofSock { };
	try {
		if (pm == pm_coro) {
			for (int guard = 0; guard < 100000 && !ses.is_shutdown(); ++guard) {
				if (forced_eof) { sock->in.resize(sock->pos); sock->eof = true; }
				if (!sock->poll(Poco::Timespan(), Poco::Net::Socket::SELECT_READ)) break;
				x.rv = conn->reader_execute();
				if (x.rv) break;
			}
		} else x.rv = conn->reader_execute();
	} catch (std::exception& e) { x.threw = true; x.what = e.what(); }
	x.handed = ses.handed; x.calls = calls; x.terminated = ses.st() == States::st_session_terminated || ses.is_shutdown();
	ses.stop(); delete conn;
	return x;
}

static std::string hb(long seq, size_t pad = 0)
{
	Hdr h; h.type = "0"; h.sender = "CLI"; h.target = "SRV"; h.seq = seq;
	return mk("FIX.4.2", h, pad ? "112=" + std::string(pad, 'x') + SOH : "");
}
static std::string nosmsg(long seq, size_t pad)
{
	Hdr h; h.type = "D"; h.sender = "CLI"; h.target = "SRV"; h.seq = seq;
	return mk("FIX.4.2", h, "11=" + std::string(pad, 'i') + SOH + "21=1" + SOH + "55=IBM" + SOH + "54=1" + SOH + "60=20231114-22:13:20.000" + SOH + "40=1" + SOH);
}
// body of exactly the largest BodyLength the reader accepts for FIX.4.2 (8192 - 13 - 7 = 8172)
static std::string maxmsg(long seq)
{
	std::string m = nosmsg(seq, 10); size_t body = atol(tagval(m, 9).c_str());
	return nosmsg(seq, 10 + (8172 - body));
}

int main(int argc, char **argv)
{
	vh::Run R(argc, argv);
	GlobalLogger::set_levels(Logger::Levels(Logger::None));
	const std::string part = R.args.get("part", "chunks");
	const int K = (int)R.args.num("k", 2);

	if (part == "chunks") {
		// streams: 1..3 messages with 1-, 2-, 3-, 4-digit BodyLength
		std::vector<std::vector<std::string>> streams;
		streams.push_back({ hb(1) });
		streams.push_back({ hb(1), nosmsg(2, 3) });
		streams.push_back({ nosmsg(1, 3), hb(2), nosmsg(3, 900) });
		streams.push_back({ hb(1, 1), maxmsg(2), hb(3) });
		{ Hdr h; h.type = "0"; h.sender = "C"; h.target = "S"; h.seq = 1; h.sendtime = ""; streams.push_back({ raw_msg("FIX.4.2", std::string("35=0") + SOH) , hb(2) }); }	// 1-digit BodyLength
		auto judge = [&](const std::vector<std::string>& msgs, const std::map<int, int>& dev, ProcessModel pm, const Exec& x, const std::string& id) {
			// expected: all messages when no EOF deviation; with an early EOF, the messages completely read before it
			bool has_eof = false; for (auto& d : dev) if (d.second == 4) has_eof = true;
			std::vector<std::string> tags { pm == pm_coro ? "pm:coro" : "pm:thread" };
			size_t ok = 0; while (ok < x.handed.size() && ok < msgs.size() && x.handed[ok] == msgs[ok]) ++ok;
			if (ok != x.handed.size()) { R.outcome("corrupt"); R.viol("frames-exactly", "handed-message-differs", tags, id, vh::show(x.handed[ok]).substr(0, 200), ok < msgs.size() ? vh::show(msgs[ok]).substr(0, 200) : "nothing more"); return; }
			if (!has_eof && x.handed.size() != msgs.size()) { R.outcome("short"); R.viol("frames-exactly", "messages-missing", tags, id, std::to_string(x.handed.size()) + " handed", std::to_string(msgs.size())); return; }
			if (x.threw) { R.outcome("threw"); R.viol("reader-total", "exception-escaped-reader", tags, id, x.what, "handled inside the reader"); return; }
			R.outcome(has_eof ? "ok-eof" : "ok");
		};
		unsigned long long id = 0;
		for (size_t si = 0; si < streams.size(); ++si) for (int pmi = 0; pmi < 2; ++pmi) {
			ProcessModel pm = pmi ? pm_thread : pm_coro;
			std::string stream; for (auto& m : streams[si]) stream += m;
			// iterative deviation bounding: 0, 1, .. K deviations
			std::function<void(std::map<int, int>&, int, int)> rec = [&](std::map<int, int>& dev, int from, int left) {
				std::string cid = std::to_string(si) + ":" + std::to_string(pmi) + ":"; for (auto& d : dev) cid += std::to_string(d.first) + "=" + std::to_string(d.second) + ",";
				++id;
				Exec x;
				if (R.mine(id) || dev.empty()) {
					if (R.mine(id)) { R.begin_case(cid); if (!dev.empty()) ++R.nontrivial; }
					x = run_stream(stream, dev, pm);
					if (R.mine(id)) judge(streams[si], dev, pm, x, cid);
				} else x = run_stream(stream, dev, pm);	// needed to know the number of calls (cheap)
				if (left == 0 || R.out_of_time()) return;
				for (auto& d : dev) if (d.second == 4) return;	// nothing after EOF
				for (int i = from; i < x.calls; ++i) for (int p = 1; p <= 4; ++p) { dev[i] = p; rec(dev, i + 1, left - 1); dev.erase(i); }
			};
			std::map<int, int> dev; rec(dev, 0, K);
			// the two extreme policies
			for (int pol = 1; pol <= 2; ++pol, ++id) {
				if (!R.mine(id)) continue;
				std::map<int, int> all; for (int i = 0; i < 40000; ++i) all[i] = pol == 1 ? 1 : 3;
				std::string cid = std::to_string(si) + ":" + std::to_string(pmi) + ":all=" + std::to_string(pol);
				R.begin_case(cid); ++R.nontrivial;
				Exec x = run_stream(stream, all, pm); judge(streams[si], std::map<int, int>(), pm, x, cid);
				if (si == 2 && pmi == 0) R.sample(cid, "stream of 3 messages, every receiveBytes answered with " + std::string(pol == 1 ? "1 byte" : "half of the request"));
			}
		}
		R.transitions = R.evaluations; R.traces = R.evaluations;
		R.finish(true); return 0;
	}

	// ---------------------------------------------------------------- preamble corruptions
	struct P { std::string name, stream; };
	std::vector<P> cases;
	const std::string good = nosmsg(1, 3);
	std::string tail; for (int q = 2; q < 40; ++q) tail += hb(q);	// plenty of valid traffic behind the bad preamble: a mis-read length finds bytes to read
	const char subs[] = { '5', SOH, '=', 'X', '\0', '9' };
	for (size_t pos = 0; pos < 16; ++pos) for (char c : subs) { if (good[pos] == c) continue; std::string s = good; s[pos] = c; cases.push_back({ "sub@" + std::to_string(pos) + "=" + vh::hex(std::string(1, c)), s + tail }); }
	auto with_pre = [&](const std::string& pre) { std::string body = good.substr(good.find(SOH, good.find(SOH) + 1) + 1); return pre + body; };
	for (const char *bs : { "FIX.4.4", "FIX.4.20", "FIX.4", "FIXT.1.1", "", "fix.4.2" }) cases.push_back({ std::string("beginstring:") + bs, with_pre(std::string("8=") + bs + SOH + "9=" + tagval(good, 9) + SOH) + tail });
	for (const char *bl : { "0", "00", "8172", "8173", "99999", "4294967297", "X5", "", "-5", "5X", "1e3", " 12" }) cases.push_back({ std::string("bodylength:") + bl, with_pre(std::string("8=FIX.4.2") + SOH + "9=" + bl + SOH) + tail });
	cases.push_back({ "first-field-not-8", std::string("9=FIX.4.2") + SOH + "9=" + tagval(good, 9) + SOH + good.substr(good.find("35=")) });
	cases.push_back({ "first-field-35", good.substr(good.find("35=")) + tail });
	for (size_t nd : { 40u, 3000u, 9000u }) cases.push_back({ "no-soh-then-digits:" + std::to_string(nd), "8=FIX.4.2X9=1" + std::string(nd, '7') + SOH + good });
	for (size_t nd : { 40u, 3000u, 9000u }) cases.push_back({ "long-bodylength-digits:" + std::to_string(nd), std::string("8=FIX.4.2") + SOH + "9=" + std::string(nd, '1') + SOH + good });
	cases.push_back({ "garbage", std::string(64, '\xff') });
	cases.push_back({ "empty-then-eof", "" });

	auto classify = [&](const std::string& s) -> std::string {	// reference reading of the preamble
		if (s.compare(0, 2, "8=") != 0) return "malformed-first-field";
		size_t a = s.find(SOH); if (a == std::string::npos) return "malformed-first-field";
		if (s.substr(2, a - 2) != "FIX.4.2") return "wrong-beginstring";
		if (s.compare(a + 1, 2, "9=") != 0) return "malformed-bodylength-field";
		size_t b = s.find(SOH, a + 1); if (b == std::string::npos) return "malformed-bodylength-field";
		std::string v = s.substr(a + 3, b - a - 3);
		if (v.empty()) return "bodylength-non-numeric";
		for (char c : v) if (!isdigit((unsigned char)c)) return "bodylength-non-numeric";
		if (v.size() > 9) return "bodylength-oversized";
		long n = atol(v.c_str()); if (n == 0) return "bodylength-zero"; if (n > 8192 - 13 - 7) return "bodylength-oversized";
		return "numeric-in-range";
	};
	for (size_t i = 0; i < cases.size() && !R.out_of_time(); ++i) for (int pmi = 0; pmi < 2; ++pmi) {
		unsigned long long id = i * 2 + pmi;
		if (R.single ? (R.single_case != std::to_string(id)) : !R.mine(id)) continue;
		const std::string cls = classify(cases[i].stream);
		std::vector<std::string> tags { pmi ? "pm:thread" : "pm:coro", "class:" + cls, "case:" + cases[i].name.substr(0, cases[i].name.find(':')) };
		std::string tagstr; for (auto& t : tags) tagstr += (tagstr.empty() ? "" : ",") + t;
		R.begin_case(std::to_string(id), tagstr, id); ++R.nontrivial;
		Exec x = run_stream(cases[i].stream, {}, pmi ? pm_thread : pm_coro);
		if (R.verbose()) fprintf(stderr, "case %s (%s): stream %s\n  handed=%zu terminated=%d rv=%d threw=%d\n", cases[i].name.c_str(), cls.c_str(), vh::show(cases[i].stream).substr(0, 160).c_str(), x.handed.size(), x.terminated, x.rv, x.threw);
		if (cls == "numeric-in-range") {
			// a numeric, in-range BodyLength cannot be told from a right one at framing level: memory safety and totality only
			if (x.threw) R.viol("reader-total", "exception-escaped-reader", tags, std::to_string(id), x.what, "handled inside the reader", cases[i].name);
			else R.outcome("not-judged-in-range-length");
			continue;
		}
		if (!x.handed.empty()) { R.outcome("handed-corrupt"); R.viol("corrupt-preamble-nothing-handed-on", "message-handed-on-after-bad-preamble", tags, std::to_string(id), vh::show(x.handed[0]).substr(0, 120), "nothing handed to the session", cases[i].name); continue; }
		if (x.threw) { R.outcome("threw"); R.viol("reader-total", "exception-escaped-reader", tags, std::to_string(id), x.what, "handled inside the reader", cases[i].name); continue; }
		if (!x.terminated && !x.rv) { R.outcome("no-error"); R.viol("corrupt-preamble-stops-with-error", "reader-did-not-stop", tags, std::to_string(id), "reader returned 0, session state " + std::to_string(0), "reader stops with an error", cases[i].name); continue; }
		R.outcome("stopped:" + cls);
		if (i == 3) R.sample(std::to_string(id), cases[i].name + " -> " + cls);
	}
	R.transitions = R.evaluations; R.traces = R.evaluations;
	R.finish(true);
	return R.single && R.violations ? 1 : 0;
}
