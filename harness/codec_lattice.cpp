// codec_lattice — C01 (round trip), C02 (well-formed wire image), C11 (clone / copy_legal / move_legal)
// over the message lattice of DESIGN §2.7, for both compiled schemas (FIX42UTEST, FIX44).
// args: prop=C01|C02|C11 schema=utest|fix44 vmax=<n value indices> orders=<n> nelems=<list e.g. 0,1,2> perm=<max fields for all permutations>
#include <fix8/f8includes.hpp>
#include "utest_types.hpp"
#include "utest_router.hpp"
#include "utest_classes.hpp"
#include "fix44_types.hpp"
#include "fix44_router.hpp"
#include "fix44_classes.hpp"
#include "explore/msggen.hpp"
#include <cxxabi.h>
using namespace FIX8;

static std::string exname(const std::exception& e)
{
	int st; char *d = abi::__cxa_demangle(typeid(e).name(), 0, 0, &st);
	std::string r = d ? d : typeid(e).name(); free(d);
	size_t p = r.rfind("::"); return p == std::string::npos ? r : r.substr(p + 2);
}
static char *bigbuf; static const size_t BIG = 4 << 20;
static std::string encode_big(const Message *m)
{
	char *p = bigbuf; size_t n = m->encode(&p); return std::string(p, n);
}
// first difference between two wire images, token-wise, for a readable report
static std::string wire_diff(const std::string& a, const std::string& b)
{
	size_t i = 0; while (i < a.size() && i < b.size() && a[i] == b[i]) ++i;
	size_t s = a.rfind('\x01', i ? i - 1 : 0); s = s == std::string::npos ? 0 : s + 1;
	return "first difference at byte " + std::to_string(i) + ": expected ..." + vh::show(a.substr(s, 60)) + " got ..." + vh::show(b.substr(std::min(s, b.size()), 60));
}
// scope tags of a tree (vocabulary for known findings)
static void tree_tags(const sm::Schema& s, const mg::NodeList& nl, std::set<std::string>& tags, int depth)
{
	for (auto& n : nl) {
		const sm::FieldDef& f = s.fields.at(n.tag);
		if (f.vclass() == sm::V_INT && !n.text.empty() && n.text[0] == '-') tags.insert("has_negative_int");
		if (f.vclass() == sm::V_FLOAT && !n.text.empty() && n.text[0] == '-') tags.insert("has_negative_float");
		if (f.is_length()) tags.insert("has_length_field");
		if (f.vclass() == sm::V_DATA) { tags.insert("has_data_field"); if (depth > 0) tags.insert("data_in_group"); }
		if (f.vclass() == sm::V_MONTHYEAR) tags.insert("has_monthyear");
		if (n.group) { tags.insert(n.elems.empty() ? "group_count_0" : "has_group"); }
		for (auto& e : n.elems) tree_tags(s, e, tags, depth + 1);
	}
}
static void unpaired_length_tags(const sm::Schema& s, const mg::NodeList& nl, std::set<std::string>& tags)
{
	for (size_t i = 0; i < nl.size(); ++i) {
		const sm::FieldDef& f = s.fields.at(nl[i].tag);
		if (f.is_length() && !(i + 1 < nl.size() && s.fields.at(nl[i + 1].tag).vclass() == sm::V_DATA)) tags.insert("has_unpaired_length");
		if (f.is_length() && i + 1 < nl.size() && s.fields.at(nl[i + 1].tag).vclass() == sm::V_DATA && nl[i + 1].tag != nl[i].tag + 1) tags.insert("pair_tag_delta_ne_1");
		for (auto& e : nl[i].elems) unpaired_length_tags(s, e, tags);
	}
}

// C11, explicit-precision variant: every float field of the message (header, body, trailer, group elements) gets a value with
// five decimals and precision 5 through the typed interface; returns how many fields were changed
static int set_float_precision(const sm::Schema& s, MessageBase *mb)
{
	int k = 0;
	for (auto& pp : mb->get_positions()) {
		BaseField *bf = pp.second; const int tag = bf->get_tag();
		auto f = s.fields.find(tag);
		if (f != s.fields.end() && f->second.vclass() == sm::V_FLOAT && !mb->find_group((unsigned short)tag)) {
			Field<fp_type, 0> *ff = reinterpret_cast<Field<fp_type, 0> *>(bf);
			ff->set(100.0 + k + 0.12345); ff->set_precision(5); ++k;
		}
		if (GroupBase *gb = mb->find_group((unsigned short)tag)) for (size_t i = 0; i < gb->size(); ++i) k += set_float_precision(s, gb->get_element(i));
	}
	return k;
}

int main(int argc, char **argv)
{
	vh::Run R(argc, argv);
	GlobalLogger::set_levels(Logger::Levels(Logger::None));
	const std::string prop = R.args.get("prop", "C01"), schema = R.args.get("schema", "utest");
	const F8MetaCntx& ctx = schema == "utest" ? UTEST::ctx() : F44::ctx();
	sm::Schema S; sm::load_schema(S, std::string(getenv("VERIF_BUILD") ? getenv("VERIF_BUILD") : "build/main") + "/gen/" + schema + ".model");
	mg::Lattice L(S);
	bigbuf = (char *)malloc(BIG);
	const int vmax = (int)R.args.num("vmax", 2 * mg::MAXALPHA), orders = (int)R.args.num("orders", 3);
	std::vector<int> nelems; { std::string ne = R.args.get("nelems", "1,2,0"); std::istringstream is(ne); std::string x; while (std::getline(is, x, ',')) nelems.push_back(atoi(x.c_str())); }
	const int permmax = (int)R.args.num("perm", 0);

	auto run_case = [&](int mi, int shape, int vi, int nelem, int order, const std::vector<int> *perm, bool fprec = false, int textlen = 0) {
		const sm::MsgDef& md = S.msgs[mi];
		mg::Tree t = L.make(md, shape, vi, nelem);
		char idb[128]; snprintf(idb, sizeof idb, "%s:%d:%d:%d:%d:%d", schema.c_str(), mi, shape, vi, nelem, order);
		std::string id = idb;
		if (perm) { id += ":p"; for (int x : *perm) id += std::to_string(x) + "."; }
		if (fprec) id += ":f";
		if (textlen) {	// length sweep: the free-text field Text(58) of the body is textlen characters long
			id += ":L" + std::to_string(textlen);
			bool found = false; for (auto& n : t.body) if (n.tag == 58) { n.text.assign((size_t)textlen, 'x'); found = true; }
			if (!found) return;
		}
		std::set<std::string> tg; tree_tags(S, t.header, tg, 0); tree_tags(S, t.body, tg, 0); tree_tags(S, t.trailer, tg, 0);
		unpaired_length_tags(S, t.header, tg); unpaired_length_tags(S, t.body, tg); unpaired_length_tags(S, t.trailer, tg);
		const std::string ref = mg::serialize(S, t);
		if (ref.size() > 8192) tg.insert("encoded_len_gt:8192");
		std::vector<std::string> tags(tg.begin(), tg.end());
		std::string tagstr; for (auto& x : tags) tagstr += (tagstr.empty() ? "" : ",") + x;
		R.begin_case(id, tagstr);
		if (mg::has_group(t.body) || mg::has_group(t.header)) ++R.nontrivial;
		if (R.verbose()) fprintf(stderr, "case %s msg=%s(%s)\n reference wire: %s\n", id.c_str(), md.name.c_str(), md.msgtype.c_str(), vh::show(ref).c_str());
		std::unique_ptr<Message> m;
		try {
			if (perm) {	// body inserted in the given permutation
				mg::Tree tp = t; mg::NodeList nb; for (int x : *perm) nb.push_back(t.body[x]); tp.body = nb;
				m.reset(mg::build(ctx, tp, 0));
			} else m.reset(mg::build(ctx, t, order));
		}
		catch (std::exception& e) { R.outcome("build-throws"); R.viol("constructible", "build-throws:" + exname(e), tags, id, e.what(), "message built through the metadata API", md.name); return; }
		if (fprec) {	// floats with explicit precision (set through the typed interface, not part of the abstract tree)
			int k = set_float_precision(S, m->Header()) + set_float_precision(S, m.get()) + set_float_precision(S, m->Trailer());
			if (!k) { --R.evaluations; return; }
			tags.push_back("float_explicit_precision");
		}
		std::string wire;
		try { wire = encode_big(m.get()); }
		catch (std::exception& e) { R.outcome("encode-throws"); R.viol("encodes", "encode-throws:" + exname(e), tags, id, e.what(), vh::show(ref), md.name); return; }
		if (R.verbose()) fprintf(stderr, " fix8 wire:      %s\n", vh::show(wire).c_str());
		if (prop == "C02") {
			auto cw = mg::check_wire(S, t, wire);
			if (!cw.first.empty()) { R.outcome(cw.first); R.viol(cw.first, "wire-violates-" + cw.first, tags, id, cw.second + " :: " + vh::show(wire), vh::show(ref), md.name); }
			else R.outcome(wire == ref ? "ok-bytewise" : "ok-float-render");
			return;
		}
		if (prop == "C01") {
			std::unique_ptr<Message> d;
			try { d.reset(Message::factory(ctx, wire)); }
			catch (std::exception& e) { R.outcome("decode-throws"); R.viol("decodes-own-encoding", "decode-throws:" + exname(e), tags, id, std::string(e.what()).substr(0, 200), "decoded message", vh::show(wire)); return; }
			if (!d) { R.viol("decodes-own-encoding", "factory-returned-null", tags, id, "null", "decoded message", vh::show(wire)); return; }
			// the tree to expect: as encoded by fix8 when C02 holds; use the abstract tree itself (ground truth)
			mg::Tree rb = mg::readback(S, d.get());
			std::string df = mg::diff_trees(S, t, rb);
			if (!df.empty()) { R.outcome("fields-differ"); R.viol("same-fields-values-groups", "decoded-tree-differs", tags, id, df, "tree equal to the one built", vh::show(wire)); return; }
			df = mg::typed_check_tree(S, d.get(), t);
			if (!df.empty()) { R.outcome("typed-differ"); R.viol("same-fields-values-groups", "decoded-typed-value-differs", tags, id, df, "typed value equals the value of the text", vh::show(wire)); return; }
			std::string wire2;
			try { wire2 = encode_big(d.get()); }
			catch (std::exception& e) { R.viol("reencode-identical", "reencode-throws:" + exname(e), tags, id, e.what(), vh::show(wire), ""); return; }
			if (wire2 != wire) { R.outcome("reencode-differs"); R.viol("reencode-identical", "reencode-differs", tags, id, wire_diff(wire, wire2), vh::show(wire), ""); return; }
			R.outcome("ok");
			return;
		}
		if (prop == "C11") {
			if (fprec && wire.find(".12345") == std::string::npos) { R.viol("encodes", "explicit-precision-not-rendered", tags, id, vh::show(wire).substr(0, 300), "float fields rendered with five decimals", md.name); return; }
			// clone
			try {
				std::unique_ptr<Message> c(m->clone());
				std::string w2 = encode_big(c.get());
				if (w2 != wire) { R.outcome("clone-differs"); R.viol("clone-encodes-same", "clone-wire-differs", tags, id, wire_diff(wire, w2), vh::show(wire), md.name); return; }
				// copy_legal into an empty deep-constructed message of the same type
				std::unique_ptr<Message> e(ctx.create_msg(t.msgtype.c_str()));
				unsigned nb = m->copy_legal(e.get()), nh = m->Header()->copy_legal(e->Header()), nt = m->Trailer()->copy_legal(e->Trailer());
				std::string w3 = encode_big(e.get());
				if (w3 != wire) { R.outcome("copy-differs"); R.viol("copy-transfers-everything", "copy-wire-differs", tags, id, wire_diff(wire, w3), vh::show(wire), md.name); return; }
				// count returned = number of fields transferred (body: every node incl. group members)
				size_t want_b = mg::count_nodes(t.body);
				if (nb != want_b) { R.outcome("copy-count"); R.viol("copy-transfers-everything", "copy-count-differs", tags, id, std::to_string(nb), std::to_string(want_b), md.name); return; }
				// source still intact after copy
				{ std::unique_ptr<Message> c2(m->clone()); std::string w5 = encode_big(c2.get()); if (w5 != wire) { R.viol("copy-transfers-everything", "copy-changed-source", tags, id, wire_diff(wire, w5), vh::show(wire), md.name); return; } }
				// move_legal: heap source, then destroy it
				Message *src = m->clone();
				std::unique_ptr<Message> tgt(ctx.create_msg(t.msgtype.c_str()));
				src->move_legal(tgt.get()); src->Header()->move_legal(tgt->Header()); src->Trailer()->move_legal(tgt->Trailer());
				delete src;
				std::string w4 = encode_big(tgt.get());
				if (w4 != wire) { R.outcome("move-differs"); R.viol("move-leaves-target-equal", "move-wire-differs", tags, id, wire_diff(wire, w4), vh::show(wire), md.name); return; }
				R.outcome("ok");
			} catch (std::exception& ex) { R.outcome("throws"); R.viol("clone-copy-move-total", "throws:" + exname(ex), tags, id, ex.what(), "no exception", md.name); }
			return;
		}
	};

	if (R.single) {
		char sc[32]; int mi, shape, vi, nelem, order; char rest[512] = "";
		sscanf(R.single_case.c_str(), "%31[^:]:%d:%d:%d:%d:%d:p%511s", sc, &mi, &shape, &vi, &nelem, &order, rest);
		std::vector<int> perm; if (rest[0]) { std::istringstream is(rest); std::string x; while (std::getline(is, x, '.')) if (!x.empty()) perm.push_back(atoi(x.c_str())); }
		const bool fp = R.single_case.size() > 2 && R.single_case.compare(R.single_case.size() - 2, 2, ":f") == 0;
		int tl = 0; { size_t lp = R.single_case.rfind(":L"); if (lp != std::string::npos) tl = atoi(R.single_case.c_str() + lp + 2); }
		run_case(mi, shape, vi, nelem, order, perm.empty() ? nullptr : &perm, fp, tl);
		R.finish(); return R.violations ? 1 : 0;
	}

	unsigned long long id = 0;
	for (int mi = 0; mi < (int)S.msgs.size() && !R.out_of_time(); ++mi) {
		const int ns = L.nshapes(S.msgs[mi]);
		for (int shape = 0; shape < ns; ++shape)
			for (int vi = 0; vi < vmax; ++vi)
				for (int nelem : nelems) {
					for (int order = 0; order < orders; ++order, ++id) {
						if (!R.mine(id)) continue;
						// nelem only matters when a group is present: skip duplicates
						if (nelem != nelems[0]) { mg::Tree t = L.make(S.msgs[mi], shape, vi, nelem); if (!mg::has_group(t.body) && !mg::has_group(t.header) && nelem != 0) continue; }
						run_case(mi, shape, vi, nelem, order, nullptr);
						if (prop == "C11" && vi == 0 && order == 0) run_case(mi, shape, vi, nelem, order, nullptr, true);
						if (id == 0 || (mi == 4 && shape == 1 && vi == 1 && order == 0)) R.sample(R.single_case.empty() ? std::string(schema) + ":" + std::to_string(mi) + ":" + std::to_string(shape) + ":" + std::to_string(vi) + ":" + std::to_string(nelem) + ":" + std::to_string(order) : "",
							S.msgs[mi].name + " " + vh::show(mg::serialize(S, L.make(S.msgs[mi], shape, vi, nelem))).substr(0, 400));
					}
				}
		// all insertion permutations of the body for small shapes (C02: order independence)
		if (permmax > 0) {
			for (int shape = 0; shape < 2; ++shape, ++id) {
				if (!R.mine(id)) continue;
				mg::Tree t = L.make(S.msgs[mi], shape, 1, 1);
				int n = (int)t.body.size(); if (n < 2 || n > permmax) continue;
				std::vector<int> perm(n); for (int i = 0; i < n; ++i) perm[i] = i;
				do { run_case(mi, shape, 1, 1, 0, &perm); } while (std::next_permutation(perm.begin(), perm.end()) && !R.out_of_time());
			}
		}
	}
	// length sweep (C01, C02): the "all members" shape of NewOrderSingle with Text(58) of every length 1..lensweep, so that the
	// encoded body takes every length across the 1-, 2-, 3- and 4-digit BodyLength thresholds
	const int lensweep = (int)R.args.num("lensweep", 0);
	if (lensweep > 0 && prop != "C11") {
		int mi = -1; for (int i = 0; i < (int)S.msgs.size(); ++i) if (S.msgs[i].msgtype == "D") mi = i;
		for (int tl = 1; mi >= 0 && tl <= lensweep && !R.out_of_time(); ++tl, ++id) { if (!R.mine(id)) continue; run_case(mi, 1, 0, 1, 0, nullptr, false, tl); }
	}
	R.finish(true);
	return 0;
}
