// C08 — numeric field text conversions are exact inverses.
//   ints  : every int32 v: itoa<int>(v) / Field<int>::print / BaseField::encode give the canonical decimal text,
//           fast_atoi<int>(text) / Field<int>(text) / set_from_raw(text) give v back.
//   floats: every lattice double v (|v| < 2^31) at every precision q = 0..9: modp_dtoa(v, q) / Field<fp_type>::print
//           is the correctly rounded decimal with at most q fraction digits; fast_atof(text) / Field<fp_type>(text)
//           is the double nearest to the decimal the text denotes.
// part=int   (variant plain for the big sweep; variant san + guard=1 for a small set so that UB is seen too)
//   space : magnitude blocks of `block` (4096) values, both signs, |v| < 2^intbits (intbits=31: all 2^32 values incl. INT_MIN);
//           for intbits < 31 additionally an edge set: 2^e+d, k*10^e+d (|d| <= edged, k <= edgek), both signs, edgeend+1
//           values at each end of the range, multiples of 65521 over the whole range (unless nostride).
//   oracle: std::to_string(v) for the text; parse(text) == v.
// part=float (variant san)
//   space : F4 specials; F1 N*10^-p and (N+1/2)*10^-p for N <= K, p = 0..9; F2 the same around W*10^p for anchor
//           integers W (|d| <= J; jtop near 2^31); F3 exact binary fractions n/2^k and W + n/2^k; each with its two
//           1-ulp neighbours and both signs; every value at every q = 0..9.  Lattice decimals are converted with glibc
//           strtod (exact).  Values are de-duplicated exactly (sharding is by value hash, so equal values meet in
//           one shard); id = 10 * (running index of generated value) + q.
//   oracle: exact binary expansion of v (glibc "%.1074f"), rounded here by inspecting the digits after position q
//           (below half / above half / exact tie -> either neighbour, or only the even one with ties=even; the histogram
//           shows which one was produced); cross-checked against glibc "%.*f".
//           parse: bit-equal to glibc strtod(text).  (A decimal with <= 9 fraction digits and integer part < 2^31 is
//           never exactly halfway between two doubles: if it is dyadic at all it has <= 40 significant bits and is
//           itself a double.  So "within half an ulp" <=> "equals the correctly rounded strtod result".)
//   Values above INT_MAX make the unchanged modp_dtoa overflow a signed int (fatal UBSan report): with guard=1 those
//   cases run in a forked worker (below).  only=top restricts the lattice to the neighbourhood of 2^31 (run in the plain
//   variant with large bounds; the san part keeps that neighbourhood small because every fatal report costs a fork).
#include <fix8/f8includes.hpp>
#include <cfloat>
#include <cmath>
#include <climits>
#include <sys/wait.h>
#include "vh.hpp"
using namespace FIX8;

#if defined(__SANITIZE_ADDRESS__)
// small quarantine: the judge allocates many short strings; a 256 MB quarantine makes every one of them touch fresh pages
extern "C" const char *__asan_default_options() { return "detect_leaks=0:quarantine_size_mb=4"; }
#endif

typedef std::vector<std::string> Tags;
static vh::Run *RP;
static bool use_guard = false, ties_even = false;

//----------------------------------------------------------------------------------------------------------------
// cheap counting of violation classes that can have 2^31 members: first 3 go through R.viol, the rest are counted
struct BulkClass { std::string key; long long deferred = 0, seen = 0; };
static BulkClass bulk[16];	// class = kind * 3 + sign class
template<typename F> static void bulk_viol(int cls, const char *clause, const char *mode, const Tags& tags, F&& details)
{
	vh::Run& R = *RP; BulkClass& b = bulk[cls];
	if (b.seen++ < 3 || R.single) {
		if (b.key.empty()) { b.key = std::string("violclass:") + clause + "|" + mode + "|"; for (auto& t : tags) b.key += t + ","; }
		std::string replay, observed, expected; details(replay, observed, expected);
		R.viol(clause, mode, tags, replay, observed, expected, "");
	} else { ++R.violations; ++b.deferred; }
}
static void bulk_flush() { for (auto& b : bulk) if (b.deferred) RP->counters[b.key] += b.deferred; }

//----------------------------------------------------------------------------------------------------------------
// Crash-prone cases (the unchanged tree has undefined behaviour on negative integer text and on doubles above INT_MAX,
// and the san variant is built with -fno-sanitize-recover) run their fix8 calls in a forked worker process: the parent
// sends a request, the worker sends one observation record per checkpoint (so what was observed before a fatal sanitizer
// report is still judged) and an end marker.  A worker that dies is reaped, the first line of its sanitizer report is
// normalised into `msg`, and the next request starts a new worker.  Forking an ASan process is expensive (~0.1 s here),
// so one worker serves many cases and the registry keeps the crash-prone sets under the sanitizers small; the full
// sets run in the plain variant.  (Catching the report in-process is not possible: libubsan calls Die() with its
// report lock held.)
static std::string death_reason(const std::string& err, int st)
{
	size_t p;	// normalise like the driver does: kind of sanitizer report, numbers replaced
	if ((p = err.find("runtime error: ")) != std::string::npos) {
		std::string m = err.substr(p + 15, err.find('\n', p) - p - 15), o2;
		for (size_t i = 0; i < m.size(); ++i) { if (isdigit((unsigned char)m[i]) || (m[i] == '-' && i + 1 < m.size() && isdigit((unsigned char)m[i + 1]))) { if (o2.empty() || o2.back() != 'N') o2 += 'N'; } else o2 += m[i]; }
		return "ubsan:" + o2.substr(0, 60);
	}
	if ((p = err.find("ERROR: AddressSanitizer: ")) != std::string::npos) { size_t e = err.find_first_of(" \n", p + 25); return "asan:" + err.substr(p + 25, e - p - 25); }
	if (WIFSIGNALED(st)) return "signal:" + std::to_string(WTERMSIG(st));
	return "exit:" + std::to_string(WIFEXITED(st) ? WEXITSTATUS(st) : -1);
}
template<typename Req, typename Obs> struct Worker {
	pid_t pid = -1; int wfd = -1, rfd = -1, efd = -1; long long forks = 0;
	struct Msg { char kind; Obs o; };	// 'R' record, 'E' end of request
	static bool read_full(int fd, void *b, size_t n) { size_t g = 0; ssize_t r; while (g < n && (r = read(fd, (char *)b + g, n - g)) > 0) g += r; return g == n; }
	// serve(req, obs&, checkpoint) runs in the worker; on_record(obs) in the parent.  false = the worker died (msg says how).
	template<typename S, typename G> bool call(const Req& rq, std::string& msg, S&& serve, G&& on_record)
	{
		if (pid < 0) {
			int a[2], b[2], c[2];
			if (pipe(a) || pipe(b) || pipe(c)) { msg = "harness:pipe-failed"; return false; }
			fflush(stdout); fflush(stderr);
			++forks;
			if ((pid = fork()) == 0) {
				close(a[1]); close(b[0]); close(c[0]); dup2(c[1], 2);
				Req r; static Msg m;
				while (read_full(a[0], &r, sizeof r)) {
					m.kind = 'R';
					serve(r, m.o, [&] { ssize_t w = write(b[1], &m, sizeof m); (void)w; });
					m.kind = 'E'; ssize_t w = write(b[1], &m, sizeof m); (void)w;
				}
				_exit(0);
			}
			close(a[0]); close(b[1]); close(c[1]); wfd = a[1]; rfd = b[0]; efd = c[0];
		}
		if (write(wfd, &rq, sizeof rq) == (ssize_t)sizeof rq) {
			static Msg in;
			while (read_full(rfd, &in, sizeof in)) { if (in.kind == 'E') return true; on_record(in.o); }
		}
		std::string err; char buf[4096]; ssize_t n;
		while ((n = read(efd, buf, sizeof buf)) > 0) if (err.size() < 65536) err.append(buf, n);
		close(wfd); close(rfd); close(efd);
		int st = 0; waitpid(pid, &st, 0); pid = -1;
		msg = death_reason(err, st);
		if (RP->verbose()) fprintf(stderr, "worker died: %s\n%s\n", msg.c_str(), err.substr(0, 3000).c_str());
		return false;
	}
	void stop() { if (pid > 0) { close(wfd); close(rfd); close(efd); int st; waitpid(pid, &st, 0); pid = -1; } }
};
static const auto no_checkpoint = [] {};

//================================================================================================================
// integers
struct IntObs {
	char t_direct[32], t_field[32], t_enc[48], t_seq[32], t_len[32];
	size_t n_direct, n_field, n_enc, n_seq, n_len;
	int p_direct, p_cstr, p_str, p_raw, p_seq, p_len;
	bool ext;
};

// stage 1: value -> text, stage 2: text -> value
template<typename CP> static void observe_int(int v, const char *ref, bool ext, IntObs& o, CP&& checkpoint)
{
	o.ext = ext;
	o.n_direct = itoa<int>(v, o.t_direct, 10);
	{	// the way the encoder uses it: value ctor, print / encode into a char buffer
		Field<int, 38> f(v);
		o.n_field = f.print(o.t_field);
		o.n_enc = static_cast<const BaseField&>(f).encode(o.t_enc); o.t_enc[o.n_enc] = 0;
	}
	if (ext) {	// the derived integer field types (SeqNum, Length) share the conversions
		Field<SeqNum, 34> s((unsigned)v); o.n_seq = s.print(o.t_seq);
		Field<Length, 9> l((unsigned)v); o.n_len = l.print(o.t_len);
	}
	checkpoint();
	o.p_direct = fast_atoi<int>(ref);
	{	// the way the decoder uses it: Inst::_make -> new T{const char *from, realm}
		Field<int, 38> g(ref, nullptr); o.p_cstr = g.get();
		Field<int, 38> h(f8String(ref), nullptr); o.p_str = h();
		Field<int, 38> k; k.set_from_raw(f8String(ref)); o.p_raw = k.get();
	}
	if (ext) {
		Field<SeqNum, 34> s2(ref, nullptr); o.p_seq = s2.get();
		Field<Length, 9> l2(ref, nullptr); o.p_len = l2.get();
	}
	checkpoint();
}

enum { IC_TEXT_DIRECT, IC_TEXT_FIELD, IC_PARSE_DIRECT, IC_PARSE_FIELD, IC_NCLS };	// x3: non-negative, negative, INT_MIN (different tags)

static void judge_int(int v, const std::string& ref, const IntObs& o, int stages, const std::string& crashmsg)
{
	vh::Run& R = *RP;
	Tags tags; if (v < 0) tags.push_back("value_negative"); if (v == INT_MIN) tags.push_back("value_int_min");
	const std::string id = "i:" + ref;
	const int sc = v == INT_MIN ? 2 : v < 0 ? 1 : 0;
	if (stages < 2) {	// the child died: before any text came back, or while parsing
		R.outcome(stages < 1 ? "int:crash-in-print" : "int:crash-in-parse");
		R.viol(stages < 1 ? "int-text-canonical" : "int-parse-inverse", crashmsg, tags, id, crashmsg, stages < 1 ? "\"" + ref + "\"" : ref, "");
		if (stages < 1) return;
	}
	bool ok = stages == 2;
	if (o.n_direct != ref.size() || memcmp(o.t_direct, ref.c_str(), ref.size() + 1)) {
		ok = false;
		bulk_viol(IC_TEXT_DIRECT * 3 + sc, "int-text-canonical", "itoa-text-differs", tags, [&](std::string& r, std::string& ob, std::string& ex)
			{ r = id; ob = "itoa -> \"" + vh::show(std::string(o.t_direct, strnlen(o.t_direct, 31))) + "\" returned length " + std::to_string(o.n_direct); ex = "\"" + ref + "\""; });
	}
	char enc[48]; int ne = snprintf(enc, sizeof enc, "38=%s\x01", ref.c_str());
	bool fbad = o.n_field != ref.size() || memcmp(o.t_field, ref.c_str(), ref.size() + 1) || o.n_enc != (size_t)ne || memcmp(o.t_enc, enc, ne);
	if (!fbad && o.ext) fbad = o.n_seq != ref.size() || memcmp(o.t_seq, ref.c_str(), ref.size() + 1) || o.n_len != ref.size() || memcmp(o.t_len, ref.c_str(), ref.size() + 1);
	if (fbad) {
		ok = false;
		bulk_viol(IC_TEXT_FIELD * 3 + sc, "int-text-canonical", "field-text-differs", tags, [&](std::string& r, std::string& ob, std::string& ex)
			{ r = id; ob = "Field<int>::print -> \"" + vh::show(std::string(o.t_field, strnlen(o.t_field, 31))) + "\", encode -> \"" + vh::show(std::string(o.t_enc, strnlen(o.t_enc, 47))) + "\"";
			  if (o.ext) ob += ", SeqNum \"" + vh::show(std::string(o.t_seq, strnlen(o.t_seq, 31))) + "\", Length \"" + vh::show(std::string(o.t_len, strnlen(o.t_len, 31))) + "\"";
			  ex = "\"" + ref + "\" and \"38=" + ref + "|\""; });
	}
	if (stages == 2 && o.p_direct != v) {
		ok = false;
		bulk_viol(IC_PARSE_DIRECT * 3 + sc, "int-parse-inverse", "fast_atoi-value-differs", tags, [&](std::string& r, std::string& ob, std::string& ex)
			{ r = id; ob = "fast_atoi<int>(\"" + ref + "\") = " + std::to_string(o.p_direct); ex = ref; });
	}
	bool pbad = stages == 2 && (o.p_cstr != v || o.p_str != v || o.p_raw != v || (o.ext && (o.p_seq != v || o.p_len != v)));
	if (pbad) {
		ok = false;
		bulk_viol(IC_PARSE_FIELD * 3 + sc, "int-parse-inverse", "field-value-differs", tags, [&](std::string& r, std::string& ob, std::string& ex)
			{ r = id; ob = "Field<int>(const char*) = " + std::to_string(o.p_cstr) + ", (f8String) = " + std::to_string(o.p_str) + ", set_from_raw = " + std::to_string(o.p_raw);
			  if (o.ext) ob += ", SeqNum = " + std::to_string(o.p_seq) + ", Length = " + std::to_string(o.p_len);
			  ex = ref; });
	}
	R.outcome(ok ? "int:ok" : "int:viol");
	if (R.verbose())
		fprintf(stderr, "int %d: oracle text \"%s\"; itoa \"%s\" (len %zu) field \"%s\" encode \"%s\"; fast_atoi %d, field ctor %d / %d, set_from_raw %d\n", v, ref.c_str(),
			o.t_direct, o.n_direct, o.t_field, vh::show(o.t_enc).c_str(), o.p_direct, o.p_cstr, o.p_str, o.p_raw);
}

struct IntReq { int v; bool ext; };
static Worker<IntReq, IntObs> int_worker;
static inline void int_case(long long vv, bool ext)
{
	const int v = (int)vv;
	const std::string ref = std::to_string(v);
	IntObs o;
	if (use_guard) {
		std::string msg; int stages = 0; memset(&o, 0, sizeof o);
		const IntReq rq = { v, ext };
		const bool alive = int_worker.call(rq, msg, [](const IntReq& r, IntObs& oo, auto&& cp) { observe_int(r.v, std::to_string(r.v).c_str(), r.ext, oo, cp); },
			[&](const IntObs& in) { o = in; ++stages; });
		judge_int(v, ref, o, alive ? 2 : std::min(stages, 1), msg);
	} else {
		observe_int(v, ref.c_str(), ext, o, no_checkpoint);
		judge_int(v, ref, o, 2, "");
	}
	if (v < 0 || v >= 10) ++RP->nontrivial;
}

static int run_int(vh::Run& R)
{
	const int intbits = (int)R.args.num("intbits", 20);
	const bool ext_all = R.args.num("extall", 0);
	const long long BL = std::max(1LL, R.args.num("block", 4096));
	if (R.single) {
		long long v = atoll(R.single_case.c_str() + 2);
		R.begin_case(R.single_case);
		int_case(v, true);
		bulk_flush(); R.finish(); return R.violations ? 1 : 0;
	}
	const long long lim = 1LL << intbits;			// magnitudes [0, lim)
	const long long nblocks = (lim + BL - 1) / BL;
	unsigned long long id = 0;
	for (long long b = 0; b < nblocks && !R.out_of_time(); ++b, ++id) {
		if (!R.mine(id)) continue;
		char rb[48]; snprintf(rb, sizeof rb, "i:%lld", b * BL);
		R.begin_case(rb); --R.evaluations;
		const bool ext = ext_all || b == 0;
		for (long long m = b * BL; m < (b + 1) * BL && m < lim; ++m) {
			int_case(m, ext); ++R.evaluations;
			if (m) { int_case(-m, ext); ++R.evaluations; }
		}
		if (b == 0) R.sample("i:-12", "block 0: all |v| < block size, both signs; e.g. v=-12: text \"-12\", parse back -12");
	}
	if (intbits >= 31) {	// the one value with magnitude 2^31
		if (R.mine(id)) { R.begin_case("i:-2147483648"); int_case(INT_MIN, true); R.sample("i:-2147483648", "INT_MIN"); }
		++id;
	} else {
		std::set<long long> edges;
		auto add = [&](long long x) { if (x >= INT_MIN && x <= INT_MAX && (x <= -lim || x >= lim)) edges.insert(x); };
		const int ED = (int)R.args.num("edged", 2), EK = (int)R.args.num("edgek", 9), EE = (int)R.args.num("edgeend", 66);
		for (int e = 0; e <= 31; ++e) for (int d = -ED; d <= ED; ++d) { add((1LL << e) + d); add(-(1LL << e) + d); }
		long long p10 = 1;
		for (int e = 0; e <= 9; ++e, p10 *= 10) for (int d = -ED; d <= ED; ++d) { add(p10 + d); add(-p10 + d); for (int k = 2; k <= EK; ++k) { add(k * p10 + d); add(-k * p10 + d); } }
		for (int d = 0; d <= EE; ++d) { add((long long)INT_MIN + d); add((long long)INT_MAX - d); }
		if (!R.args.num("nostride", 0)) for (long long x = -32775LL * 65521; x <= INT_MAX; x += 65521) add(x);
		size_t i = 0;
		for (auto it = edges.begin(); it != edges.end() && !R.out_of_time(); ++id) {
			const bool m = R.mine(id);
			for (int j = 0; j < 64 && it != edges.end(); ++j, ++it, ++i) {
				if (!m) continue;
				char rb[48]; snprintf(rb, sizeof rb, "i:%lld", *it);
				R.begin_case(rb);
				int_case(*it, true);
				if (*it == INT_MIN) R.sample(rb, "edge set: INT_MIN");
			}
		}
	}
	bulk_flush();
	int_worker.stop(); if (use_guard) R.counters["worker_processes_started"] = int_worker.forks;
	R.finish(true);
	return 0;
}

//================================================================================================================
// floats
static const double P10[] = { 1, 10, 100, 1000, 10000, 100000, 1000000, 10000000, 100000000, 1000000000 };
static inline uint64_t bits_of(double d) { uint64_t u; memcpy(&u, &d, 8); return u; }
static inline double of_bits(uint64_t u) { double d; memcpy(&d, &u, 8); return d; }
// distance in representable doubles (monotone ordinal; +0 and -0 coincide)
static inline long long ordinal(double d) { uint64_t u = bits_of(d); return (u >> 63) ? -(long long)(u & ~(1ULL << 63)) : (long long)u; }
static inline unsigned long long ulps(double a, double b) { long long x = ordinal(a), y = ordinal(b); return x > y ? (unsigned long long)(x - y) : (unsigned long long)(y - x); }

struct FltObs {
	char t_direct[96], t_field[96], t_setp[96], t_def[96], t_enc[128];
	size_t n_direct, n_field, n_setp, n_def, n_enc;
	double p_direct, p_cstr, p_str, p_raw;
	bool has_def;
	int q;
};

// stage 1: modp_dtoa, stage 2: the field layer's texts, stage 3: text -> value
template<typename CP> static void observe_flt(double v, int q, FltObs& o, CP&& checkpoint)
{
	memset(&o, 0, sizeof o);
	o.n_direct = modp_dtoa(v, o.t_direct, q);
	o.t_direct[95] = 0;
	checkpoint();
	{	// encoder side: value + precision ctor, or set_precision, then print / encode into a char buffer
		Field<fp_type, 44> f(v, q);
		o.n_field = f.print(o.t_field); o.t_field[std::min<size_t>(o.n_field, 95)] = 0;
		o.n_enc = static_cast<const BaseField&>(f).encode(o.t_enc); o.t_enc[std::min<size_t>(o.n_enc, 127)] = 0;
		Field<fp_type, 44> g(v); g.set_precision(q);
		o.n_setp = g.print(o.t_setp); o.t_setp[std::min<size_t>(o.n_setp, 95)] = 0;
		o.has_def = q == FIX8_DEFAULT_PRECISION;
		if (o.has_def) { Field<fp_type, 44> d(v); o.n_def = d.print(o.t_def); o.t_def[std::min<size_t>(o.n_def, 95)] = 0; }
	}
	checkpoint();
	// decoder side: parse the text that was produced
	o.p_direct = fast_atof(o.t_direct);
	{ Field<fp_type, 44> a(o.t_direct, nullptr); o.p_cstr = a.get(); }
	{ Field<fp_type, 44> b(f8String(o.t_direct), nullptr); o.p_str = b(); }
	{ Field<fp_type, 44> c; c.set_from_raw(f8String(o.t_direct)); o.p_raw = c.get(); }
	checkpoint();
}

// normalised number text: sign (dropped for zero), no leading zeros, no trailing fraction zeros.  out needs len+2 bytes.
static void norm(const char *s, char *out)
{
	bool neg = false; if (*s == '-') { neg = true; ++s; }
	const char *dot = strchr(s, '.'); const char *ie = dot ? dot : s + strlen(s);
	while (s + 1 < ie && *s == '0') ++s;
	const char *fe = dot ? dot + 1 + strlen(dot + 1) : ie;
	if (dot) { while (fe > dot + 1 && fe[-1] == '0') --fe; if (fe == dot + 1) fe = dot; }
	const bool zero = (ie - s == 1 && *s == '0' && (!dot || fe == dot));
	char *o = out; if (neg && !zero) *o++ = '-';
	memcpy(o, s, ie - s); o += ie - s;
	if (dot && fe > dot) { memcpy(o, dot, fe - dot); o += fe - dot; }
	*o = 0;
}
// 0 = plain decimal -?D+(.D+)?, 1 = exponent form -?D+(.D+)?e[+-]?D+, 2 = something else
static int syntax(const char *s, int& fracdigits)
{
	fracdigits = 0;
	if (*s == '-') ++s;
	const char *d0 = s; while (isdigit((unsigned char)*s)) ++s;
	if (s == d0) return 2;
	if (*s == '.') { const char *f0 = ++s; while (isdigit((unsigned char)*s)) ++s; if (s == f0) return 2; fracdigits = (int)(s - f0); }
	if (!*s) return 0;
	if (*s == 'e' || *s == 'E') {
		++s; if (*s == '+' || *s == '-') ++s;
		const char *e0 = s; while (isdigit((unsigned char)*s)) ++s;
		return s > e0 && !*s ? 1 : 2;
	}
	return 2;
}

struct Expect {		// what the exact value of v rounds to at q fraction digits
	char lo[64], hi[64];	// the two neighbours (normalised, signed); lo = truncation towards zero
	int dir;		// 0 exact (lo), -1 below half (lo), +1 above half (hi), 2 exact tie (either)
	char glibc[64];		// snprintf("%.*f") normalised
	bool self_ok;
	bool accepts(const char *n) const { return dir == 2 ? (!strcmp(n, lo) || !strcmp(n, hi)) : dir == 1 ? !strcmp(n, hi) : !strcmp(n, lo); }
	std::string show() const { return dir == 2 ? (ties_even ? std::string(glibc) + " (exact tie, to even)" : std::string(lo) + " or " + hi + " (exact tie)") : dir == 1 ? hi : lo; }
};
static char expbuf[1500];	// exact expansion of |v|, refreshed per value
static double expfor = NAN;
static void expect(double v, int q, Expect& e)
{
	const double av = fabs(v);
	if (!(expfor == av)) { snprintf(expbuf, sizeof expbuf, "%.1074f", av); expfor = av; }
	const char *dot = strchr(expbuf, '.');
	const size_t il = dot - expbuf;
	const char *rest = dot + 1 + q;
	bool restzero = true; for (const char *p = rest + 1; *p; ++p) if (*p != '0') { restzero = false; break; }
	if (*rest < '5') e.dir = (*rest == '0' && restzero) ? 0 : -1;
	else if (*rest > '5') e.dir = 1;
	else e.dir = restzero ? 2 : 1;
	// digits of the truncation as one decimal integer, and that integer + 1
	char digs[48], up[48]; memcpy(digs, expbuf, il); memcpy(digs + il, dot + 1, q); const int nd = (int)il + q; digs[nd] = 0;
	up[0] = '0'; memcpy(up + 1, digs, nd + 1);
	int i = nd; while (up[i] == '9') up[i--] = '0'; ++up[i];
	auto place = [&](const char *d, int n, char *out) {	// sign, digits with the point q from the right, normalised
		char t[64]; char *o = t; if (std::signbit(v)) *o++ = '-';
		memcpy(o, d, n - q); o += n - q; if (q) { *o++ = '.'; memcpy(o, d + n - q, q); o += q; } *o = 0;
		norm(t, out); };
	place(digs, nd, e.lo); place(up, nd + 1, e.hi);
	char g[64]; snprintf(g, sizeof g, "%.*f", q, v);
	norm(g, e.glibc);
	e.self_ok = e.accepts(e.glibc);
}

// outcome histogram kept in an array (flushed into R.outcomes at the end)
enum { O_EXACT, O_TIE, O_UP, O_DOWN, O_TEXT_OK, O_TEXT_OK_TIE, O_TEXT_OK_TIE_ODD, O_PARSE_EXACT, O_PARSE_NA, O_FIELD_TEXT_SAME, O_FIELD_PARSE_SAME, O_N };
static const char *o_name[] = { "render:exact-at-q", "render:exact-tie", "render:round-up", "render:round-down", "text:ok", "text:ok-tie-to-even", "text:ok-tie-other-neighbour", "parse:exact", "parse:not-attempted",
	"field:text-identical-to-direct", "field:parse-identical-to-direct" };
static long long o_cnt[O_N];
static void flush_outcomes() { for (int i = 0; i < O_N; ++i) if (o_cnt[i]) RP->outcome(o_name[i], o_cnt[i]); }

static void judge_flt(double v, int q, const FltObs& o, int stages, const std::string& crashmsg, const char *id)
{
	vh::Run& R = *RP;
	const double av = fabs(v);
	Expect e; expect(v, q, e);
	// scope predicates; those about the implementation's arithmetic are computed here, independently
	bool scaled_tie = false, nines = false;
	{
		const double a = av - (double)(long long)av;
		volatile double t = a * P10[q];
		const double fl = floor(t);
		scaled_tie = t - fl == 0.5 && e.dir != 2;
		nines = t - fl == 0.5 && q > 0 && fl == P10[q] - 1;
	}
	auto mktags = [&] { Tags t; if (av > 2147483647.0) t.push_back("value_gt_int32max"); if (scaled_tie) t.push_back("dtoa_scaled_product_rounds_to_tie");
		if (nines) t.push_back("frac_all_nines_before_tie"); if (e.dir == 2) t.push_back("exact_tie"); return t; };
	if (!e.self_ok) { R.outcome("oracle:self-check-failed"); R.viol("oracle-self-check", "glibc-disagrees-with-exact-expansion", mktags(), id, e.glibc, e.show(), ""); }
	++o_cnt[e.dir == 0 ? O_EXACT : e.dir == 2 ? O_TIE : e.dir == 1 ? O_UP : O_DOWN];
	if (e.dir != 0) ++R.nontrivial;
	if (stages < 3) {
		R.outcome(stages == 0 ? "text:crash-in-modp_dtoa" : stages == 1 ? "text:crash-in-field-print" : "parse:crash");
		R.viol(stages < 2 ? "float-text-correctly-rounded" : "float-parse-within-half-ulp", (stages == 0 ? "modp_dtoa:" : stages == 1 ? "field:" : "parse:") + crashmsg, mktags(), id, crashmsg, e.show(), "");
		if (stages == 0) return;
	}
	// --- text side
	auto text_verdict = [&](const char *t, const char *& clause, const char *& mode) {
		int fd; const int syn = syntax(t, fd);
		clause = "float-text-correctly-rounded"; mode = nullptr;
		if (syn == 1) { mode = "exponent-notation"; return; }
		if (syn == 2) { mode = "not-a-decimal"; return; }
		char n[128]; norm(t, n);
		if (!e.accepts(n)) { mode = (!strcmp(n, e.lo) || !strcmp(n, e.hi)) ? "wrong-neighbour" : "wrong-number"; return; }
		if (fd > q) { clause = "at-most-p-fraction-digits"; mode = "too-many-fraction-digits"; return; }
		if (ties_even && e.dir == 2 && strcmp(n, e.glibc)) mode = "exact-tie-not-to-even";	// only with ties=even (default: either neighbour)
	};
	const char *td = o.t_direct; const size_t tdl = strlen(td);
	const char *clause, *mode;
	if (o.n_direct != tdl) { R.outcome("text:bad-length"); R.viol("float-text-correctly-rounded", "modp_dtoa:returned-length-differs", mktags(), id, "length " + std::to_string(o.n_direct) + " text \"" + vh::show(td) + "\"", "strlen", ""); }
	text_verdict(td, clause, mode);
	if (mode) { R.outcome(std::string("text:viol:") + mode); R.viol(clause, std::string("modp_dtoa:") + mode, mktags(), id, "\"" + vh::show(td) + "\"", e.show() + " (<= " + std::to_string(q) + " fraction digits)", ""); }
	else if (e.dir != 2) ++o_cnt[O_TEXT_OK];
	else { char n[128]; norm(td, n); ++o_cnt[!strcmp(n, e.glibc) ? O_TEXT_OK_TIE : O_TEXT_OK_TIE_ODD]; }	// glibc rounds exact ties to even
	// field layer: same text as the direct call, or judged on its own
	if (stages >= 2) {
		char enc[128]; const size_t el = strlen(o.t_enc);	// "44=<text>\x01"
		if (el >= 4 && !memcmp(o.t_enc, "44=", 3) && o.t_enc[el - 1] == '\x01' && o.n_enc == el) { memcpy(enc, o.t_enc + 3, el - 4); enc[el - 4] = 0; }
		else snprintf(enc, sizeof enc, "<bad frame>%.100s", o.t_enc);
		struct { const char *name; const char *t; size_t n; } fl[] = {
			{ "Field(val,prec).print", o.t_field, o.n_field }, { "set_precision+print", o.t_setp, o.n_setp },
			{ "Field(val).print@default", o.has_def ? o.t_def : td, o.has_def ? o.n_def : tdl }, { "encode", enc, strlen(enc) } };
		for (auto& f : fl) {
			if (f.n == tdl && !strcmp(f.t, td)) { ++o_cnt[O_FIELD_TEXT_SAME]; continue; }
			const char *c2, *m2; text_verdict(f.t, c2, m2);
			if (f.n != strlen(f.t)) m2 = "returned-length-differs";
			if (m2) { R.outcome("text:field-viol"); R.viol(c2, std::string("field:") + m2, mktags(), id, std::string(f.name) + " -> \"" + vh::show(f.t) + "\" (modp_dtoa direct: \"" + vh::show(td) + "\")", e.show(), ""); }
			else R.outcome("text:field-differs-but-ok");
		}
	}
	// --- parse side: the text produced above, parsed by fix8, against glibc strtod (correctly rounded)
	int fd; const int syn = syntax(td, fd);
	if (stages < 3) ;
	else if (syn != 2) {
		const double ref = strtod(td, nullptr);
		auto ulptags = [&](unsigned long long u) {	// scope of a parse defect: the form of the text and the size of the error, nothing else
			Tags t; if (syn == 1) t.push_back("text_exponent_form");
			int sig = 0; bool lead = true;	// significant digits of the mantissa (leading zeros do not count, trailing ones do)
			for (const char *c = td; *c && *c != 'e' && *c != 'E'; ++c) if (isdigit((unsigned char)*c)) { if (*c != '0') lead = false; if (!lead) ++sig; }
			t.push_back(sig > 15 ? "text_sig_digits_gt:15" : "text_sig_digits_le:15");
			if (u <= 1) t.push_back("atof_ulp_error_le:1");
			if (u <= 2) t.push_back("atof_ulp_error_le:2");
			if (u <= 3) t.push_back("atof_ulp_error_le:3");
			if (u <= 4) t.push_back("atof_ulp_error_le:4"); else t.push_back("atof_ulp_error_gt:4");
			return t; };
		auto hexd = [](double d) { char b[64]; snprintf(b, sizeof b, "%a (%.17g)", d, d); return std::string(b); };
		const unsigned long long u = ulps(o.p_direct, ref);
		if (u) {
			R.outcome("parse:off-by-" + (u <= 4 ? std::to_string(u) : std::string("5+")) + "ulp");
			R.viol("float-parse-within-half-ulp", "fast_atof:off-by-ulps", ulptags(u), id, std::string("fast_atof(\"") + td + "\") = " + hexd(o.p_direct) + ", " + std::to_string(u) + " ulp off", hexd(ref), "");
		} else ++o_cnt[O_PARSE_EXACT];
		const double fp[] = { o.p_cstr, o.p_str, o.p_raw };
		for (int i = 0; i < 3; ++i) {
			if (bits_of(fp[i]) == bits_of(o.p_direct)) { ++o_cnt[O_FIELD_PARSE_SAME]; continue; }
			const unsigned long long u2 = ulps(fp[i], ref);
			if (u2) { R.outcome("parse:field-viol"); R.viol("float-parse-within-half-ulp", "field:off-by-ulps", ulptags(u2), id, std::string(i == 0 ? "Field(const char*)" : i == 1 ? "Field(f8String)" : "set_from_raw") + " = " + hexd(fp[i]), hexd(ref), ""); }
			else R.outcome("parse:field-differs-but-ok");
		}
	} else ++o_cnt[O_PARSE_NA];
	if (R.verbose()) {
		std::string ts; for (auto& t : mktags()) ts += t + " ";
		fprintf(stderr, "double %a (%.17g) at precision %d\n  exact expansion %.*s...\n  oracle: %s   [glibc %%.%df: %s]\n  modp_dtoa \"%s\" (returned %zu); Field print \"%s\"; set_precision \"%s\"; encode \"%s\"\n"
			"  fast_atof(text) %a; Field ctor %a / %a; set_from_raw %a; strtod(text) %a\n  tags %s\n",
			v, v, q, (int)std::min<size_t>(strlen(expbuf), (strchr(expbuf, '.') - expbuf) + 40), expbuf, e.show().c_str(), q, e.glibc,
			vh::show(td).c_str(), o.n_direct, o.t_field, o.t_setp, vh::show(o.t_enc).c_str(), o.p_direct, o.p_cstr, o.p_str, o.p_raw, syn != 2 ? strtod(td, 0) : NAN, ts.c_str());
	}
}

struct FltReq { double v; int qlo, qhi; };
static Worker<FltReq, FltObs> flt_worker;
// one value at precisions qlo..qhi; case id = idbase + q
static void flt_value(double v, int qlo, int qhi, long long idbase)
{
	char rb[64];
	auto announce = [&](int q) { snprintf(rb, sizeof rb, "f:%016llx:%d", (unsigned long long)bits_of(v), q); RP->begin_case(rb, "", idbase + q); };
	if (!(fabs(v) > 2147483647.0 && use_guard)) {
		for (int q = qlo; q <= qhi; ++q) { announce(q); FltObs o; observe_flt(v, q, o, no_checkpoint); judge_flt(v, q, o, 3, "", rb); }
		return;
	}
	// the worker runs all remaining precisions; if it dies at precision c, what it sent is judged and a new worker continues at c + 1
	while (qlo <= qhi) {
		static FltObs obs[10]; int stages[10] = { 0 }; memset(obs, 0, sizeof obs);
		std::string msg;
		const FltReq rq = { v, qlo, qhi };
		const bool alive = flt_worker.call(rq, msg, [](const FltReq& r, FltObs& oo, auto&& cp) { for (int q = r.qlo; q <= r.qhi; ++q) observe_flt(r.v, q, oo, [&] { oo.q = q; cp(); }); },
			[&](const FltObs& in) { if (in.q >= 0 && in.q <= 9) { obs[in.q] = in; ++stages[in.q]; } });
		int q = qlo;
		for (; q <= qhi; ++q) {
			announce(q);
			const bool complete = stages[q] == 3;
			judge_flt(v, q, obs[q], complete ? 3 : std::min(stages[q], 2), complete ? "" : !alive ? msg : "harness:record-missing", rb);
			if (!complete) break;
		}
		qlo = q + 1;
	}
}

// decimal N * 10^-p (+ half a unit), correctly rounded by glibc strtod
static double dec(unsigned long long N, int p, bool half)
{
	char d[40], t[48]; int L = snprintf(d, sizeof d, "%0*llu", p + 1, N);
	int n = 0; memcpy(t, d, L - p); n = L - p; t[n++] = '.'; memcpy(t + n, d + L - p, p); n += p; if (half) t[n++] = '5'; t[n] = 0;
	return strtod(t, nullptr);
}

static int run_float(vh::Run& R)
{
	const long long K = R.args.num("K", 2000), J = R.args.num("J", 20), JTOP = R.args.num("jtop", 10);
	const int KB = (int)R.args.num("kbits", 10), KBTOP = (int)R.args.num("kbitstop", 4);
	const long long NB = R.args.num("nbin", 4096);
	if (R.single) {
		unsigned long long b = 0; int q = 0;
		if (sscanf(R.single_case.c_str(), "f:%llx:%d", &b, &q) != 2 || q < 0 || q > 9) { fprintf(stderr, "bad case\n"); return 2; }
		flt_value(of_bits(b), q, q, -q);
		flush_outcomes(); R.finish(); return R.violations ? 1 : 0;
	}
	// exact de-duplication: open-addressing set of bit patterns (compact: a forked worker copies this process' page tables)
	struct Seen {
		std::vector<uint64_t> tab; size_t n = 0; bool zero = false;
		Seen() : tab(1 << 16, 0) {}
		static uint64_t mix(uint64_t x) { x ^= x >> 30; x *= 0xbf58476d1ce4e5b9ULL; x ^= x >> 27; x *= 0x94d049bb133111ebULL; return x ^ (x >> 31); }
		bool insert(uint64_t b)	// true = new
		{
			if (!b) { const bool r = !zero; zero = true; return r; }
			if ((n + 1) * 2 > tab.size()) { std::vector<uint64_t> old(tab.size() * 2, 0); old.swap(tab); n = 0; for (uint64_t x : old) if (x) insert(x); }
			for (size_t i = mix(b) >> 7 & (tab.size() - 1);; i = (i + 1) & (tab.size() - 1)) { if (tab[i] == b) return false; if (!tab[i]) { tab[i] = b; ++n; return true; } }
		}
	} seen;
	long long vi = 0;		// running index of generated values (identical in every shard)
	bool stop = false;
	long long nsample = 0;
	auto emit1 = [&](double v, const char *what) {
		const long long my = vi++;
		if (stop || !(fabs(v) < 2147483648.0)) return;
		const uint64_t b = bits_of(v);
		if (Seen::mix(b) % R.shard_n != R.shard_k) return;
		if (!seen.insert(b)) { ++R.counters["duplicate_lattice_points_skipped"]; return; }
		if (my * 10 + 9 >= R.from) flt_value(v, (int)std::max(0LL, R.from - my * 10), 9, my * 10);
		if (what && nsample < 3 && my * 10 >= R.from) { char rb[64], ds[160]; snprintf(rb, sizeof rb, "f:%016llx:2", (unsigned long long)b); snprintf(ds, sizeof ds, "%s: %.17g at precision 2 (and every other precision 0..9)", what, v); R.sample(rb, ds); ++nsample; }
		if (R.out_of_time()) stop = true;
	};
	// value, its two neighbours, both signs
	auto emit = [&](double w, const char *what = nullptr) {
		if (!(w >= 0)) return;
		const double nb[3] = { w, nextafter(w, -INFINITY), nextafter(w, INFINITY) };
		for (int u = 0; u < 3; ++u) { if (nb[u] < 0) { vi += 2; continue; } emit1(nb[u], u == 0 ? what : nullptr); emit1(-nb[u], nullptr); }
	};
	// F4: specials
	const double specials[] = { 0.0, 1.0, 0.5, 0.1, 0.05, 0.005, 0.95, 0.995, 0.9999999995, 0.99999999949, 1e-9, 5e-10, 4.9e-10, 1e-10, 1e-300, DBL_MIN, 4.9406564584124654e-324,
		2147483647.0, 2147483646.5, 2147483647.5, 2147483647.4999995, 2147483647.9999995, 1073741824.0, 4294967295.0 / 2, 999999.995, 1000000.0, 123456789.123456789, 0.3, 2.675, 1.005, 8.5, 9.5, 99.5, 0.45, 0.55 };
	const bool only_top = R.args.get("only") == "top";	// just the neighbourhood of 2^31
	for (double s : specials) if (!only_top || s > 2147483645.0) emit(s, s == 0.95 ? "special value" : nullptr);
	// F1: N * 10^-p and (N + 1/2) * 10^-p, smallest N first
	for (long long N = 0; N <= K && !stop && !only_top; ++N)
		for (int p = 0; p <= 9; ++p)
			for (int half = 0; half < 2; ++half)
				emit(dec(N, p, half), (N == 1995 && p == 3 && half) ? "(N+1/2)*10^-p lattice point" : nullptr);
	// F2: the same around anchor integers W:  (W * 10^p + d [+ 1/2]) * 10^-p
	const long long anchors[] = { 1, 9, 10, 99, 100, 999, 1000, 65536, 999999, 1000000, 16777216, 999999999, 1000000000, 2147483646, 2147483647, 2147483648LL };
	for (long long W : anchors)
		for (int p = 0; p <= 9 && !stop && (!only_top || W >= 2147483646); ++p) {
			const long long j = W >= 2147483646 ? JTOP : J;
			const unsigned long long C = (unsigned long long)W * (unsigned long long)P10[p];
			for (long long d = -j; d <= j; ++d) {
				if (W == 2147483648LL && d >= 0) break;
				for (int half = 0; half < 2; ++half) emit(dec(C + d, p, half), (W == 1000000 && p == 2 && d == -1 && half) ? "around 10^6" : nullptr);
			}
		}
	// F3: exact binary fractions n / 2^k (every exact tie at precision k-1 is one of these), and W + n / 2^k
	for (int k = 0; k <= KB && !stop && !only_top; ++k)
		for (long long n = 1; n <= NB; n += (k ? 2 : 1))
			emit(ldexp((double)n, -k), (k == 3 && n == 5) ? "exact binary fraction n/2^k" : nullptr);
	for (long long W : anchors) {
		if (W == 2147483648LL || (only_top && W < 2147483646)) continue;
		const int kb = W >= 2147483646 ? KBTOP : KB;
		for (int k = 1; k <= kb && !stop; ++k)
			for (long long n = 1; n < (1LL << k); n += 2)
				emit((double)W + ldexp((double)n, -k));
	}
	R.counters["lattice_values_generated"] = (R.shard_k == 0) ? vi : 0;
	flt_worker.stop(); if (use_guard) R.counters["worker_processes_started"] = flt_worker.forks;
	flush_outcomes();
	R.finish(!stop);
	return 0;
}

int main(int argc, char **argv)
{
	vh::Run R(argc, argv); RP = &R;
	use_guard = R.args.num("guard", 0) != 0;
	ties_even = R.args.get("ties") == "even";
	// Symbolising a sanitizer stack trace costs ~0.2 s per report; the sweep only needs the report's first line.
	// (Replays keep the driver's options and show the full trace.)
	if (use_guard && !R.single && !getenv("C08_REEXEC")) {
		setenv("C08_REEXEC", "1", 1);
		setenv("UBSAN_OPTIONS", "print_stacktrace=0:halt_on_error=1", 1);
		execv("/proc/self/exe", argv);
	}
	std::string part = R.args.get("part", "");
	if (R.single) part = R.single_case.compare(0, 2, "i:") == 0 ? "int" : "float";
	if (part == "int") return run_int(R);
	if (part == "float") return run_float(R);
	fprintf(stderr, "part=int|float\n");
	return 2;
}
