// c25_senders — C25: concurrent senders get unique consecutive sequence numbers (schedule search on the real send path).
// A real Session + ClientConnection (threaded or pipelined process model) over a scripted socket and a real persister;
// N sender threads run scripts of send() / send_batch() calls; in the pipelined model the real writer thread runs too.
// Scheduling points: every interposed spin lock / mutex operation (_con_spl, _per_spl, _start_mutex), the socket write
// (ScriptSock::send_hook), every FastFlow atomic of the outbound queue (ff_shim.hpp), sched_yield in the blocking pop.
// All schedules up to a preemption bound; oracle on every complete execution.  The `tsan` variant runs the same schedules
// with ThreadSanitizer watching (the scheduler's hand-offs are invisible to it, see sched.cpp).
// args: pm=t|p  ops=<script per thread, comma separated; s = send, m = send(Message&), n = send with destroy=false, b = send_batch of 2, B = send_batch of 3, a = process one inbound in-sequence NewOrderSingle (must reach the application), r = process one inbound
//       in-sequence Heartbeat as the reader thread would (at most one thread with r steps)>  pm=t2|p2: two sessions in the process, thread t drives session t % 2   pk=m|f  bound=<n>  start=<first number>
// With pk=f the store's lseek/read/write calls are scheduling points too and the files are reopened by a fresh FilePersister at the end.
#include <fix8/f8includes.hpp>
#include "utest_types.hpp"
#include "utest_router.hpp"
#include "utest_classes.hpp"
#include "sim/sim.hpp"
#include <pthread.h>
#include <atomic>
#include "sched/explore.hpp"
using namespace FIX8;

struct Rt25 : UTEST::utest_Router {
	mutable std::vector<std::string> got;	// ClOrdIDs delivered to the application, in order
	bool operator()(const UTEST::NewOrderSingle *m) const override { UTEST::ClOrdID id; m->get(id); got.push_back(id()); return true; }
};
struct Ses25 : Session {
	Rt25 rt;
	Ses25(const F8MetaCntx& c, const SessionID& sid, Persister *p) : Session(c, sid, p) {}
	bool handle_application(const unsigned seqnum, const Message *&msg) override { return enforce(seqnum, msg) || msg->process(rt); }
};

static char PM = 't', PK = 'm';
static std::vector<std::string> SCRIPTS;
static unsigned START = 1;
static int NS = 1;	// sessions in the process (pm=t2: two sessions, thread t drives session t % 2) — they share what is static in the library
struct Ctx { sim::ScriptSock *sock; Poco::Net::StreamSocket *ps; Persister *per; Ses25 *ses; ClientConnection *conn; std::string dbn; int inbound_done; std::vector<std::string> fed; };
static Ctx cx[2];
static std::atomic<int> wire_msgs;
struct OpRes { std::vector<std::string> ids; bool ok = false; size_t n = 0; };
static std::vector<std::vector<OpRes>> res;

// the file store's system calls are scheduling points (a seek and the write that follows it are two steps)
#include <sys/syscall.h>
extern "C" off_t lseek(int fd, off_t off, int whence) { if (fd > 2) vs_point(9003); return (off_t)syscall(SYS_lseek, fd, off, whence); }
extern "C" off_t lseek64(int fd, off_t off, int whence) { if (fd > 2) vs_point(9003); return (off_t)syscall(SYS_lseek, fd, off, whence); }
extern "C" ssize_t write(int fd, const void *b, size_t n) { if (fd > 2) vs_point(9004); return (ssize_t)syscall(SYS_write, fd, b, n); }
extern "C" ssize_t read(int fd, void *b, size_t n) { if (fd > 2) vs_point(9005); return (ssize_t)syscall(SYS_read, fd, b, n); }

static Message *nos(const std::string& id)
{
	UTEST::NewOrderSingle *m = new UTEST::NewOrderSingle;
	*m << new UTEST::ClOrdID(id) << new UTEST::HandlInst('1') << new UTEST::Symbol("IBM") << new UTEST::Side('1')
	   << new UTEST::TransactTime(Tickval(true)) << new UTEST::OrdType('1');
	return m;
}

static void *sender(void *a)
{
	const long t = (long)a;
#ifdef C25_SELFTEST_RACE
	{ static int racy; ++racy; }	// deliberate unsynchronised access: the tsan variant must report it (self-test of the race oracle)
#endif
	const std::string& sc = SCRIPTS[t];
	Ses25 *ses = cx[t % NS].ses; int& inbound_done = cx[t % NS].inbound_done;
	for (size_t o = 0; o < sc.size(); ++o) {
		OpRes& r = res[t][o];
		if (sc[o] == 'r') {	// inbound Heartbeat carrying the expected number, handed to Session::process as the reader thread does
			sim::Hdr h; h.type = "0"; h.sender = "SRV"; h.target = "CLI"; h.seq = (long)++inbound_done;
			r.ok = ses->process(sim::mk("FIX.4.2", h, "")); r.n = 0; continue;
		}
		if (sc[o] == 'a') {	// inbound application message carrying the expected number: must reach this session's application, intact
			sim::Hdr h; h.type = "D"; h.sender = "SRV"; h.target = "CLI"; h.seq = (long)++inbound_done;
			const std::string id = "IN" + std::to_string(t) + "." + std::to_string(o);
			cx[t % NS].fed.push_back(id);
			const std::string body = "11=" + id + "\001" "21=1\001" "55=IBM\001" "54=1\001" "60=20231114-22:13:20\001" "40=1\001";
			r.ok = ses->process(sim::mk("FIX.4.2", h, body)); r.n = 0; continue;
		}
		const int n = sc[o] == 's' || sc[o] == 'n' || sc[o] == 'm' ? 1 : sc[o] == 'b' ? 2 : 3;
		for (int e = 0; e < n; ++e) r.ids.push_back("T" + std::to_string(t) + "O" + std::to_string(o) + "E" + std::to_string(e));
		if (sc[o] == 's') { r.ok = ses->send(nos(r.ids[0]), true); r.n = r.ok ? 1 : 0; }
		else if (sc[o] == 'm') {	// the by-reference overload Session::send(Message&): its own path through FIXWriter::write(Message&); threaded model only (the library refuses it when pipelining)
			Message *m = nos(r.ids[0]); r.ok = ses->send(*m); r.n = r.ok ? 1 : 0; delete m;
		}
		else if (sc[o] == 'n') {	// send(msg, destroy = false): the caller keeps the message in the threaded model; the pipelined model ignores the flag (documented) and its writer thread frees it
			Message *m = nos(r.ids[0]); r.ok = ses->send(m, false); r.n = r.ok ? 1 : 0; if (PM == 't') delete m;
		}
		else { std::vector<Message *> v; for (auto& id : r.ids) v.push_back(nos(id)); r.n = ses->send_batch(v, true); r.ok = r.n == v.size(); }
	}
	return 0;
}

static std::string judge_session(int k);

static std::string body()
{
	wire_msgs = 0;
	res.assign(SCRIPTS.size(), std::vector<OpRes>(8));
	for (int k = 0; k < NS; ++k) {
		Ctx& c = cx[k]; c.inbound_done = 0; c.fed.clear();
		c.sock = new sim::ScriptSock;
		c.sock->send_hook = [](const void *b, int len) -> int {
			vs_point(9001);
			int n = 0; const char *p = (const char *)b; for (int i = 0; i + 3 < len; ++i) if (p[i] == 1 && p[i + 1] == '1' && p[i + 2] == '0' && p[i + 3] == '=') ++n;
			wire_msgs += n; return len;
		};
		c.ps = new Poco::Net::StreamSocket(c.sock);
		c.dbn = "c25." + std::to_string(getpid()) + (k ? ".s" + std::to_string(k) : "") + ".db";	// the shards of one part share a working directory
		if (PK == 'f') { ::unlink(c.dbn.c_str()); ::unlink((c.dbn + ".idx").c_str()); FilePersister *fp = new FilePersister(0); fp->initialise(".", c.dbn, true); c.per = fp; }
		else c.per = new MemoryPersister;
		// the Session constructor starts the heartbeat timer thread; it plays no part in sending: keep it out of the schedule space
		vs_suspend(1);
		c.ses = new Ses25(UTEST::ctx(), SessionID(f8String("FIX.4.2"), f8String("CLI"), f8String("SRV")), c.per);
		vs_suspend(0);
		Poco::Net::SocketAddress addr("127.0.0.1", 9999);
		c.conn = new ClientConnection(c.ps, addr, *c.ses, 30, PM == 'p' ? pm_pipeline : pm_thread, true, false);
		c.ses->_connection = c.conn; c.ses->_next_send_seq = START; c.ses->_next_receive_seq = 1; c.ses->_state = States::st_continuous; c.ses->_active = true;
		if (PM == 'p') c.conn->_writer.start();
	}
	size_t total = 0; for (auto& s : SCRIPTS) for (char c : s) total += c == 's' || c == 'n' || c == 'm' ? 1 : c == 'b' ? 2 : c == 'B' ? 3 : 0;
	pthread_t pt[8];
	for (long i = 0; i < (long)SCRIPTS.size(); ++i) pthread_create(&pt[i], 0, sender, (void *)i);
	for (size_t i = 0; i < SCRIPTS.size(); ++i) pthread_join(pt[i], 0);
	if (PM == 'p') {
		// wait until the writer threads have drained the queues (a message never written shows up as LIVELOCK)
		while ((size_t)wire_msgs.load() < total) sched_yield();
		// The writer thread now sits in (or is on its way to) the blocking pop.  FIXWriter::stop() would push a null pointer,
		// which FastFlow's push refuses (assert(data != NULL); shutdown of the pipelined model is not part of this property):
		// cancel the thread and feed it one last message.  Once it is joined everything before that message is fully processed;
		// the message itself is written (as the next number) or left in the queue, depending on where the cancellation met the thread.
		for (int k = 0; k < NS; ++k) { cx[k].conn->_writer.request_stop(); cx[k].ses->send(nos("END"), true); cx[k].conn->_writer.join(); }
	}
	std::string verdict, summary;
	for (int k = 0; k < NS; ++k) {
		const std::string r = judge_session(k);	// "<verdict>|<summary>", verdict empty when the session is fine
		const size_t bar = r.find('\x1f');
		if (verdict.empty() && bar) verdict = r.substr(0, bar);
		summary += (k ? " / " : "") + r.substr(bar + 1);
	}
	// ---- teardown
	for (int k = 0; k < NS; ++k) {
		Ctx& c = cx[k];
		c.ses->_connection = nullptr;
		delete c.conn; delete c.ps;
		vs_suspend(1); delete c.ses; vs_suspend(0);	// ~Session sleeps 1 s for service threads that do not exist here
		delete c.per;
		if (PK == 'f') { ::unlink(c.dbn.c_str()); ::unlink((c.dbn + ".idx").c_str()); }
	}
	return (verdict.empty() ? "OK|" : "BAD|" + verdict + "|") + summary;
}

static std::string judge_session(int k)
{
	Ctx& c = cx[k]; sim::ScriptSock *sock = c.sock; Persister *per = c.per; Ses25 *ses = c.ses; const std::string& dbn = c.dbn; const int inbound_done = c.inbound_done;
	// ---- oracle
	std::string verdict, summary;
	std::vector<std::string> wire;
	for (auto& o : sock->out) if (!sim::split_wire(o, wire) && verdict.empty()) verdict = "wire-well-formed|a socket write is not a sequence of whole FIX messages: " + vh::show(o.substr(0, 120));
	std::multiset<std::string> sent, seen;
	for (size_t t = 0; t < SCRIPTS.size(); ++t) for (size_t o = 0; o < SCRIPTS[t].size(); ++o) {
		if ((int)(t % NS) != k) continue;
		for (auto& id : res[t][o].ids) sent.insert(id);
		if (!res[t][o].ok && verdict.empty()) verdict = res[t][o].ids.empty() ? std::string("inbound-processed|Session::process refused an in-sequence Heartbeat") : "send-succeeds|send of " + res[t][o].ids[0] + " reported failure (" + std::to_string(res[t][o].n) + " written)";
	}
	for (size_t i = 0; i < wire.size(); ++i) {
		const std::string sq = sim::tagval(wire[i], 34), id = sim::tagval(wire[i], 11);
		if (!(id == "END" && i + 1 == wire.size())) seen.insert(id);
		summary += id + "@" + sq + ",";
		if (verdict.empty() && sq != std::to_string(START + i)) verdict = "unique-consecutive-seqnums|wire message " + std::to_string(i) + " (" + id + ") carries MsgSeqNum " + sq + ", expected " + std::to_string(START + i);
	}
	if (verdict.empty() && seen != sent) {
		std::string d; for (auto& id : sent) if (seen.count(id) != 1) d += id + " x" + std::to_string(seen.count(id)) + " ";
		for (auto& id : seen) if (!sent.count(id)) d += "unsent:" + id + " ";
		verdict = "transmitted-exactly-once|" + d;
	}
	if (verdict.empty()) for (size_t i = 0; i < wire.size(); ++i) {
		f8String stored; const bool got = per->get(START + i, stored);
		if (!got || stored != wire[i]) { verdict = "stored-copy-is-transmitted-message|store[" + std::to_string(START + i) + "] = " + (got ? vh::show(stored.substr(0, 160)) : std::string("<absent>")) + " wire = " + vh::show(wire[i].substr(0, 160)); break; }
	}
	if (verdict.empty()) {
		f8String extra; if (per->get(START + wire.size(), extra)) verdict = "stored-copy-is-transmitted-message|store holds a record under " + std::to_string(START + wire.size()) + " that was never transmitted";
		unsigned cs = 0, cr = 0; const bool g = per->get(cs, cr);
		if (verdict.empty() && (!g || cs != START + wire.size() || cr != 1u + inbound_done)) verdict = "control-record-follows|control record (" + std::to_string(cs) + "," + std::to_string(cr) + ") after " + std::to_string(wire.size()) + " messages from " + std::to_string(START);
		if (verdict.empty() && ses->_next_send_seq != START + wire.size()) verdict = "unique-consecutive-seqnums|next outbound number " + std::to_string((unsigned)ses->_next_send_seq) + " after " + std::to_string(wire.size()) + " messages";
	}
	if (verdict.empty() && ses->rt.got != c.fed) {
		std::string a, b; for (auto& x : ses->rt.got) a += x + " "; for (auto& x : c.fed) b += x + " ";
		verdict = "inbound-delivered|application of session " + std::to_string(k) + " received: " + a + "; handed to Session::process in sequence: " + b;
	}
	if (PK == 'f' && verdict.empty()) {	// what a restarted process would find: a fresh FilePersister on the same files
		FilePersister re(0); const bool opened = re.initialise(".", dbn, false);
		if (getenv("C25_DEBUG")) { unsigned l = 0; re.get_last_seqnum(l); fprintf(stderr, "reopen %s: opened=%d last=%u index=%zu\n", dbn.c_str(), (int)opened, l, re._index.size()); }
		for (size_t i = 0; i < wire.size() && verdict.empty(); ++i) {
			f8String stored; const bool got = re.get(START + i, stored);
			if (!got || stored != wire[i]) verdict = "stored-copy-is-transmitted-message|after reopening the store files, store[" + std::to_string(START + i) + "] = " + (got ? vh::show(stored.substr(0, 160)) : std::string("<absent>")) + " wire = " + vh::show(wire[i].substr(0, 160));
		}
		unsigned cs = 0, cr = 0; const bool g = re.get(cs, cr);
		if (verdict.empty() && (!g || cs != START + wire.size() || cr != 1u + inbound_done)) verdict = "control-record-follows|after reopening the store files the control record is (" + std::to_string(cs) + "," + std::to_string(cr) + ")";
		re.stop();
	}
	return verdict + '\x1f' + summary;
}

int main(int argc, char **argv)
{
	vh::Run R(argc, argv);
	GlobalLogger::set_levels(Logger::Levels(Logger::None));
	auto setcfg = [&](const std::string& pm, const std::string& ops, const std::string& pk, unsigned start) {
		PM = pm[0]; NS = pm.size() > 1 && pm[1] == '2' ? 2 : 1; PK = pk[0]; START = start; SCRIPTS.clear(); std::istringstream is(ops); std::string x; while (std::getline(is, x, ',')) SCRIPTS.push_back(x);
	};
	setcfg(R.args.get("pm", "t"), R.args.get("ops", "ss,ss"), R.args.get("pk", "m"), (unsigned)R.args.num("start", 1));
	const int bound = (int)R.args.num("bound", 2);
	std::set<std::string> distinct;
	auto judge = [&](const sx::Exec& x, const std::string& id) {
		std::vector<std::string> tags { "pm:" + std::string(1, PM) };
		if (x.err.find("ThreadSanitizer") != std::string::npos) { R.outcome("tsan-report"); R.viol("no-data-race", "tsan:data-race", tags, id, x.err.substr(0, 1200), "no ThreadSanitizer report"); return; }
		if (x.end != "OK") {
			R.outcome(x.end);
			const bool live = x.end == "LIVELOCK" || x.end == "DEADLOCK" || x.end == "STEPLIMIT" || x.end == "HANG";
			R.viol(live ? "transmitted-exactly-once" : "memory-safe-and-total", "schedule-ends:" + x.end.substr(0, x.end.find(':')), tags, id, x.end + " " + x.err.substr(0, 400), "all sends complete and every message reaches the socket");
			return;
		}
		size_t a = x.outcome.find('|');
		if (x.outcome.substr(0, a) != "OK") { size_t b = x.outcome.find('|', a + 1), c = x.outcome.find('|', b + 1); R.outcome("bad:" + x.outcome.substr(a + 1, b - a - 1)); R.viol(x.outcome.substr(a + 1, b - a - 1), x.outcome.substr(a + 1, b - a - 1) == "no-data-race" ? "tsan:data-race" : "send-oracle-failed", tags, id, x.outcome.substr(b + 1, c - b - 1), "consecutive unique numbers, each message once, store = wire"); return; }
		distinct.insert(x.outcome); R.outcome("ok");
		if (R.samples_emitted < 2 && x.preemptions() >= 1) R.sample(id, "wire order: " + x.outcome.substr(a + 1));
	};
	if (R.single) {
		// case = "<pm>:<ops>:<pk>:<start>;<choices>"
		size_t sc = R.single_case.find(';'); std::string cfg = R.single_case.substr(0, sc);
		std::vector<std::string> f; { std::istringstream is(cfg); std::string x; while (std::getline(is, x, ':')) f.push_back(x); }
		if (f.size() >= 4) setcfg(f[0], f[1], f[2], (unsigned)atol(f[3].c_str()));
		R.begin_case(R.single_case); sx::Exec x = sx::run_once(body, sx::parse_choices(R.single_case.substr(sc + 1))); judge(x, R.single_case);
		fprintf(stderr, "schedule %s: end=%s outcome=%s points=%zu preemptions=%d\n%s", R.single_case.c_str(), x.end.c_str(), x.outcome.c_str(), x.pts.size(), x.preemptions(), x.err.substr(0, 3000).c_str());
		if (R.args.has("trace")) for (auto& p : x.pts) fprintf(stderr, "  pt: n=%d thread=%d tag=%d choice=%d\n", p.n, p.thread, p.tag, p.choice);
		for (auto& p : x.pts) if (p.n > 1 && p.choice) fprintf(stderr, "  point: %d enabled, thread %d at tag %d, chose %d\n", p.n, p.thread, p.tag, p.choice);
		R.finish(); return R.violations ? 1 : 0;
	}
	sx::Stats S;
	std::string ops; for (auto& s : SCRIPTS) ops += (ops.empty() ? "" : ",") + s;
	const std::string cfg = std::string(1, PM) + (NS > 1 ? std::to_string(NS) : "") + ":" + ops + ":" + std::string(1, PK) + ":" + std::to_string(START);
	sx::explore(R, cfg, body, judge, bound, S);
	R.counters["bound_completed"] = S.bound_completed; R.counters["max_points"] = S.maxpts; R.counters["distinct_outcomes"] = (long long)distinct.size();
	R.traces = S.execs;
	R.finish(!S.capped);
	return 0;
}
