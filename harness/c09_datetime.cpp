// C09 — date/time field codecs are calendar-correct inverses; log timestamps show the instant with seconds in 00..59.
//
// mode=fields
//   Space A: every day 1970-01-01 .. 2099-12-31 (47482 days) x second-of-day {0,1,59,3599,3600,43199,86399}
//            x millisecond {0,1,499,500,999}.
//   Space B (allsec=1): for the first and the last day of every month (3120 days) additionally every other second
//            of the day (86393) x the same 5 millisecond values.
//   Every instant goes through the five field classes the way the codec uses them:
//     UTCTimestamp  Field(Tickval)            -> print(char*) -> Field(const char*) -> get() -> print(char*)
//     UTCTimeOnly   Field(); set(Tickval)     -> print        -> Field(const char*) -> get() -> print
//     UTCDateOnly   Field(); set(Tickval)     -> print        [per day: Field("YYYYMMDD") -> get() -> print]
//     LocalMktDate  same as UTCDateOnly
//     MonthYear     Field(tm) (6 character form)  -> print;  Field("YYYYMMDD"); set(Tickval) -> print (8 character form)
//                   [per day: Field("YYYYMM") -> get() -> print;  Field("YYYYMMDD") -> get() -> print]
//   In space A at millisecond 0 also the secondary paths: f8String constructor, print(ostream), the tm constructor,
//   and the documented short text forms ("YYYYMMDD-HH:MM:SS", "HH:MM:SS").
// mode=log
//   GetTimeAsStringMS (gm and local, precisions 0..9, reference and value-returning overload), Tickval operator<< and
//   operator>> (what Logger::process_logline uses for "timestamp"), GetTimeAsStringMini ("minitimestamp"):
//   400 days (every 119th day of the range) x minute of day {00:00, 23:59} x second of minute {0,58,59}
//   x nanoseconds {0,1,499999999,500000000,999400000,999500000,999999999}; TZ=UTC.
//
// Oracle: proleptic Gregorian civil_from_days / days_from_civil (H. Hinnant's integer algorithms) written here,
//   cross-checked for every enumerated day against gmtime_r and timegm before the day is used (a disagreement is a
//   harness failure, exit 3, never a verdict).  Field texts must be byte-identical to the oracle rendering; parsed
//   values must be exactly the instant (UTCTimestamp), have that time of day (UTCTimeOnly, compared modulo one day),
//   lie within that day (UTCDateOnly, LocalMktDate, MonthYear 8 character form) or within that month (MonthYear 6
//   character form): the property asks these classes to keep their components, not to pick a particular instant.
//   Log text: well-formed "YYYY-MM-DD HH:MM:SS[.f{p}]", every field in its calendar range, seconds 00..59, and the
//   instant the text denotes differs from the real one by less than one unit of the last printed place (so both
//   truncation and correct rounding are accepted).
// Sanitizer builds: a sanitizer report inside a fix8 call is caught in-process (death callback of the sanitizer
//   runtimes; the UBSan arithmetic-overflow handlers are interposed so that the millions of identical reports of a
//   broken tree cost nothing) and recorded as a violation of memory-safe-and-total for that case; the enumeration
//   continues.  For that the binary re-executes itself once with UBSAN_OPTIONS halt_on_error=0 (the
//   -fno-sanitize-recover handlers still die, but after the report lock is released) and a small ASan quarantine.
//   With case=<...> (replay) none of this is installed: the sanitizer prints its full report and kills the process.
// Replay strings: "<TS|TO|DO|LM|MY|*>,<day since 1970-01-01>,<second of day>,<ms|*>", "<DO|LM|MY|*>,<day>,-,-" (the
//   per-day text cases), "L,<renderer 0..5>,<day>,<second of day>,<nanoseconds>,<precision>".
#include <fix8/f8includes.hpp>
#include <csetjmp>
#include <tuple>
#include <dlfcn.h>
#include "vh.hpp"
using namespace FIX8;

// ------------------------------------------------------------------------------------------------ oracle
static inline int64_t days_from_civil(int64_t y, unsigned m, unsigned d)
{
	y -= m <= 2;
	const int64_t era = (y >= 0 ? y : y - 399) / 400;
	const unsigned yoe = (unsigned)(y - era * 400);
	const unsigned doy = (153 * (m > 2 ? m - 3 : m + 9) + 2) / 5 + d - 1;
	const unsigned doe = yoe * 365 + yoe / 4 - yoe / 100 + doy;
	return era * 146097 + (int64_t)doe - 719468;
}
static inline void civil_from_days(int64_t z, int& y, unsigned& m, unsigned& d)
{
	z += 719468;
	const int64_t era = (z >= 0 ? z : z - 146096) / 146097;
	const unsigned doe = (unsigned)(z - era * 146097);
	const unsigned yoe = (doe - doe / 1460 + doe / 36524 - doe / 146096) / 365;
	const int64_t yy = (int64_t)yoe + era * 400;
	const unsigned doy = doe - (365 * yoe + yoe / 4 - yoe / 100);
	const unsigned mp = (5 * doy + 2) / 153;
	d = doy - (153 * mp + 2) / 5 + 1;
	m = mp < 10 ? mp + 3 : mp - 9;
	y = (int)(yy + (m <= 2));
}
static inline bool is_leap(int y) { return (y % 4 == 0 && y % 100 != 0) || y % 400 == 0; }
static inline unsigned days_in_month(int y, unsigned m)
{ static const unsigned char t[] = { 31, 28, 31, 30, 31, 30, 31, 31, 30, 31, 30, 31 }; return m == 2 && is_leap(y) ? 29 : t[m - 1]; }

static const int64_t NDAYS = 47482;	// 1970-01-01 .. 2099-12-31
static const int64_t BILLION = 1000000000LL, MILLION = 1000000LL;

static inline void put2(char *p, unsigned v) { p[0] = (char)('0' + v / 10 % 10); p[1] = (char)('0' + v % 10); }
static inline void put3(char *p, unsigned v) { p[0] = (char)('0' + v / 100 % 10); p[1] = (char)('0' + v / 10 % 10); p[2] = (char)('0' + v % 10); }
static inline void put4(char *p, unsigned v) { put2(p, v / 100); put2(p + 2, v % 100); }

struct Day {
	int64_t day; int y; unsigned m, d; int64_t month_start_day;
	char d8[9], m6[7];
};
// the oracle's own cross-check: Hinnant arithmetic vs. the C library, both directions
static bool make_day(int64_t day, Day& D)
{
	D.day = day;
	civil_from_days(day, D.y, D.m, D.d);
	if (days_from_civil(D.y, D.m, D.d) != day) return false;
	time_t t = (time_t)(day * 86400); struct tm g; memset(&g, 0, sizeof g);
	if (!gmtime_r(&t, &g)) return false;
	if (g.tm_year + 1900 != D.y || g.tm_mon + 1 != (int)D.m || g.tm_mday != (int)D.d || g.tm_hour || g.tm_min || g.tm_sec) return false;
	struct tm h; memset(&h, 0, sizeof h); h.tm_year = D.y - 1900; h.tm_mon = (int)D.m - 1; h.tm_mday = (int)D.d;
	if (timegm(&h) != t) return false;
	if (D.d < 1 || D.d > days_in_month(D.y, D.m)) return false;
	D.month_start_day = days_from_civil(D.y, D.m, 1);
	put4(D.d8, (unsigned)D.y); put2(D.d8 + 4, D.m); put2(D.d8 + 6, D.d); D.d8[8] = 0;
	memcpy(D.m6, D.d8, 6); D.m6[6] = 0;
	return true;
}

// ------------------------------------------------------------------------------------------------ fix8 side
using FTs = Field<UTCTimestamp, 52>;
using FTo = Field<UTCTimeOnly, 273>;
using FDo = Field<UTCDateOnly, 272>;
using FLm = Field<LocalMktDate, 75>;
using FMy = Field<MonthYear, 200>;
enum Cls { TS, TO, DO, LM, MY, NCLS };
static const char *clsname[] = { "UTCTimestamp", "UTCTimeOnly", "UTCDateOnly", "LocalMktDate", "MonthYear" };
static const char *clsid[] = { "TS", "TO", "DO", "LM", "MY" };

struct Txt { char b[56]; size_t n; bool overrun; };
template<class F> static inline Txt prt(const F& f)
{
	Txt t; memset(t.b, '#', sizeof t.b);
	t.n = f.print(t.b);
	t.overrun = t.n > 40 || t.b[t.n] != '#';
	if (t.n > 40) t.n = 40;
	t.b[t.n] = 0;
	return t;
}
static inline bool eq(const Txt& t, const char *e, size_t n) { return !t.overrun && t.n == n && memcmp(t.b, e, n) == 0; }

// in-process capture of sanitizer deaths
static sigjmp_buf jb; static volatile sig_atomic_t armed = 0;
static const char *volatile ub_last = "";	// kind of undefined behaviour, when one of the interposed UBSan handlers saw it
#if defined(__SANITIZE_ADDRESS__) || defined(__SANITIZE_THREAD__)
extern "C" void __sanitizer_set_death_callback(void (*)(void));
static void on_death() { if (armed) { armed = 0; siglongjmp(jb, 1); } }
// libasan and libubsan each carry their own copy of the common runtime (and of the callback slot)
static void install_death_callback()
{
	__sanitizer_set_death_callback(on_death);
	for (const char *lib : { "libubsan.so.1", "libasan.so.8", "libasan.so.6", "libtsan.so.2", "libtsan.so.0" }) {
		void *h = dlopen(lib, RTLD_NOW | RTLD_NOLOAD);
		if (!h) continue;
		typedef void (*setter)(void (*)(void));
		setter f = (setter)dlsym(h, "__sanitizer_set_death_callback");
		if (f) f(on_death);
	}
}
// The arithmetic-overflow handlers of UBSan are interposed: the first few reports go to the real handler (full text,
// death caught by the callback above); after that an armed call is abandoned without the (slow) report.  Everything
// else UBSan or ASan can report still takes the normal path.
static int ub_full_reports = 0; static long long ub_silent = 0;
typedef void (*ub3)(void *, void *, void *);
#define UB_INTERPOSE(name, what) \
	extern "C" void name(void *d, void *l, void *r) \
	{ \
		static ub3 real = (ub3)dlsym(RTLD_NEXT, #name); \
		ub_last = what; \
		if (armed && ub_full_reports >= 4) { ++ub_silent; armed = 0; siglongjmp(jb, 2); } \
		++ub_full_reports; \
		if (real) real(d, l, r); \
		_exit(1); \
	}
UB_INTERPOSE(__ubsan_handle_mul_overflow_abort, "ubsan:signed-integer-overflow-in-multiplication")
UB_INTERPOSE(__ubsan_handle_add_overflow_abort, "ubsan:signed-integer-overflow-in-addition")
UB_INTERPOSE(__ubsan_handle_sub_overflow_abort, "ubsan:signed-integer-overflow-in-subtraction")
#define HAVE_SAN 1
#else
#define HAVE_SAN 0
#endif

struct H {
	vh::Run& R;
	bool V;					// verbose (single case)
	long long ok[NCLS] = { 0 }, bad[NCLS] = { 0 }, cases[NCLS] = { 0 }, died = 0, secondary = 0, perday = 0;
	// current case (globals for the death path)
	const Day *D = nullptr; int sec = 0, ms = 0;
	std::string errfile; off_t errpos = 0;

	explicit H(vh::Run& r) : R(r), V(r.verbose()) {}

	std::string id(Cls c, bool perday_case = false) const
	{ char b[96]; if (perday_case) snprintf(b, sizeof b, "%s,%lld,-,-", clsid[c], (long long)D->day); else snprintf(b, sizeof b, "%s,%lld,%d,%d", clsid[c], (long long)D->day, sec, ms); return b; }

	// scope tags; want_secs = epoch seconds the library has to compute from calendar fields in this step (or -1)
	std::vector<std::string> tags(Cls c, const char *step, int64_t want_secs) const
	{
		std::vector<std::string> t; t.push_back(std::string("class:") + clsname[c]); t.push_back(std::string("step:") + step);
		if (want_secs > 2147483647LL) t.push_back("epoch_secs_gt_int32max");
		return t;
	}
	// only the first few records of a (clause, mode, step, class, scope) class are written out; the rest are counted
	// (vh::Run::viol would do the same, but only after the strings have been built: millions of them on a broken tree)
	std::map<std::tuple<const char *, const char *, const char *, int, bool>, long long> seen;
	bool first_few(Cls c, const char *clause, const char *mode, const char *step, int64_t want_secs)
	{
		++bad[c];
		long long& n = seen[std::make_tuple(clause, mode, step, (int)c, want_secs > 2147483647LL)];
		if (++n <= 3 || V) return true;
		++R.violations;
		return false;
	}
	template<class FO, class FE>
	void fail(Cls c, bool perday_case, const char *clause, const char *mode, const char *step, int64_t want_secs, FO observed, FE expected)
	{
		if (!first_few(c, clause, mode, step, want_secs)) return;
		const std::string o = observed(), e = expected();
		if (V) fprintf(stderr, "  VIOLATION %s [%s] %s: observed %s expected %s\n", clause, step, mode, o.c_str(), e.c_str());
		R.viol(clause, mode, tags(c, step, want_secs), id(c, perday_case), o, e, std::string(clsname[c]) + " " + step);
	}
	static std::string shw(const Txt& t) { return "\"" + vh::show(std::string(t.b, t.n)) + "\"" + (t.overrun ? " (wrote past the returned length)" : ""); }
	static std::string tk(int64_t v) { return std::to_string(v) + " ticks"; }
	// how a parsed value is wrong (normalised)
	static const char *vmode(int64_t got, int64_t want_secs, int64_t sub_ns)
	{
		if (got == (int64_t)(int32_t)(uint32_t)(uint64_t)want_secs * BILLION + sub_ns && want_secs > 2147483647LL) return "epoch-seconds-wrapped-to-32-bit";
		return "wrong-instant";
	}
	void note(const char *what, const Txt& t, const char *e) { if (V) fprintf(stderr, "  %-46s observed \"%s\" expected \"%s\"\n", what, t.b, e); }
	void notev(const char *what, int64_t got, int64_t want) { if (V) fprintf(stderr, "  %-46s observed %lld expected %lld ticks\n", what, (long long)got, (long long)want); }

	template<class F> bool text_check(Cls c, bool pd, const F& f, const char *e, size_t n, const char *clause, const char *step)
	{
		Txt t = prt(f); note(step, t, e);
		if (eq(t, e, n)) return true;
		fail(c, pd, clause, t.overrun ? "print-wrote-past-returned-length" : t.n != n ? "wrong-length" : "wrong-text", step, -1,
			[&] { return shw(t); }, [&] { return std::string("\"") + e + "\""; });
		return false;
	}
	// span_ns == 0: the value must be exactly `want`; span_ns > 0: anywhere in [want, want + span_ns) (the property asks a
	// date-only field to keep its date, not to sit on midnight); mod_day: compared modulo one day (a time-only field
	// must keep its time of day, whatever day the library attaches to it)
	static const int64_t DAY_NS = 86400LL * 1000000000LL;
	template<class F> bool value_check(Cls c, bool pd, const F& f, int64_t want, int64_t want_secs, int64_t sub_ns, const char *clause, const char *step,
		int64_t span_ns = 0, bool mod_day = false)
	{
		const int64_t got = f.get().get_ticks(); notev(step, got, want);
		if (mod_day ? (got >= 0 && got % DAY_NS == want) : span_ns ? (got >= want && got - want < span_ns) : got == want) return true;
		fail(c, pd, clause, vmode(got, want_secs, sub_ns), step, want_secs, [&] { return tk(got); },
			[&] { return mod_day ? tk(want) + " (modulo one day)" : span_ns ? tk(want) + " .. " + tk(want + span_ns - 1) : tk(want); });
		return false;
	}
	template<class F> void ostream_check(Cls c, bool pd, const F& f, const char *e)
	{
		std::ostringstream os; f.print(os);
		if (V) fprintf(stderr, "  %-46s observed \"%s\" expected \"%s\"\n", "print(ostream)", os.str().c_str(), e);
		if (os.str() != e) fail(c, pd, "paths-agree", "ostream-print-differs", "print(ostream)", -1, [&] { return "\"" + vh::show(os.str()) + "\""; }, [&] { return std::string("\"") + e + "\""; });
	}

	// ---- the five classes, one instant.  `sec2` = run the secondary paths too
	void ts(const Tickval& tv, int64_t esecs, const char *ts21, const char *ts17, const struct tm& full, bool sec2)
	{
		const int64_t ticks = esecs * BILLION + ms * MILLION;
		bool good = true;
		FTs f1(tv);
		good &= text_check(TS, false, f1, ts21, 21, "text-is-gregorian-utc-rendering", "value->text");
		FTs f2(ts21);
		if (value_check(TS, false, f2, ticks, esecs, ms * MILLION, "text-parses-to-same-instant", "text->value"))
			good &= text_check(TS, false, f2, ts21, 21, "reprint-identical", "text->value->text");
		else good = false;
		if (sec2) {
			++secondary;
			FTs f3(f8String(ts21, 21));
			if (f3.get().get_ticks() != f2.get().get_ticks()) { good = false; fail(TS, false, "paths-agree", "f8String-ctor-differs-from-char-ctor", "text->value (f8String)", esecs, [&] { return tk(f3.get().get_ticks()); }, [&] { return tk(f2.get().get_ticks()); }); }
			ostream_check(TS, false, f1, ts21);
			FTs f4(ts17);
			if (value_check(TS, false, f4, esecs * BILLION, esecs, 0, "text-parses-to-same-instant", "text(no ms)->value"))
				good &= text_check(TS, false, f4, ts21, 21, "reprint-identical", "text(no ms)->value->text");
			else good = false;
			FTs f5(full);
			good &= value_check(TS, false, f5, esecs * BILLION, esecs, 0, "calendar-fields-to-instant", "tm->value");
		}
		++cases[TS]; if (good) ++ok[TS];
	}
	void to(const Tickval& tv, const char *t12, const char *t8, bool sec2)
	{
		const int64_t tod = (int64_t)sec * BILLION + ms * MILLION;
		bool good = true;
		FTo f1; f1.set(tv);
		good &= text_check(TO, false, f1, t12, 12, "text-is-gregorian-utc-rendering", "value->text");
		FTo f2(t12);
		if (value_check(TO, false, f2, tod, -1, 0, "text-parses-to-same-instant", "text->value", 0, true))
			good &= text_check(TO, false, f2, t12, 12, "reprint-identical", "text->value->text");
		else good = false;
		if (sec2) {
			++secondary;
			FTo f3(f8String(t12, 12));
			if (f3.get().get_ticks() != f2.get().get_ticks()) { good = false; fail(TO, false, "paths-agree", "f8String-ctor-differs-from-char-ctor", "text->value (f8String)", -1, [&] { return tk(f3.get().get_ticks()); }, [&] { return tk(f2.get().get_ticks()); }); }
			ostream_check(TO, false, f1, t12);
			FTo f4(t8);
			if (value_check(TO, false, f4, (int64_t)sec * BILLION, -1, 0, "text-parses-to-same-instant", "text(no ms)->value", 0, true))
				good &= text_check(TO, false, f4, t12, 12, "reprint-identical", "text(no ms)->value->text");
			else good = false;
			struct tm hms; memset(&hms, 0, sizeof hms); hms.tm_sec = sec % 60; hms.tm_min = sec / 60 % 60; hms.tm_hour = sec / 3600;
			FTo f5(hms);
			good &= value_check(TO, false, f5, (int64_t)sec * BILLION, -1, 0, "calendar-fields-to-instant", "tm->value", 0, true);
		}
		++cases[TO]; if (good) ++ok[TO];
	}
	template<class F> void dateonly(Cls c, const Tickval& tv, bool sec2)
	{
		bool good = true;
		F f1; f1.set(tv);
		good &= text_check(c, false, f1, D->d8, 8, "text-is-gregorian-utc-rendering", "value->text");
		if (sec2) { ++secondary; ostream_check(c, false, f1, D->d8); }
		++cases[c]; if (good) ++ok[c];
	}
	template<class F> void dateonly_perday(Cls c)
	{
		const int64_t ds = D->day * 86400;
		bool good = true;
		F f2(D->d8);
		if (value_check(c, true, f2, ds * BILLION, ds, 0, "text-parses-to-same-instant", "text->value", DAY_NS))
			good &= text_check(c, true, f2, D->d8, 8, "reprint-identical", "text->value->text");
		else good = false;
		F f3(f8String(D->d8, 8));
		if (f3.get().get_ticks() != f2.get().get_ticks()) { good = false; fail(c, true, "paths-agree", "f8String-ctor-differs-from-char-ctor", "text->value (f8String)", ds, [&] { return tk(f3.get().get_ticks()); }, [&] { return tk(f2.get().get_ticks()); }); }
		struct tm dm; memset(&dm, 0, sizeof dm); dm.tm_mday = (int)D->d; dm.tm_mon = (int)D->m - 1; dm.tm_year = D->y - 1900;
		F f5(dm);
		good &= value_check(c, true, f5, ds * BILLION, ds, 0, "calendar-fields-to-instant", "tm->value");
		++cases[c]; ++perday; if (good) ++ok[c];
	}
	void my(const Tickval& tv, int64_t esecs, const struct tm& full, bool sec2)
	{
		bool good = true;
		// 6 character form: the tm constructor is the only value constructor that selects it
		FMy f1(full);
		if (value_check(MY, false, f1, esecs * BILLION, esecs, 0, "calendar-fields-to-instant", "tm->value"))
			good &= text_check(MY, false, f1, D->m6, 6, "text-is-gregorian-utc-rendering", "value->text (YYYYMM)");
		else good = false;
		// 8 character form: a field that came from an 8 character text keeps that form when a value is set
		FMy f8(D->d8); f8.set(tv);
		good &= text_check(MY, false, f8, D->d8, 8, "text-is-gregorian-utc-rendering", "value->text (YYYYMMDD)");
		if (sec2) { ++secondary; ostream_check(MY, false, f8, D->d8); FMy f6(D->m6); f6.set(tv); ostream_check(MY, false, f6, D->m6); }
		++cases[MY]; if (good) ++ok[MY];
	}
	void my_perday()
	{
		const int64_t ds = D->day * 86400, mstart = D->month_start_day * 86400, month_ns = (int64_t)days_in_month(D->y, D->m) * DAY_NS;
		bool good = true;
		FMy f2(D->m6);
		if (value_check(MY, true, f2, mstart * BILLION, mstart, 0, "text-parses-to-same-instant", "text(YYYYMM)->value", month_ns))
			good &= text_check(MY, true, f2, D->m6, 6, "reprint-identical", "text(YYYYMM)->value->text");
		else good = false;
		FMy f3(D->d8);
		if (value_check(MY, true, f3, ds * BILLION, ds, 0, "text-parses-to-same-instant", "text(YYYYMMDD)->value", DAY_NS))
			good &= text_check(MY, true, f3, D->d8, 8, "reprint-identical", "text(YYYYMMDD)->value->text");
		else good = false;
		FMy f4(f8String(D->d8, 8)), f5(f8String(D->m6, 6));
		if (f4.get().get_ticks() != f3.get().get_ticks()) { good = false; fail(MY, true, "paths-agree", "f8String-ctor-differs-from-char-ctor", "text(YYYYMMDD)->value (f8String)", ds, [&] { return tk(f4.get().get_ticks()); }, [&] { return tk(f3.get().get_ticks()); }); }
		if (f5.get().get_ticks() != f2.get().get_ticks()) { good = false; fail(MY, true, "paths-agree", "f8String-ctor-differs-from-char-ctor", "text(YYYYMM)->value (f8String)", mstart, [&] { return tk(f5.get().get_ticks()); }, [&] { return tk(f2.get().get_ticks()); }); }
		// month and year alone (as the repository's own unit test builds it): day-of-month 0 means the first
		struct tm mo; memset(&mo, 0, sizeof mo); mo.tm_mon = (int)D->m - 1; mo.tm_year = D->y - 1900;
		FMy f6(mo);
		if (value_check(MY, true, f6, mstart * BILLION, mstart, 0, "calendar-fields-to-instant", "tm(month,year)->value", month_ns))
			good &= text_check(MY, true, f6, D->m6, 6, "text-is-gregorian-utc-rendering", "tm(month,year)->value->text");
		else good = false;
		++cases[MY]; ++perday; if (good) ++ok[MY];
	}

	// a sanitizer killed the call: which step is unknown (no stack to unwind), the case is
	void on_died(Cls c, bool perday_case, int64_t want_secs, int jumped)
	{
		++died; ++cases[c];
		const char *what = perday_case ? "text->value" : "round trip";
		const char *kind = *ub_last ? (const char *)ub_last : "sanitizer-report";
		if (!first_few(c, "memory-safe-and-total", kind, what, want_secs)) return;
		std::string rep;
#if HAVE_SAN
		if (jumped == 2) rep = std::string(kind) + " (report text suppressed after the first few)";
		else
#endif
		if (!errfile.empty()) {	// the report the sanitizer wrote for this death
			fflush(stderr);
			FILE *f = fopen(errfile.c_str(), "r");
			if (f) { fseeko(f, errpos, SEEK_SET); char buf[1600]; size_t n = fread(buf, 1, sizeof buf - 1, f); buf[n] = 0; rep = buf; fseeko(f, 0, SEEK_END); errpos = ftello(f); fclose(f); }
		}
		R.viol("memory-safe-and-total", std::string(kind) + " during " + clsname[c] + " " + what,
			tags(c, "any", want_secs), id(c, perday_case), "sanitizer report, call did not return", "returns", rep);
	}

#define GUARD(cls, pd, want_secs, body) do { ub_last = ""; armed = 1; const int j_ = sigsetjmp(jb, 0); if (j_ == 0) { body; armed = 0; } else on_died(cls, pd, want_secs, j_); } while (0)

	void instant(const Day& day, int s, int msv, unsigned mask, bool sec2)
	{
		D = &day; sec = s; ms = msv;
		const int64_t esecs = day.day * 86400 + s;
		char ts21[24], ts17[20], t12[16], t8[12];
		memcpy(ts21, day.d8, 8); ts21[8] = '-';
		put2(t12, (unsigned)(s / 3600)); t12[2] = ':'; put2(t12 + 3, (unsigned)(s / 60 % 60)); t12[5] = ':'; put2(t12 + 6, (unsigned)(s % 60)); t12[8] = '.'; put3(t12 + 9, (unsigned)msv); t12[12] = 0;
		memcpy(t8, t12, 8); t8[8] = 0;
		memcpy(ts21 + 9, t12, 13); memcpy(ts17, ts21, 17); ts17[17] = 0;
		struct tm full; memset(&full, 0, sizeof full);
		full.tm_sec = s % 60; full.tm_min = s / 60 % 60; full.tm_hour = s / 3600; full.tm_mday = (int)day.d; full.tm_mon = (int)day.m - 1; full.tm_year = day.y - 1900;
		const Tickval tv((time_t)esecs, (long)(msv * MILLION));
		if (V) fprintf(stderr, "instant day=%lld (%04d-%02u-%02u) second-of-day=%d ms=%d: %lld s since the epoch\n", (long long)day.day, day.y, day.m, day.d, s, msv, (long long)esecs);
		if (tv.get_ticks() != esecs * BILLION + msv * MILLION)
			fail(TS, false, "tickval-holds-instant", "wrong-ticks", "Tickval(secs,nsecs)", -1, [&] { return tk(tv.get_ticks()); }, [&] { return tk(esecs * BILLION + msv * MILLION); });
		if (mask & 1u << TS) { if (V) fprintf(stderr, " UTCTimestamp\n"); GUARD(TS, false, esecs, ts(tv, esecs, ts21, ts17, full, sec2)); }
		if (mask & 1u << TO) { if (V) fprintf(stderr, " UTCTimeOnly\n"); GUARD(TO, false, -1, to(tv, t12, t8, sec2)); }
		if (mask & 1u << DO) { if (V) fprintf(stderr, " UTCDateOnly\n"); GUARD(DO, false, -1, dateonly<FDo>(DO, tv, sec2)); }
		if (mask & 1u << LM) { if (V) fprintf(stderr, " LocalMktDate\n"); GUARD(LM, false, -1, dateonly<FLm>(LM, tv, sec2)); }
		if (mask & 1u << MY) { if (V) fprintf(stderr, " MonthYear\n"); GUARD(MY, false, esecs, my(tv, esecs, full, sec2)); }
	}
	void perday_cases(const Day& day, unsigned mask)
	{
		D = &day; sec = 0; ms = 0;
		const int64_t ds = day.day * 86400;
		if (V) fprintf(stderr, "day=%lld (%04d-%02u-%02u): text \"%s\" / \"%s\"\n", (long long)day.day, day.y, day.m, day.d, day.d8, day.m6);
		if (mask & 1u << DO) { if (V) fprintf(stderr, " UTCDateOnly\n"); GUARD(DO, true, ds, dateonly_perday<FDo>(DO)); }
		if (mask & 1u << LM) { if (V) fprintf(stderr, " LocalMktDate\n"); GUARD(LM, true, ds, dateonly_perday<FLm>(LM)); }
		if (mask & 1u << MY) { if (V) fprintf(stderr, " MonthYear\n"); GUARD(MY, true, ds, my_perday()); }
	}
};

// ------------------------------------------------------------------------------------------------ log renderers
enum Rend { MS_GM, MS_LOCAL, MS_VALUE_GM, TV_LSHIFT, TV_RSHIFT, MINI, NREND };
static const char *rendname[] = { "GetTimeAsStringMS(gm)", "GetTimeAsStringMS(local)", "GetTimeAsStringMS-by-value(gm)", "Tickval<<", "Tickval>>", "GetTimeAsStringMini" };
static const int64_t LOGNS[] = { 0, 1, 499999999, 500000000, 999400000, 999500000, 999999999 };
static const int64_t P10[] = { 1, 10, 100, 1000, 10000, 100000, 1000000, 10000000, 100000000, 1000000000 };

struct L {
	vh::Run& R; bool V;
	long long ok[NREND] = { 0 }, bad[NREND] = { 0 }, sec60 = 0, rounded_up = 0, truncated = 0, exact = 0;
	explicit L(vh::Run& r) : R(r), V(r.verbose()) {}

	static std::string render(Rend r, const Tickval& tv, unsigned p)
	{
		std::string res;
		switch (r) {
		case MS_GM: GetTimeAsStringMS(res, &tv, p, true); break;
		case MS_LOCAL: GetTimeAsStringMS(res, &tv, p, false); break;
		case MS_VALUE_GM: res = GetTimeAsStringMS(&tv, p, true); break;
		case TV_LSHIFT: { std::ostringstream os; os << tv; res = os.str(); } break;
		case TV_RSHIFT: { std::ostringstream os; os >> tv; res = os.str(); } break;
		case MINI: res = GetTimeAsStringMini(&tv); break;
		default: break;
		}
		return res;
	}
	static bool num(const std::string& s, size_t at, size_t n, int64_t& v)
	{ v = 0; if (at + n > s.size()) return false; for (size_t i = 0; i < n; ++i) { const char c = s[at + i]; if (c < '0' || c > '9') return false; v = v * 10 + (c - '0'); } return true; }

	void one(Rend r, int64_t day, int sod, int64_t ns, unsigned p)
	{
		int y; unsigned m, d; civil_from_days(day, y, m, d);
		const int64_t esecs = day * 86400 + sod, truth = esecs * BILLION + ns;
		const Tickval tv((time_t)esecs, (long)ns);
		char idb[96]; snprintf(idb, sizeof idb, "L,%d,%lld,%d,%lld,%u", (int)r, (long long)day, sod, (long long)ns, p);
		R.begin_case(idb); ++R.nontrivial;
		ub_last = ""; armed = 1;
		std::string text;
		if (sigsetjmp(jb, 0) != 0) {
			++bad[r];
			R.viol("memory-safe-and-total", std::string(*ub_last ? (const char *)ub_last : "sanitizer-report") + " during " + rendname[r], { std::string("renderer:") + rendname[r] }, idb, "sanitizer report, call did not return", "returns");
			return;
		}
		text = render(r, tv, p);
		armed = 0;
		const bool mini = r == MINI;
		const unsigned yl = mini ? 2 : 4;
		// expected text under truncation and under rounding (for the reader; the verdict is computed from the fields)
		char want[64]; snprintf(want, sizeof want, mini ? "%02d-%02u-%02u %02d:%02d:%02d" : "%04d-%02u-%02u %02d:%02d:%02d", mini ? y % 100 : y, m, d, sod / 3600, sod / 60 % 60, sod % 60);
		std::string exp = want;
		if (p) { char fr[16]; snprintf(fr, sizeof fr, ".%0*lld", (int)p, (long long)(ns / P10[9 - p])); exp += fr; exp += " (or the same instant rounded to the printed precision)"; }
		std::vector<std::string> tags; tags.push_back(std::string("renderer:") + rendname[r]);
		if (p) tags.push_back("precision_ge1");
		if (sod % 60 == 59) tags.push_back("second_59");
		if (p && 2 * (BILLION - ns) <= P10[9 - p]) tags.push_back("fraction_rounds_up_to_next_second");
		if (V) fprintf(stderr, "%s precision=%u instant=%lld.%09lld: observed \"%s\" expected \"%s\"\n", rendname[r], p, (long long)esecs, (long long)ns, text.c_str(), exp.c_str());
		auto bad_ = [&](const char *clause, const char *mode) { ++bad[r]; R.viol(clause, mode, tags, idb, "\"" + vh::show(text) + "\"", "\"" + exp + "\"", rendname[r]); };
		// shape
		const size_t len = yl + 15 + (p ? 1 + p : 0);
		int64_t Y, Mo, Dd, hh, mi, ss, fr = 0;
		if (text.size() != len || !num(text, 0, yl, Y) || text[yl] != '-' || !num(text, yl + 1, 2, Mo) || text[yl + 3] != '-' || !num(text, yl + 4, 2, Dd)
			|| text[yl + 6] != ' ' || !num(text, yl + 7, 2, hh) || text[yl + 9] != ':' || !num(text, yl + 10, 2, mi) || text[yl + 12] != ':' || !num(text, yl + 13, 2, ss)
			|| (p && (text[yl + 15] != '.' || !num(text, yl + 16, p, fr)))) { bad_("log-text-well-formed", "malformed"); return; }
		if (ss > 59) { ++sec60; bad_("log-seconds-00-59", "seconds-field-60"); return; }
		if (mini) { if (Y != y % 100) { bad_("log-shows-instant", "wrong-calendar-fields"); return; } Y = y; }
		if (Mo < 1 || Mo > 12 || Dd < 1 || Dd > (int64_t)days_in_month((int)Y, (unsigned)Mo) || hh > 23 || mi > 59) { bad_("log-shows-instant", "calendar-field-out-of-range"); return; }
		const int64_t denoted = ((days_from_civil(Y, (unsigned)Mo, (unsigned)Dd) * 86400 + hh * 3600 + mi * 60 + ss) * BILLION) + fr * P10[9 - p];
		const int64_t diff = denoted - truth, unit = P10[9 - p];
		if (diff >= unit || -diff >= unit) { bad_("log-shows-instant", "denoted-instant-off-by-one-unit-or-more"); return; }
		if (diff == 0) ++exact; else if (diff > 0) ++rounded_up; else ++truncated;
		++ok[r];
	}
};

// ------------------------------------------------------------------------------------------------
static const int SECS_A[] = { 0, 1, 59, 3599, 3600, 43199, 86399 };
static const int MS_A[] = { 0, 1, 499, 500, 999 };
static inline bool in_secs_a(int s) { for (int v : SECS_A) if (v == s) return true; return false; }

static unsigned mask_of(const std::string& c)
{
	if (c == "*") return (1u << NCLS) - 1;
	for (int i = 0; i < NCLS; ++i) if (c == clsid[i]) return 1u << i;
	return 0;
}

int main(int argc, char **argv)
{
	setenv("TZ", "UTC", 1); tzset();
	vh::Run R(argc, argv);
	const std::string mode = R.args.get("mode", "fields");
	const bool allsec = R.args.num("allsec", 0) != 0;
	const int64_t dayfrom = R.args.num("dayfrom", 0), dayto = R.args.num("dayto", NDAYS - 1);
	if (days_from_civil(1970, 1, 1) != 0 || days_from_civil(2099, 12, 31) != NDAYS - 1 || days_from_civil(2100, 1, 1) != NDAYS) { fprintf(stderr, "oracle self-check failed (range)\n"); return 3; }

#if HAVE_SAN
	std::string errfile;
	if (!R.single) {	// keep the sanitizer's own text (it goes to fd 2) where the death path can read it back
		// UBSan must not die while it still holds its report lock (halt_on_error=1 does that), or the second report would
		// be a "nested bug": the -fno-sanitize-recover handlers die after the report is complete, which is what we catch.
		if (!getenv("C09_REEXEC")) {
			std::string u = getenv("UBSAN_OPTIONS") ? getenv("UBSAN_OPTIONS") : "";
			setenv("UBSAN_OPTIONS", (u + ":halt_on_error=0:print_stacktrace=0").c_str(), 1); setenv("C09_REEXEC", "1", 1);
			// a large quarantine only makes every allocation touch fresh pages; nothing here depends on it
			std::string a = getenv("ASAN_OPTIONS") ? getenv("ASAN_OPTIONS") : ""; setenv("ASAN_OPTIONS", (a + ":quarantine_size_mb=8").c_str(), 1);
			execv("/proc/self/exe", argv);
		}
		install_death_callback();
		char nm[64]; snprintf(nm, sizeof nm, "c09-stderr.%u.%d", R.shard_k, (int)getpid());
		int fd = open(nm, O_RDWR | O_CREAT | O_TRUNC | O_APPEND, 0644);
		if (fd >= 0) { dup2(fd, 2); close(fd); errfile = nm; }
	}
#endif

	if (R.single) {
		// "<CLS|*>,<day>,<sec|->,<ms|*|->"   or   "L,<renderer>,<day>,<second of day>,<ns>,<precision>"
		std::vector<std::string> f; { std::stringstream ss(R.single_case); std::string x; while (std::getline(ss, x, ',')) f.push_back(x); }
		if (f.size() == 6 && f[0] == "L") {
			L l(R);
			l.one((Rend)atoi(f[1].c_str()), atoll(f[2].c_str()), atoi(f[3].c_str()), atoll(f[4].c_str()), (unsigned)atoi(f[5].c_str()));
			R.finish(); return R.violations ? 1 : 0;
		}
		if (f.size() != 4 || !mask_of(f[0])) { fprintf(stderr, "bad case string\n"); return 3; }
		H h(R); Day D;
		if (!make_day(atoll(f[1].c_str()), D)) { fprintf(stderr, "oracle self-check failed for day %s\n", f[1].c_str()); return 3; }
		R.begin_case(R.single_case);
		if (f[2] == "-") h.perday_cases(D, mask_of(f[0]));
		else {
			const int s = atoi(f[2].c_str());
			if (f[3] == "*") for (int msv : MS_A) h.instant(D, s, msv, mask_of(f[0]), msv == 0);
			else h.instant(D, s, atoi(f[3].c_str()), mask_of(f[0]), atoi(f[3].c_str()) == 0);
		}
		R.finish(); return R.violations ? 1 : 0;
	}

	auto oot = [&]() { if (R.deadline && !R.hit_deadline && vh::Run::now() > R.deadline) R.hit_deadline = true; return R.hit_deadline; };
	unsigned long long id = 0;
	bool done = true;

	if (mode == "fields") {
		H h(R);
#if HAVE_SAN
		h.errfile = errfile;
#endif
		const unsigned all = (unsigned)R.args.num("classes", (1u << NCLS) - 1);	// bit mask, debugging aid; the registry never sets it
		long long instants = 0;
		// space A
		for (int64_t day = 0; day < NDAYS; ++day, ++id) {
			if (day < dayfrom || day > dayto || !R.mine(id)) continue;
			if (oot()) { done = false; break; }
			Day D; if (!make_day(day, D)) { fprintf(stderr, "oracle self-check failed for day %lld\n", (long long)day); return 3; }
			char idb[64]; snprintf(idb, sizeof idb, "*,%lld,-,-", (long long)day);
			R.begin_case(idb); --R.evaluations;
			h.perday_cases(D, all);
			for (int s : SECS_A) {
				snprintf(idb, sizeof idb, "*,%lld,%d,*", (long long)day, s);
				R.begin_case(idb); --R.evaluations;
				for (int msv : MS_A) { h.instant(D, s, msv, all, msv == 0); ++instants; }
			}
			if (day == 11016) R.sample("TS,11016,43199,999", "UTCTimestamp 2000-02-29 11:59:59.999: value -> \"20000229-11:59:59.999\" -> value -> text");
			if (day == 47481) R.sample("MY,47481,-,-", "MonthYear 2099-12-31: \"209912\" -> start of month, \"20991231\" -> start of day, and back");
		}
		// space B: first and last day of every month, all remaining seconds; one id per (day, hour)
		if (allsec && done) {
			for (int64_t day = 0; day < NDAYS && done; ++day) {
				int y; unsigned m, d; civil_from_days(day, y, m, d);
				if (d != 1 && d != days_in_month(y, m)) continue;
				for (int hour = 0; hour < 24; ++hour, ++id) {
					if (day < dayfrom || day > dayto || !R.mine(id)) continue;
					if (oot()) { done = false; break; }
					Day D; if (!make_day(day, D)) { fprintf(stderr, "oracle self-check failed for day %lld\n", (long long)day); return 3; }
					for (int s = hour * 3600; s < (hour + 1) * 3600; ++s) {
						if (in_secs_a(s)) continue;
						char idb[64]; snprintf(idb, sizeof idb, "*,%lld,%d,*", (long long)day, s);
						R.begin_case(idb); --R.evaluations;
						for (int msv : MS_A) { h.instant(D, s, msv, all, false); ++instants; }
					}
					if (day == 0 && hour == 23) R.sample("TO,0,86398,500", "UTCTimeOnly 1970-01-01 23:59:58.500 (all-seconds sweep)");
				}
			}
		}
		for (int c = 0; c < NCLS; ++c) {
			R.evaluations += h.cases[c]; R.nontrivial += h.cases[c];
			if (h.ok[c]) R.outcome(std::string(clsname[c]) + ":round-trip-exact", h.ok[c]);
			if (h.cases[c] - h.ok[c]) R.outcome(std::string(clsname[c]) + ":violating", h.cases[c] - h.ok[c]);
		}
		if (h.died) R.outcome("sanitizer-report-caught", h.died);
		for (auto& kv : h.seen)	// totals per violation class (only the first three of each were written out as records)
			R.counters[std::string("violating-cases:") + std::get<0>(kv.first) + "|" + std::get<1>(kv.first) + "|" + clsname[std::get<3>(kv.first)] + " " + std::get<2>(kv.first)
				+ (std::get<4>(kv.first) ? "|epoch_secs_gt_int32max" : "")] += kv.second;
		R.counters["instants"] = instants;
		R.counters["secondary_path_groups"] = h.secondary;
		R.counters["per_day_text_cases"] = h.perday;
	} else if (mode == "log") {
		L l(R);
		static const int MOD[] = { 0, 1439 }, SOM[] = { 0, 58, 59 };
		for (int64_t k = 0; k < 400; ++k, ++id) {
			const int64_t day = k * 119;	// 0 .. 47481
			if (!R.mine(id)) continue;
			if (oot()) { done = false; break; }
			Day D; if (!make_day(day, D)) { fprintf(stderr, "oracle self-check failed for day %lld\n", (long long)day); return 3; }
			for (int mod : MOD) for (int som : SOM) for (int64_t ns : LOGNS) {
				const int sod = mod * 60 + som;
				for (unsigned p = 0; p <= 9; ++p) { l.one(MS_GM, day, sod, ns, p); l.one(MS_LOCAL, day, sod, ns, p); l.one(MS_VALUE_GM, day, sod, ns, p); }
				l.one(TV_LSHIFT, day, sod, ns, 9); l.one(TV_RSHIFT, day, sod, ns, 9); l.one(MINI, day, sod, ns, 0);
			}
			if (k == 100) R.sample("L,0,11900,86399,999500000,3", "GetTimeAsStringMS(gm) precision 3 at 2002-07-31 23:59:59.9995");
		}
		for (int r = 0; r < NREND; ++r) {
			if (l.ok[r]) R.outcome(std::string(rendname[r]) + ":shows-instant", l.ok[r]);
			if (l.bad[r]) R.outcome(std::string(rendname[r]) + ":violating", l.bad[r]);
		}
		R.counters["text_exact"] = l.exact; R.counters["text_truncated"] = l.truncated; R.counters["text_rounded_up"] = l.rounded_up; R.counters["seconds_60"] = l.sec60;
	} else { fprintf(stderr, "unknown mode\n"); return 3; }
	R.finish(done);
	return 0;
}
