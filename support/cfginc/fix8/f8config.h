#ifndef _INCLUDE_FIX__F_CONFIG_H
#define _INCLUDE_FIX__F_CONFIG_H 1
 
/* include/fix8/f8config.h. Generated automatically at end of configure. */
/* intermediate_config.h.  Generated from intermediate_config.h.in by configure.  */
/* intermediate_config.h.in.  Generated from configure.ac by autoheader.  */

//-----------------------------------------------------------------------------------------
/*

Fix8 is released under the GNU LESSER GENERAL PUBLIC LICENSE Version 3.

Fix8 Open Source FIX Engine.
Copyright (C) 2010-19 David L. Dight <fix@fix8.org>

Fix8 is free software: you can redistribute it and/or modify  it under the terms of the GNU
Lesser General Public License as  published by the Free Software Foundation, either version
3 of the License, or (at your option) any later version.

Fix8 is distributed in the hope  that it will be useful, but WITHOUT ANY WARRANTY;  without
even the  implied warranty of MERCHANTABILITY or FITNESS FOR A PARTICULAR PURPOSE.

You should  have received a copy of the GNU Lesser General Public  License along with Fix8.
If not, see <http://www.gnu.org/licenses/>.

BECAUSE THE PROGRAM IS  LICENSED FREE OF  CHARGE, THERE IS NO  WARRANTY FOR THE PROGRAM, TO
THE EXTENT  PERMITTED  BY  APPLICABLE  LAW.  EXCEPT WHEN  OTHERWISE  STATED IN  WRITING THE
COPYRIGHT HOLDERS AND/OR OTHER PARTIES  PROVIDE THE PROGRAM "AS IS" WITHOUT WARRANTY OF ANY
KIND,  EITHER EXPRESSED   OR   IMPLIED,  INCLUDING,  BUT   NOT  LIMITED   TO,  THE  IMPLIED
WARRANTIES  OF MERCHANTABILITY AND FITNESS FOR A PARTICULAR PURPOSE.  THE ENTIRE RISK AS TO
THE QUALITY AND PERFORMANCE OF THE PROGRAM IS WITH YOU. SHOULD THE PROGRAM PROVE DEFECTIVE,
YOU ASSUME THE COST OF ALL NECESSARY SERVICING, REPAIR OR CORRECTION.

IN NO EVENT UNLESS REQUIRED  BY APPLICABLE LAW  OR AGREED TO IN  WRITING WILL ANY COPYRIGHT
HOLDER, OR  ANY OTHER PARTY  WHO MAY MODIFY  AND/OR REDISTRIBUTE  THE PROGRAM AS  PERMITTED
ABOVE,  BE  LIABLE  TO  YOU  FOR  DAMAGES,  INCLUDING  ANY  GENERAL, SPECIAL, INCIDENTAL OR
CONSEQUENTIAL DAMAGES ARISING OUT OF THE USE OR INABILITY TO USE THE PROGRAM (INCLUDING BUT
NOT LIMITED TO LOSS OF DATA OR DATA BEING RENDERED INACCURATE OR LOSSES SUSTAINED BY YOU OR
THIRD PARTIES OR A FAILURE OF THE PROGRAM TO OPERATE WITH ANY OTHER PROGRAMS), EVEN IF SUCH
HOLDER OR OTHER PARTY HAS BEEN ADVISED OF THE POSSIBILITY OF SUCH DAMAGES.

*/
//-----------------------------------------------------------------------------------------

/* Define if building universal (internal helper macro) */
/* #undef AC_APPLE_UNIVERSAL_BUILD */

/* Define to 1 if you wish to enable buffered global logging */
/* #undef BUFFERED_GLOBAL_LOGGING */

/* Define to 1 if the `closedir' function returns void instead of int. */
/* #undef CLOSEDIR_VOID */

/* Define to 1 to enable CODEC timing testing code */
/* #undef CODECTIMING */

/* configure options */
#ifndef FIX8_CONFIGURE_OPTIONS
#define FIX8_CONFIGURE_OPTIONS " 'CXXFLAGS= -Wno-error' 'CFLAGS= -Wno-error'"
#endif

/* Short Date system was configured */
#ifndef FIX8_CONFIGURE_SDATE
#define FIX8_CONFIGURE_SDATE "2026/09/11"
#endif

/* Date system was configured */
#ifndef FIX8_CONFIGURE_TIME
#define FIX8_CONFIGURE_TIME "Fri Sep 11 03:44:41 UTC 2026"
#endif

/* date/time as seconds since start epoch */
#ifndef FIX8_CONFIGURE_TIME_NUM
#define FIX8_CONFIGURE_TIME_NUM 1789098281
#endif

/* compiler spec */
#ifndef FIX8_CPPFLAGS
#define FIX8_CPPFLAGS ""
#endif

/* Define to 1 if using 'alloca.c'. */
/* #undef C_ALLOCA */

/* Define to 1 for debugging support */
/* #undef DEBUG */

/* Default number of precision digits for floating point fields (default=2) */
#ifndef FIX8_DEFAULT_PRECISION
#define FIX8_DEFAULT_PRECISION 2
#endif

/* Define to 1 to enable experimental socket read */
/* #undef EXPERIMENTAL_BUFFERED_SOCKET_READ */

/* Define to 1 if gtest available */
#ifndef FIX8_HAS_GTEST
#define FIX8_HAS_GTEST 1
#endif

/* Define to 1 if Poco available */
#ifndef FIX8_HAS_POCO
#define FIX8_HAS_POCO 1
#endif

/* Define to 1 if you have zeromq */
/* #undef HAS_ZEROMQ_MBUS */

/* Define to 1 if you have the `alarm' function. */
#ifndef FIX8_HAVE_ALARM
#define FIX8_HAVE_ALARM 1
#endif

/* Define to 1 if you have 'alloca', as a function or macro. */
#ifndef FIX8_HAVE_ALLOCA
#define FIX8_HAVE_ALLOCA 1
#endif

/* Define to 1 if you have the <alloca.h> header file. */
#ifndef FIX8_HAVE_ALLOCA_H
#define FIX8_HAVE_ALLOCA_H 1
#endif

/* Define to 1 if you have the <arpa/inet.h> header file. */
/* #undef HAVE_ARPA_INET_H */

/* Define to 1 if you have berkeley DB */
/* #undef HAVE_BDB */

/* Define if you have clock_gettime() */
#ifndef FIX8_HAVE_CLOCK_GETTIME
#define FIX8_HAVE_CLOCK_GETTIME 1
#endif

/* Define if you have clock_nanosleep() */
#ifndef FIX8_HAVE_CLOCK_NANOSLEEP
#define FIX8_HAVE_CLOCK_NANOSLEEP 1
#endif

/* Define to 1 if zlib headers and library were found */
#ifndef FIX8_HAVE_COMPRESSION
#define FIX8_HAVE_COMPRESSION 1
#endif

/* Define to 1 if crypt is present in -lcrypt */
#ifndef FIX8_HAVE_CRYPT
#define FIX8_HAVE_CRYPT 1
#endif

/* Define to 1 if you have the <crypt.h> header file. */
#ifndef FIX8_HAVE_CRYPT_H
#define FIX8_HAVE_CRYPT_H 1
#endif

/* define if the compiler supports basic C++11 syntax */
/* #undef HAVE_CXX11 */

/* Define to 1 if you have the <db.h> header file. */
/* #undef HAVE_DB_H */

/* Define to 1 if you have the declaration of `TCP_CORK', and to 0 if you
   don't. */
#ifndef FIX8_HAVE_DECL_TCP_CORK
#define FIX8_HAVE_DECL_TCP_CORK 1
#endif

/* Define to 1 if you have the <dirent.h> header file, and it defines `DIR'.
   */
#ifndef FIX8_HAVE_DIRENT_H
#define FIX8_HAVE_DIRENT_H 1
#endif

/* Define to 1 if you have the <dlfcn.h> header file. */
#ifndef FIX8_HAVE_DLFCN_H
#define FIX8_HAVE_DLFCN_H 1
#endif

/* Define to 1 if you have extended Fix8 metadata enabled */
/* #undef HAVE_EXTENDED_METADATA */

/* Define to 1 if you have the <fcntl.h> header file. */
/* #undef HAVE_FCNTL_H */

/* Define to 1 if you have the `fork' function. */
#ifndef FIX8_HAVE_FORK
#define FIX8_HAVE_FORK 1
#endif

/* Define to 1 if you have the `getcwd' function. */
#ifndef FIX8_HAVE_GETCWD
#define FIX8_HAVE_GETCWD 1
#endif

/* Define to 1 if you have the <getopt.h> header file. */
#ifndef FIX8_HAVE_GETOPT_H
#define FIX8_HAVE_GETOPT_H 1
#endif

/* Define to 1 if you have the `getopt_long' function. */
#ifndef FIX8_HAVE_GETOPT_LONG
#define FIX8_HAVE_GETOPT_LONG 1
#endif

/* Define to 1 if you have the `getpagesize' function. */
#ifndef FIX8_HAVE_GETPAGESIZE
#define FIX8_HAVE_GETPAGESIZE 1
#endif

/* Define to 1 if you have the `gettimeofday' function. */
#ifndef FIX8_HAVE_GETTIMEOFDAY
#define FIX8_HAVE_GETTIMEOFDAY 1
#endif

/* Define to 1 if you have the <inttypes.h> header file. */
#ifndef FIX8_HAVE_INTTYPES_H
#define FIX8_HAVE_INTTYPES_H 1
#endif

/* Define to 1 if you have libhiredis */
/* #undef HAVE_LIBHIREDIS */

/* Define to 1 if you have libmemcached */
/* #undef HAVE_LIBMEMCACHED */

/* Define to 1 if libz is present */
#ifndef FIX8_HAVE_LIBZ
#define FIX8_HAVE_LIBZ 1
#endif

/* Define to 1 if you have the <limits.h> header file. */
/* #undef HAVE_LIMITS_H */

/* Define to 1 if you have the `localtime_r' function. */
#ifndef FIX8_HAVE_LOCALTIME_R
#define FIX8_HAVE_LOCALTIME_R 1
#endif

/* Define to 1 if the system has the type `long long int'. */
#ifndef FIX8_HAVE_LONG_LONG_INT
#define FIX8_HAVE_LONG_LONG_INT 1
#endif

/* Define to 1 if your system has a GNU libc compatible `malloc' function, and
   to 0 otherwise. */
#ifndef FIX8_HAVE_MALLOC
#define FIX8_HAVE_MALLOC 1
#endif

/* Define to 1 if you have a working `mmap' system call. */
#ifndef FIX8_HAVE_MMAP
#define FIX8_HAVE_MMAP 1
#endif

/* Define to 1 if you have the <ndir.h> header file, and it defines `DIR'. */
/* #undef HAVE_NDIR_H */

/* Define to 1 if you have the <netdb.h> header file. */
/* #undef HAVE_NETDB_H */

/* Define to 1 if you have the <netinet/in.h> header file. */
/* #undef HAVE_NETINET_IN_H */

/* Define to 1 if you have openssl */
/* #undef HAVE_OPENSSL */

/* Define to 1 if you have the <openssl/ssl.h> header file. */
/* #undef HAVE_OPENSSL_SSL_H */

/* Define to 1 if you have the `popen' function. */
#ifndef FIX8_HAVE_POPEN
#define FIX8_HAVE_POPEN 1
#endif

/* Have PTHREAD_PRIO_INHERIT. */
/* #undef HAVE_PTHREAD_PRIO_INHERIT */

/* Define to 1 if the system has the type `ptrdiff_t'. */
#ifndef FIX8_HAVE_PTRDIFF_T
#define FIX8_HAVE_PTRDIFF_T 1
#endif

/* Define to 1 if you have the `random' function. */
#ifndef FIX8_HAVE_RANDOM
#define FIX8_HAVE_RANDOM 1
#endif

/* Define to 1 if your system has a GNU libc compatible `realloc' function,
   and to 0 otherwise. */
#ifndef FIX8_HAVE_REALLOC
#define FIX8_HAVE_REALLOC 1
#endif

/* Define to 1 if you have the `regcomp' function. */
#ifndef FIX8_HAVE_REGCOMP
#define FIX8_HAVE_REGCOMP 1
#endif

/* Define to 1 if you have the <regex.h> header file. */
/* #undef HAVE_REGEX_H */

/* Define to 1 if you have the <select.h> header file. */
/* #undef HAVE_SELECT_H */

/* Define to 1 if you have the <signal.h> header file. */
/* #undef HAVE_SIGNAL_H */

/* Define to 1 if you have the `socket' function. */
#ifndef FIX8_HAVE_SOCKET
#define FIX8_HAVE_SOCKET 1
#endif

/* Define to 1 if you have the `srandom' function. */
#ifndef FIX8_HAVE_SRANDOM
#define FIX8_HAVE_SRANDOM 1
#endif

/* Define to 1 if `stat' has the bug that it succeeds when given the
   zero-length file name argument. */
/* #undef HAVE_STAT_EMPTY_STRING_BUG */

/* Define to 1 if stdbool.h conforms to C99. */
#ifndef FIX8_HAVE_STDBOOL_H
#define FIX8_HAVE_STDBOOL_H 1
#endif

/* Define to 1 if you have the <stdint.h> header file. */
#ifndef FIX8_HAVE_STDINT_H
#define FIX8_HAVE_STDINT_H 1
#endif

/* Define to 1 if you have the <stdio.h> header file. */
#ifndef FIX8_HAVE_STDIO_H
#define FIX8_HAVE_STDIO_H 1
#endif

/* Define to 1 if you have the <stdlib.h> header file. */
#ifndef FIX8_HAVE_STDLIB_H
#define FIX8_HAVE_STDLIB_H 1
#endif

/* Define to 1 if you have the `strcasecmp' function. */
#ifndef FIX8_HAVE_STRCASECMP
#define FIX8_HAVE_STRCASECMP 1
#endif

/* Define to 1 if you have the `strcoll' function and it is properly defined.
   */
#ifndef FIX8_HAVE_STRCOLL
#define FIX8_HAVE_STRCOLL 1
#endif

/* Define to 1 if you have the `strerror' function. */
#ifndef FIX8_HAVE_STRERROR
#define FIX8_HAVE_STRERROR 1
#endif

/* Define to 1 if you have the `strftime' function. */
#ifndef FIX8_HAVE_STRFTIME
#define FIX8_HAVE_STRFTIME 1
#endif

/* Define to 1 if you have the <strings.h> header file. */
#ifndef FIX8_HAVE_STRINGS_H
#define FIX8_HAVE_STRINGS_H 1
#endif

/* Define to 1 if you have the <string.h> header file. */
#ifndef FIX8_HAVE_STRING_H
#define FIX8_HAVE_STRING_H 1
#endif

/* Define to 1 if you have the `strtol' function. */
#ifndef FIX8_HAVE_STRTOL
#define FIX8_HAVE_STRTOL 1
#endif

/* Define to 1 if you have the `strtoul' function. */
#ifndef FIX8_HAVE_STRTOUL
#define FIX8_HAVE_STRTOUL 1
#endif

/* Define to 1 if you have the `sysconf' function. */
#ifndef FIX8_HAVE_SYSCONF
#define FIX8_HAVE_SYSCONF 1
#endif

/* Define to 1 if you have the <syslog.h> header file. */
/* #undef HAVE_SYSLOG_H */

/* Define to 1 if you have the <sys/dir.h> header file, and it defines `DIR'.
   */
/* #undef HAVE_SYS_DIR_H */

/* Define to 1 if you have the <sys/gmon.h> header file. */
/* #undef HAVE_SYS_GMON_H */

/* Define to 1 if you have the <sys/ioctl.h> header file. */
/* #undef HAVE_SYS_IOCTL_H */

/* Define to 1 if you have the <sys/ndir.h> header file, and it defines `DIR'.
   */
/* #undef HAVE_SYS_NDIR_H */

/* Define to 1 if you have the <sys/param.h> header file. */
#ifndef FIX8_HAVE_SYS_PARAM_H
#define FIX8_HAVE_SYS_PARAM_H 1
#endif

/* Define to 1 if you have the <sys/socket.h> header file. */
/* #undef HAVE_SYS_SOCKET_H */

/* Define to 1 if you have the <sys/stat.h> header file. */
#ifndef FIX8_HAVE_SYS_STAT_H
#define FIX8_HAVE_SYS_STAT_H 1
#endif

/* Define to 1 if you have the <sys/time.h> header file. */
#ifndef FIX8_HAVE_SYS_TIME_H
#define FIX8_HAVE_SYS_TIME_H 1
#endif

/* Define to 1 if you have the <sys/types.h> header file. */
#ifndef FIX8_HAVE_SYS_TYPES_H
#define FIX8_HAVE_SYS_TYPES_H 1
#endif

/* Define to 1 if you have the <sys/wait.h> header file. */
#ifndef FIX8_HAVE_SYS_WAIT_H
#define FIX8_HAVE_SYS_WAIT_H 1
#endif

/* Define to 1 if you have the <termios.h> header file. */
/* #undef HAVE_TERMIOS_H */

/* Define to 1 if you have the <time.h> header file. */
/* #undef HAVE_TIME_H */

/* Define to 1 if you have the <unistd.h> header file. */
#ifndef FIX8_HAVE_UNISTD_H
#define FIX8_HAVE_UNISTD_H 1
#endif

/* Define to 1 if the system has the type `unsigned long long int'. */
#ifndef FIX8_HAVE_UNSIGNED_LONG_LONG_INT
#define FIX8_HAVE_UNSIGNED_LONG_LONG_INT 1
#endif

/* Define to 1 for valgrind support */
/* #undef HAVE_VALGRIND */

/* Define to 1 if you have the <valgrind/valgrind.h> header file. */
/* #undef HAVE_VALGRIND_VALGRIND_H */

/* Define to 1 if you have /var/run */
#ifndef FIX8_HAVE_VAR_RUN
#define FIX8_HAVE_VAR_RUN 1
#endif

/* Define to 1 if you have the `vfork' function. */
#ifndef FIX8_HAVE_VFORK
#define FIX8_HAVE_VFORK 1
#endif

/* Define to 1 if you have the <vfork.h> header file. */
/* #undef HAVE_VFORK_H */

/* Define to 1 if `fork' works. */
#ifndef FIX8_HAVE_WORKING_FORK
#define FIX8_HAVE_WORKING_FORK 1
#endif

/* Define to 1 if `vfork' works. */
#ifndef FIX8_HAVE_WORKING_VFORK
#define FIX8_HAVE_WORKING_VFORK 1
#endif

/* Define to 1 if you have the <zlib.h> header file. */
#ifndef FIX8_HAVE_ZLIB_H
#define FIX8_HAVE_ZLIB_H 1
#endif

/* Define to 1 if the system has the type `_Bool'. */
#ifndef FIX8_HAVE__BOOL
#define FIX8_HAVE__BOOL 1
#endif

/* Default system */
#ifndef FIX8_HOST_SYSTEM
#define FIX8_HOST_SYSTEM "x86_64-pc-linux-gnu"
#endif

/* Additional library flags */
#ifndef FIX8_LDFLAGS
#define FIX8_LDFLAGS ""
#endif

/* Library spec */
#ifndef FIX8_LIBS
#define FIX8_LIBS " -ltcmalloc_minimal"
#endif

/* Define to 1 if `lstat' dereferences a symlink specified with a trailing
   slash. */
#ifndef FIX8_LSTAT_FOLLOWS_SLASHED_SYMLINK
#define FIX8_LSTAT_FOLLOWS_SLASHED_SYMLINK 1
#endif

/* Define to the sub-directory where libtool stores uninstalled libraries. */
#ifndef FIX8_LT_OBJDIR
#define FIX8_LT_OBJDIR ".libs/"
#endif

/* Encode version */
#ifndef FIX8_MAGIC_NUM
#define FIX8_MAGIC_NUM 16793603
#endif

/* Encoded Version as expresion */
#ifndef FIX8_MAGIC_NUM_EXPR
#define FIX8_MAGIC_NUM_EXPR (FIX8_MAJOR_VERSION_NUM << 24 | FIX8_MINOR_VERSION_NUM << 12 | FIX8_PATCH_VERSION_NUM)
#endif

/* Major version number */
#ifndef FIX8_MAJOR_VERSION_NUM
#define FIX8_MAJOR_VERSION_NUM 1
#endif

/* std malloc */
#ifndef FIX8_MALLOC_STD
#define FIX8_MALLOC_STD 3
#endif

/* malloc system to use */
#ifndef FIX8_MALLOC_SYSTEM
#define FIX8_MALLOC_SYSTEM FIX8_MALLOC_TCMALLOC
#endif

/* TBB malloc */
#ifndef FIX8_MALLOC_TBB
#define FIX8_MALLOC_TBB 1
#endif

/* tcmalloc */
#ifndef FIX8_MALLOC_TCMALLOC
#define FIX8_MALLOC_TCMALLOC 2
#endif

/* Maximum length of a FIX field (default=2048) */
#ifndef FIX8_MAX_FLD_LENGTH
#define FIX8_MAX_FLD_LENGTH 2048
#endif

/* Maximum length of a FIX message (default=8192) */
#ifndef FIX8_MAX_MSG_LENGTH
#define FIX8_MAX_MSG_LENGTH 8192
#endif

/* Minor version number */
#ifndef FIX8_MINOR_VERSION_NUM
#define FIX8_MINOR_VERSION_NUM 4
#endif

/* FIX8_FF MPMC */
#ifndef FIX8_MPMC_FF
#define FIX8_MPMC_FF 2
#endif

/* MPMC system used */
#ifndef FIX8_MPMC_SYSTEM
#define FIX8_MPMC_SYSTEM FIX8_MPMC_FF
#endif

/* FIX8_TBB MPMC */
#ifndef FIX8_MPMC_TBB
#define FIX8_MPMC_TBB 1
#endif

/* Name of package */
#ifndef FIX8_PACKAGE
#define FIX8_PACKAGE "fix8"
#endif

/* Define to the address where bug reports for this package should be sent. */
#ifndef FIX8_PACKAGE_BUGREPORT
#define FIX8_PACKAGE_BUGREPORT "fix@fix8.org"
#endif

/* Define to the full name of this package. */
#ifndef FIX8_PACKAGE_NAME
#define FIX8_PACKAGE_NAME "fix8"
#endif

/* Define to the full name and version of this package. */
#ifndef FIX8_PACKAGE_STRING
#define FIX8_PACKAGE_STRING "fix8 1.4.3"
#endif

/* Define to the one symbol short name of this package. */
#ifndef FIX8_PACKAGE_TARNAME
#define FIX8_PACKAGE_TARNAME "fix8"
#endif

/* Define to the home page for this package. */
#ifndef FIX8_PACKAGE_URL
#define FIX8_PACKAGE_URL "http://www.fix8.org"
#endif

/* Define to the version of this package. */
#ifndef FIX8_PACKAGE_VERSION
#define FIX8_PACKAGE_VERSION "1.4.3"
#endif

/* Patch number */
#ifndef FIX8_PATCH_VERSION_NUM
#define FIX8_PATCH_VERSION_NUM 3
#endif

/* Define to 1 to enable metatdata population in encode/decodes */
/* #undef POPULATE_METADATA */

/* Define to 1 if you wish to pre-encode (prepare) message support */
/* #undef PREENCODE_MSG_SUPPORT */

/* Define to 1 if your os supports gprof and you wish to enable profiling */
/* #undef PROFILING_BUILD */

/* Define to necessary symbol if this constant uses a non-standard name on
   your system. */
/* #undef PTHREAD_CREATE_JOINABLE */

/* Define to 1 if you wish to enable raw FIX message support */
/* #undef RAW_MSG_SUPPORT */

/* Poco regex system */
#ifndef FIX8_REGEX_POCO
#define FIX8_REGEX_POCO 1
#endif

/* regex.h regex system */
#ifndef FIX8_REGEX_REGEX_H
#define FIX8_REGEX_REGEX_H 2
#endif

/* regex.h system used */
#ifndef FIX8_REGEX_SYSTEM
#define FIX8_REGEX_SYSTEM FIX8_REGEX_REGEX_H
#endif

/* Percentage of message fields to reserve for additional fields */
#ifndef FIX8_RESERVE_PERCENT
#define FIX8_RESERVE_PERCENT 30
#endif

/* The size of `unsigned long', as computed by sizeof. */
#ifndef FIX8_SIZEOF_UNSIGNED_LONG
#define FIX8_SIZEOF_UNSIGNED_LONG 8
#endif

/* Define to 1 if when using fastflow, sleep for VAL ns instead of yield when
   waiting for input */
/* #undef SLEEP_NO_YIELD */

/* If using the C implementation of alloca, define if you know the
   direction of stack growth for your system; otherwise it will be
   automatically deduced at runtime.
	STACK_DIRECTION > 0 => grows toward higher addresses
	STACK_DIRECTION < 0 => grows toward lower addresses
	STACK_DIRECTION = 0 => direction of growth unknown */
/* #undef STACK_DIRECTION */

/* Define to 1 if all of the C90 standard headers exist (not just the ones
   required in a freestanding environment). This macro is provided for
   backward compatibility; new code need not use it. */
#ifndef FIX8_STDC_HEADERS
#define FIX8_STDC_HEADERS 1
#endif

/* Location of the system config directory */
#ifndef FIX8_SYSCONFDIR
#define FIX8_SYSCONFDIR "/etc"
#endif

/* pthread thread system */
#ifndef FIX8_THREAD_PTHREAD
#define FIX8_THREAD_PTHREAD 2
#endif

/* std::thread thread system */
#ifndef FIX8_THREAD_STDTHREAD
#define FIX8_THREAD_STDTHREAD 4
#endif

/* pthread used for threading */
#ifndef FIX8_THREAD_SYSTEM
#define FIX8_THREAD_SYSTEM FIX8_THREAD_PTHREAD
#endif

/* Define to 1 if your <sys/time.h> declares `struct tm'. */
/* #undef TM_IN_SYS_TIME */

/* Define to 1 to enable rdtsc for interval timer if available */
/* #undef USE_RDTSC */

/* Define to 1 if using float precision */
/* #undef USE_SINGLE_PRECISION */

/* Version number of package */
#ifndef FIX8_VERSION
#define FIX8_VERSION "1.4.3"
#endif

/* Define WORDS_BIGENDIAN to 1 if your processor stores words with the most
   significant byte first (like Motorola and SPARC, unlike Intel). */
#if defined AC_APPLE_UNIVERSAL_BUILD
# if defined __BIG_ENDIAN__
#  define WORDS_BIGENDIAN 1
# endif
#else
# ifndef WORDS_BIGENDIAN
/* #  undef WORDS_BIGENDIAN */
# endif
#endif

/* Define to 1 if you wish to enforce strict bool */
/* #undef XMLENTITY_STRICT_BOOL */

/* Define for Solaris 2.5.1 so the uint32_t typedef from <sys/synch.h>,
   <pthread.h>, or <semaphore.h> is not used. If the typedef were allowed, the
   #define below would cause a syntax error. */
/* #undef _UINT32_T */

/* Define for Solaris 2.5.1 so the uint64_t typedef from <sys/synch.h>,
   <pthread.h>, or <semaphore.h> is not used. If the typedef were allowed, the
   #define below would cause a syntax error. */
/* #undef _UINT64_T */

/* Define for Solaris 2.5.1 so the uint8_t typedef from <sys/synch.h>,
   <pthread.h>, or <semaphore.h> is not used. If the typedef were allowed, the
   #define below would cause a syntax error. */
/* #undef _UINT8_T */

/* Define to empty if `const' does not conform to ANSI C. */
/* #undef const */

/* Define to `__inline__' or `__inline' if that's what the C compiler
   calls it, or to nothing if 'inline' is not supported under any name.  */
#ifndef __cplusplus
/* #undef inline */
#endif

/* Define to rpl_malloc if the replacement function should be used. */
/* #undef malloc */

/* Define to `long int' if <sys/types.h> does not define. */
/* #undef off_t */

/* Define as a signed integer type capable of holding a process identifier. */
/* #undef pid_t */

/* Define to rpl_realloc if the replacement function should be used. */
/* #undef realloc */

/* Define to `unsigned int' if <sys/types.h> does not define. */
/* #undef size_t */

/* Define to the type of an unsigned integer type of width exactly 16 bits if
   such a type exists and the standard includes do not define it. */
/* #undef uint16_t */

/* Define to the type of an unsigned integer type of width exactly 32 bits if
   such a type exists and the standard includes do not define it. */
/* #undef uint32_t */

/* Define to the type of an unsigned integer type of width exactly 64 bits if
   such a type exists and the standard includes do not define it. */
/* #undef uint64_t */

/* Define to the type of an unsigned integer type of width exactly 8 bits if
   such a type exists and the standard includes do not define it. */
/* #undef uint8_t */

/* Define as `fork' if `vfork' does not work. */
/* #undef vfork */
 
/* once: _INCLUDE_FIX__F_CONFIG_H */
#endif
