#!/bin/bash
# sync_alt.sh <alt tree>: bring a scratch copy of the fix8 sources up to /repo's working tree without touching the
# timestamps of unchanged files (so that the incremental build of the copy stays incremental)
A=$1; mkdir -p "$A"
for d in runtime include compiler schema; do
  rsync -rc --delete --include='*/' --include='*.cpp' --include='*.hpp' --include='*.h' --include='*.c' --include='*.xml' --exclude='*' /repo/$d "$A/"
done
