"""Registry of checks: property id -> parts (harness binary + bounds per tier) and manifest texts.
   MANIFEST.json is generated from this file by vp/mkmanifest.py so the two cannot drift apart."""

CHECKS = {}


def check(pid, **kw):
    CHECKS[pid] = kw



def _load():
    import os, importlib.util, sys
    d = os.path.join(os.path.dirname(os.path.abspath(__file__)), 'checks')
    sys.modules.setdefault('registry', sys.modules[__name__])
    for f in sorted(os.listdir(d)):
        if f.endswith('.py'):
            spec = importlib.util.spec_from_file_location('checks_' + f[:-3], os.path.join(d, f))
            m = importlib.util.module_from_spec(spec)
            spec.loader.exec_module(m)


# ---------------------------------------------------------------------------------------------------------
NOT_APPLICABLE = {}
HOOK_COMMITS = []
ENGINES = [
    dict(name='enum', path='engines/vh.hpp + harness/c07_chksum.cpp, c08_numeric.cpp, c09_datetime.cpp, c24_schedule.cpp, c29_rotation.cpp, c32_xml.cpp', serves_properties=['C07', 'C08', 'C09', 'C24', 'C29', 'C32'],
         kind_free_text='exhaustive enumeration of a stated finite input lattice over the real code, sharded over 16 processes; sanitizers and guard pages as oracles'),
    dict(name='msggen+refcodec', path='engines/explore/msggen.hpp, engines/explore/schema.hpp, vp/schema_model.py + harness/codec_lattice.cpp', serves_properties=['C01', 'C02', 'C11'],
         kind_free_text='message lattice built from an independent model of the schema XML, real encoder/decoder/clone, independent tokenizer as oracle'),
    dict(name='sim', path='engines/sim/sim.cpp, sim.hpp, world.hpp', serves_properties=['C15', 'C16', 'C17', 'C18', 'C19', 'C20', 'C22', 'C23', 'C26', 'C27'],
         kind_free_text='deterministic single-threaded runtime: virtual clock, threads registered but never run, scripted Poco socket handed to the real Connection/Session, interposed file system calls'),
    dict(name='bfs', path='engines/explore/bfs.hpp + harness/session_*.cpp, persist_check.cpp', serves_properties=['C16', 'C17', 'C19', 'C20', 'C22', 'C26'],
         kind_free_text='explicit-state breadth-first search: state = event history replayed on a fresh real object, deduplicated by a canonical key, reference model compared at every step'),
    dict(name='sched', path='engines/sched/sched.cpp, sched.h, explore.hpp, ff_shim.hpp + harness/c28_logger.cpp, c30_mpmc.cpp', serves_properties=['C28', 'C30'],
         kind_free_text='cooperative scheduler (one futex baton, points at pthread create/join, locks, yields, sleeps and every FastFlow atomic) and iterative preemption-bounded depth-first explorer; executions run in process while none fails, in forked children from the first failing one on'),
]

_load()
