"""Registry of checks: property id -> parts (harness binary + bounds per tier) and manifest texts.
   MANIFEST.json is generated from this file by vp/mkmanifest.py so the two cannot drift apart."""

CHECKS = {}


def check(pid, **kw):
    CHECKS[pid] = kw



def _load():
    import os, importlib.util, sys
    d = os.path.join(os.path.dirname(os.path.abspath(__file__)), 'checks')
    sys.modules.setdefault('registry', sys.modules[__name__])
    for f in sorted(os.listdir(d)):
        if f.endswith('.py'):
            spec = importlib.util.spec_from_file_location('checks_' + f[:-3], os.path.join(d, f))
            m = importlib.util.module_from_spec(spec)
            spec.loader.exec_module(m)


# ---------------------------------------------------------------------------------------------------------
NOT_APPLICABLE = {}
# checks whose files exist but which are not claimed yet (listed under not_applicable with the reason given)
PENDING = {}
HOOK_COMMITS = ['c08508c']   # verif hook: scheduling point in SWSR_Ptr_Buffer::reset (guard FIX8_VERIF + FIX8_VERIF_POINT, used by harness/c30_mpmc.cpp only)
ENGINES = [
    dict(name='enum', path='engines/vh.hpp + harness/c07_chksum.cpp, c08_numeric.cpp, c09_datetime.cpp, c10_realm.cpp, c12_lookup.cpp, c24_schedule.cpp, c29_rotation.cpp, c32_xml.cpp', serves_properties=['C07', 'C08', 'C09', 'C10', 'C12', 'C24', 'C29', 'C32'],
         kind_free_text='exhaustive enumeration of a stated finite input lattice over the real code, sharded over 16 processes; sanitizers and guard pages as oracles'),
    dict(name='msggen+refcodec', path='engines/explore/msggen.hpp, engines/explore/schema.hpp, engines/explore/fixedit.hpp, vp/schema_model.py + harness/codec_lattice.cpp, c03_total.cpp, c04_strict.cpp, c05_permissive.cpp, c06_data.cpp', serves_properties=['C01', 'C02', 'C03', 'C04', 'C05', 'C06', 'C11'],
         kind_free_text='message lattice built from an independent model of the schema XML, real encoder/decoder/clone, independent tokenizer, serializer and reference acceptor as oracles; token-level edits of serialized messages'),
    dict(name='schemagen', path='vp/schemagen.py, vp/sgrun.py, harness/schemagen_harness.cpp, harness/c14_hashtool.cpp', serves_properties=['C13', 'C14'],
         kind_free_text='complete enumeration of a bounded grammar of schemas (programs); each is compiled by the freshly built f8c, its output compiled and judged against the independent schema model (metadata read-back and the codec oracles on the message lattice of that schema)'),
    dict(name='sim', path='engines/sim/sim.cpp, sim.hpp, world.hpp', serves_properties=['C15', 'C16', 'C17', 'C18', 'C19', 'C20', 'C21', 'C22', 'C23', 'C26', 'C27'],
         kind_free_text='deterministic single-threaded runtime: virtual clock, threads registered but never run, scripted Poco socket handed to the real Connection/Session, interposed file system calls'),
    dict(name='bfs', path='engines/explore/bfs.hpp + harness/session_*.cpp, persist_check.cpp, c12_pset.cpp', serves_properties=['C12', 'C16', 'C17', 'C19', 'C20', 'C21', 'C22', 'C26'],
         kind_free_text='explicit-state breadth-first search: state = event history replayed on a fresh real object, deduplicated by a canonical key, reference model compared at every step'),
    dict(name='sched', path='engines/sched/sched.cpp, sched.h, explore.hpp, ff_shim.hpp + harness/c15_two_readers.cpp, c25_senders.cpp, c28_logger.cpp, c30_mpmc.cpp, c31_timer.cpp', serves_properties=['C15', 'C16', 'C17', 'C25', 'C28', 'C30', 'C31'],
         kind_free_text='cooperative scheduler (one futex baton; points at pthread create/join, locks, yields, sleeps on a virtual clock, socket and file system calls of the harness, and before and after every FastFlow atomic) and iterative preemption-bounded depth-first explorer; executions run in process on recycled OS threads while none fails, in forked children from the first failing one on; a tsan variant repeats the schedules under ThreadSanitizer'),
]

_load()
for _k in list(PENDING):
    if _k in CHECKS:
        NOT_APPLICABLE[_k] = PENDING[_k]
CLAIMED = {k: v for k, v in CHECKS.items() if k not in PENDING}
