"""Registry of checks: property id -> parts (harness binary + bounds per tier) and manifest texts.
   MANIFEST.json is generated from this file by vp/mkmanifest.py so the two cannot drift apart."""

CHECKS = {}


def check(pid, **kw):
    CHECKS[pid] = kw



def _load():
    import os, importlib.util, sys
    d = os.path.join(os.path.dirname(os.path.abspath(__file__)), 'checks')
    sys.modules.setdefault('registry', sys.modules[__name__])
    for f in sorted(os.listdir(d)):
        if f.endswith('.py'):
            spec = importlib.util.spec_from_file_location('checks_' + f[:-3], os.path.join(d, f))
            m = importlib.util.module_from_spec(spec)
            spec.loader.exec_module(m)


# ---------------------------------------------------------------------------------------------------------
NOT_APPLICABLE = {}
HOOK_COMMITS = []
ENGINES = [
    dict(name='enum', path='engines/vh.hpp + harness/c0*_*.cpp', serves_properties=['C07'],
         kind_free_text='exhaustive enumeration of a stated finite input lattice over the real code, sharded over 16 processes; sanitizers and guard pages as oracles'),
]

_load()
