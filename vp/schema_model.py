#!/usr/bin/env python3
"""Independent reader of a fix8/QuickFIX-style schema XML -> flat text model for the C++ harnesses (DESIGN §2.6).
   Deliberately boring: xml.etree, components expanded in place, nothing shared with f8c or the generated tables.

   usage: schema_model.py <schema.xml> <out.model> [--xfields "<field .../>..."]

   Output lines (space separated; free text is hex-encoded):
     S <major> <minor> <beginstring-hex>
     F <num> <name> <TYPE> <realm: - | set | range> <nvalues>
     V <num> <value-hex> <description-hex> <range: - | lower | upper>
     M <msgtype-hex> <name> <admin 0|1>            then its members, depth-first:
     m <depth> <tag> <mandatory 0|1> <kind f|g>     depth 0 = message body; members of a group have depth+1 and follow it
     H / T   (header / trailer)                      followed by m lines likewise
   'mandatory' semantics (reference): required='Y' on the member and on every enclosing component reference; inside a
   repeating group the flag is relative to one element of the group."""
import sys, xml.etree.ElementTree as ET


def hx(s):
    return s.encode('latin-1', 'replace').hex() or '-'


class Model:
    def __init__(self, path, xfields=None):
        self.root = ET.parse(path).getroot()
        self.fields = {}      # name -> (num, type, realm, values)
        self.bynum = {}
        for f in self.root.find('fields').findall('field'):
            num, name, typ = int(f.get('number').strip()), f.get('name').strip(), f.get('type').strip().upper()
            vals, realm = [], '-'
            for v in f.findall('value'):
                e = v.get('enum')
                if e is None:
                    continue
                d = v.get('description') or e
                r = v.get('range')
                r = r if r in ('lower', 'upper') else '-'
                if r != '-':
                    realm = 'range'
                vals.append((e, d, r))
            if vals and realm == '-':
                realm = 'set'
            self.fields[name] = (num, typ, realm, vals)
            self.bynum[num] = name
        self.components = {}
        comps = self.root.find('components')
        if comps is not None:
            for c in comps.findall('component'):
                self.components[c.get('name').strip()] = c
        self.xf = []   # (num, name, type, {msgname: required})
        if xfields:
            xr = ET.fromstring('<x>' + xfields + '</x>')
            for f in xr.findall('field'):
                num, name, typ = int(f.get('number')), f.get('name').strip(), f.get('type').strip().upper()
                self.fields[name] = (num, typ, '-', [])
                self.bynum[num] = name
                mm = {}
                for tok in (f.get('messages') or '').split():
                    mn, _, rq = tok.partition(':')
                    mm[mn] = rq.upper().startswith('Y')
                self.xf.append((num, name, typ, mm))

    def members(self, elem, depth, req_ctx, out, stack=()):
        for ch in elem:
            tag = ch.tag
            req = (ch.get('required') or 'N').strip().upper().startswith('Y')
            if tag == 'field':
                out.append((depth, self.fields[ch.get('name').strip()][0], int(req and req_ctx), 'f'))
            elif tag == 'group':
                out.append((depth, self.fields[ch.get('name').strip()][0], int(req and req_ctx), 'g'))
                self.members(ch, depth + 1, True, out, stack)    # flags inside a group are relative to one element
            elif tag == 'component':
                name = ch.get('name').strip()
                if name in stack:
                    raise SystemExit('recursive component ' + name)
                self.members(self.components[name], depth, req and req_ctx, out, stack + (name,))

    def dump(self, o):
        r = self.root
        major, minor = r.get('major'), r.get('minor')
        typ = r.get('type', 'FIX')
        bs = '%s.%s.%s' % (typ, major, minor)
        o.write('S %s %s %s\n' % (major, minor, hx(bs)))
        for name, (num, typ, realm, vals) in sorted(self.fields.items(), key=lambda kv: kv[1][0]):
            o.write('F %d %s %s %s %d\n' % (num, name, typ, realm, len(vals)))
            for (e, d, rg) in vals:
                o.write('V %d %s %s %s\n' % (num, hx(e), hx(d), rg))
        for sect, key in (('header', 'H'), ('trailer', 'T')):
            o.write(key + '\n')
            out = []
            self.members(r.find(sect), 0, True, out)
            for m in out:
                o.write('m %d %d %d %s\n' % m)
        for msg in r.find('messages').findall('message'):
            name = msg.get('name').strip()
            o.write('M %s %s %d\n' % (hx(msg.get('msgtype').strip()), name, 1 if (msg.get('msgcat') or '').strip().lower() == 'admin' else 0))
            out = []
            # -F extra fields: f8c inserts them into the message element with sequence 0, i.e. in front of the
            # schema's own members, ordered among themselves by field number (placement is not documented; mirrored here)
            for (num, fname, typ, mm) in sorted(self.xf):
                if name in mm:
                    out.append((0, num, int(mm[name]), 'f'))
            self.members(msg, 0, True, out)
            for m in out:
                o.write('m %d %d %d %s\n' % m)


if __name__ == '__main__':
    a = sys.argv[1:]
    xf = None
    if '--xfields' in a:
        i = a.index('--xfields')
        xf = a[i + 1]
        del a[i:i + 2]
    m = Model(a[0], xf)
    with open(a[1], 'w') as o:
        m.dump(o)
