#!/usr/bin/env python3
"""Regenerates /verif/MANIFEST.json from vp/registry.py (run after editing the registry)."""
import json, os, sys
VERIF = os.path.dirname(os.path.dirname(os.path.abspath(__file__)))
sys.path.insert(0, os.path.join(VERIF, 'vp'))
from registry import CLAIMED as CHECKS, NOT_APPLICABLE, ENGINES, HOOK_COMMITS

props = [json.loads(l) for l in open(os.path.join(VERIF, 'properties.jsonl'))]
ids = [p['id'] for p in props]
m = {
    'version': 1,
    'setup_cmd': 'python3 vp/check.py --setup',
    'hooks': {
        'guard': 'FIX8_VERIF',
        'enable': 'one source hook: include/fix8/ff/buffer.hpp SWSR_Ptr_Buffer::reset() calls FIX8_VERIF_POINT(9031) when the translation unit defines '
                  'FIX8_VERIF and FIX8_VERIF_POINT; only harness/c30_mpmc.cpp does (a scheduling point in front of the wipe of a recycled queue segment, '
                  'which for segments of up to 512 slots is a plain loop that cannot be interposed). Every other seam is link-time interposition in the harness '
                  'executables (clock, pthread, file system calls, Poco SocketImpl subclass), -fno-access-control, and -include engines/sched/ff_shim.hpp '
                  'which wraps FastFlow\'s atomics in scheduling points; libfix8 itself is never built with the guard on',
        'baseline_off_cmd': 'make -C /repo -k check',
        'source_commits': HOOK_COMMITS,
        'add_only': True,
    },
    'engines': ENGINES,
    'checks': [],
    'not_applicable': [],
    'notes': 'All checks: python3 vp/check.py <ID> quick|thorough. Exit 0 held (KNOWN-FINDING lines allowed), 1 VIOLATION, 2 no verdict '
             '(build failure / nondeterministic replay). known_findings.txt lists recorded defects and fixed: entries. See DESIGN.md.',
}
for pid in ids:
    if pid in CHECKS:
        c = CHECKS[pid]
        e = {
            'property_id': pid,
            'quick_cmd': 'python3 vp/check.py %s quick' % pid,
            'thorough_cmd': 'python3 vp/check.py %s thorough' % pid,
            'evidence_file': 'evidence/%s.json' % pid,
            'replay_cmd_template': 'python3 vp/check.py %s --replay {path}' % pid,
            'engine': c.get('engine', ''),
            'level_claimed': {'category': c['level'], 'text': c['text'], 'design_ref': c.get('design_ref', '')},
            'level_note': c['level_note'],
            'technique': c['technique'],
        }
        m['checks'].append(e)
    else:
        m['not_applicable'].append({'property_id': pid, 'reason': NOT_APPLICABLE.get(pid, 'check not yet built and run to completion on the unchanged tree; see DESIGN.md §3 for the planned bounded exhaustive check')})
json.dump(m, open(os.path.join(VERIF, 'MANIFEST.json'), 'w'), indent=1)
print('MANIFEST.json: %d checks, %d not_applicable' % (len(m['checks']), len(m['not_applicable'])))
try:
    import jsonschema
    jsonschema.validate(m, json.load(open('/root/.vp/MANIFEST.schema.json')))
    print('schema ok')
except ImportError:
    pass
