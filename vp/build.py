"""Incremental build of harness binaries from the current working tree of fix8 (VERIF_REPO, default /repo)."""
import os, sys, subprocess, hashlib, fcntl, time

VERIF = os.path.dirname(os.path.dirname(os.path.abspath(__file__)))
REPO = os.environ.get('VERIF_REPO', '/repo')


def bdir():
    if os.path.realpath(REPO) == '/repo':
        return 'build/main'
    return 'build/alt-' + hashlib.sha1(os.path.realpath(REPO).encode()).hexdigest()[:10]


def binpath(variant, harness):
    return os.path.join(VERIF, bdir(), variant, 'bin', harness)


def ensure(targets, quiet=True):
    """targets: list of (variant, harness) or raw make targets (str, relative to build dir)"""
    os.makedirs(os.path.join(VERIF, 'build'), exist_ok=True)
    b = bdir()
    mk = []
    for t in targets:
        mk.append(os.path.join(b, t) if isinstance(t, str) else os.path.join(b, t[0], 'bin', t[1]))
    lock = open(os.path.join(VERIF, 'build', '.lock'), 'w')
    fcntl.flock(lock, fcntl.LOCK_EX)
    try:
        t0 = time.time()
        cmd = ['make', '-C', VERIF, '-j%d' % (os.cpu_count() or 4), 'REPO=' + REPO, 'B=' + b] + mk
        p = subprocess.run(cmd, stdout=subprocess.PIPE, stderr=subprocess.STDOUT, text=True)
        if p.returncode != 0:
            sys.stderr.write(p.stdout[-6000:])
            raise SystemExit('BUILD FAILED (exit 2: no verdict)') if False else BuildError(p.stdout[-3000:])
        if not quiet:
            sys.stderr.write(p.stdout[-2000:])
        return time.time() - t0
    finally:
        fcntl.flock(lock, fcntl.LOCK_UN)
        lock.close()


class BuildError(Exception):
    pass
