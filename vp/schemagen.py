#!/usr/bin/env python3
"""Deterministic schema generators for C13 and C14 (DESIGN §3): bounded grammars of fix8 schema *programs*, enumerated
   completely and in a fixed order (no randomness anywhere).  A schema is identified by a string id from which it can
   be regenerated exactly (replay):

     c13:<N>:<index>[:s=<TYPE>+<TYPE>...]    the <index>-th member of the C13 family for node bound N; the optional
                                            suffix replaces the named field types by STRING (fallback run, see c13.py)
     c14:<tier>:<index>                      the <index>-th member of the C14 family of that tier (needs the collision
                                            list found by the hash search, passed in by the caller)

   usage (debugging):  schemagen.py c13 <N> [index]      lists the family / prints one schema
"""
import sys, itertools

# ------------------------------------------------------------------------------------------------ common frame
HEADER = [('BeginString', 'Y'), ('BodyLength', 'Y'), ('MsgType', 'Y'), ('SenderCompID', 'Y'), ('TargetCompID', 'Y'),
          ('MsgSeqNum', 'Y'), ('SendingTime', 'Y')]
FRAME_FIELDS = [(8, 'BeginString', 'STRING'), (9, 'BodyLength', 'LENGTH'), (10, 'CheckSum', 'STRING'),
                (34, 'MsgSeqNum', 'SEQNUM'), (49, 'SenderCompID', 'STRING'), (52, 'SendingTime', 'UTCTIMESTAMP'),
                (56, 'TargetCompID', 'STRING'), (112, 'TestReqID', 'STRING')]


def xml_field_def(num, name, typ, values=()):
    if not values:
        return "  <field number='%d' name='%s' type='%s' />\n" % (num, name, typ)
    s = "  <field number='%d' name='%s' type='%s'>\n" % (num, name, typ)
    for v in values:
        enum, desc, rng = v
        s += "   <value enum='%s'" % enum
        if rng:
            s += " range='%s'" % rng
        if desc is not None:
            s += " description='%s'" % desc
        s += " />\n"
    return s + "  </field>\n"


def schema_xml(messages, components, fields):
    """messages: list of (name, msgtype, cat, body_xml); components: list of (name, body_xml); fields: list of
       (num, name, type, values).  The frame (header, trailer, Heartbeat, MsgType realm) is the minimum f8c needs."""
    o = ["<?xml version='1.0' encoding='ISO-8859-1'?>\n<fix major='4' type='FIX' servicepack='0' minor='2'>\n <header>\n"]
    for n, r in HEADER:
        o.append("  <field name='%s' required='%s' />\n" % (n, r))
    o.append(" </header>\n <messages>\n")
    o.append("  <message name='Heartbeat' msgtype='0' msgcat='admin'>\n   <field name='TestReqID' required='N' />\n  </message>\n")
    for (name, mt, cat, body) in messages:
        o.append("  <message name='%s' msgtype='%s' msgcat='%s'>\n%s  </message>\n" % (name, mt, cat, body))
    o.append(" </messages>\n <trailer>\n  <field name='CheckSum' required='Y' />\n </trailer>\n")
    if components:
        o.append(" <components>\n")
        for (name, body) in components:
            o.append("  <component name='%s'>\n%s  </component>\n" % (name, body))
        o.append(" </components>\n")
    else:
        o.append(" <components />\n")
    o.append(" <fields>\n")
    allf = [(n, nm, t, ()) for (n, nm, t) in FRAME_FIELDS]
    mt_vals = [('0', 'HEARTBEAT', None)] + [(mt, name.upper(), None) for (name, mt, cat, body) in messages]
    allf.append((35, 'MsgType', 'STRING', tuple(mt_vals)))
    allf.extend(fields)
    for (n, nm, t, vals) in sorted(allf):
        o.append(xml_field_def(n, nm, t, vals))
    o.append(" </fields>\n</fix>\n")
    return ''.join(o)


# ------------------------------------------------------------------------------------------------ C13: types
# Every type name f8c accepts (compiler/f8cstatic.hpp _baseTypeMap), plain, then variants with enumerated values
# (set realms) and with range realms.  Order: chosen so that a LENGTH slot is never directly followed by a DATA slot
# (tag + 1 would make them a Length/data pair, which is C06's subject) and the less common types are spread out.
def _set(*vals):
    return tuple((e, d, None) for (e, d) in vals)


VARIANTS = [
    ('STRING', ()), ('INT', ()), ('CHAR', ()), ('PRICE', ()), ('BOOLEAN', ()), ('UTCTIMESTAMP', ()),
    ('INT', _set(('1', 'ONE'), ('2', 'TWO'), ('5', None))),
    ('LENGTH', ()), ('TENOR', ()), ('QTY', ()), ('CURRENCY', ()), ('LOCALMKTDATE', ()),
    ('CHAR', _set(('A', 'ALPHA'), ('B', 'Buy side'), ('1', None))),
    ('DATA', ()), ('SEQNUM', ()), ('AMT', ()), ('EXCHANGE', ()), ('MONTHYEAR', ()),
    ('STRING', _set(('AA', 'FIRST'), ('B', None), ('CC3', 'Third value'))),
    ('TAGNUM', ()), ('FLOAT', ()), ('MULTIPLEVALUESTRING', ()), ('UTCTIMEONLY', ()), ('TZTIMEONLY', ()),
    ('INT', (('1', 'LOW', 'lower'), ('100', 'HIGH', 'upper'))),
    ('NUMINGROUP', ()), ('PERCENTAGE', ()), ('COUNTRY', ()), ('UTCDATEONLY', ()), ('PATTERN', ()),
    ('PRICE', _set(('0.5', 'HALF'), ('1.5', None), ('2.25', 'NINE_QUARTERS'))),
    ('DAYOFMONTH', ()), ('PRICEOFFSET', ()), ('MULTIPLEVALUECHAR', ()), ('UTCTIME', ()), ('XMLDATA', ()),
    ('BOOLEAN', _set(('N', 'NO'), ('Y', 'YES'))),
    ('QUANTITY', ()), ('MULTIPLECHARVALUE', ()), ('UTCDATE', ()), ('LANGUAGE', ()), ('TZTIMESTAMP', ()),
    ('MULTIPLEVALUESTRING', _set(('A1', 'OPT_ONE'), ('B2', 'OPT_TWO'))),
    ('MULTIPLESTRINGVALUE', ()), ('RESERVED100PLUS', ()), ('RESERVED1000PLUS', ()), ('RESERVED4000PLUS', ()),
    ('FLOAT', (('0.5', 'MIN', 'lower'), ('99.5', 'MAX', 'upper'))),
    ('CHAR', (('A', 'FROM', 'lower'), ('Z', 'TO', 'upper'))),
]


def variant_name(v):
    t, vals = v
    if not vals:
        return t
    return t + ('/range' if any(r for (_, _, r) in vals) else '/set')


# ------------------------------------------------------------------------------------------------ C13: body trees
# node = ('F',) | ('G', [children]) | ('C', [children]);  a body is an ordered forest
def forests_exact(n, gleft, cleft, memo={}):
    """all ordered forests with exactly n nodes; groups may still be nested gleft deep, components cleft deep"""
    key = (n, gleft, cleft)
    if key in memo:
        return memo[key]
    out = []
    if n == 0:
        out.append(())
    else:
        # first tree takes k nodes (1..n), the rest is a forest with n - k nodes
        for k in range(1, n + 1):
            firsts = []
            if k == 1:
                firsts.append(('F',))
            else:
                if gleft > 0:
                    for sub in forests_exact(k - 1, gleft - 1, cleft):
                        firsts.append(('G', sub))
                if cleft > 0:
                    for sub in forests_exact(k - 1, gleft, cleft - 1):
                        firsts.append(('C', sub))
            rests = forests_exact(n - k, gleft, cleft)
            for f in firsts:
                for r in rests:
                    out.append((f,) + r)
    memo[key] = out
    return out


def bodies(N, gdepth=3, cdepth=2):
    """all bodies with 1..N nodes, smallest first (deterministic order)"""
    out = []
    for n in range(1, N + 1):
        out.extend(forests_exact(n, gdepth, cdepth))
    return out


def show_body(b):
    return ' '.join('F' if x[0] == 'F' else '%s(%s)' % (x[0], show_body(x[1])) for x in b)


def count_leaves(b):
    return sum(1 if x[0] == 'F' else count_leaves(x[1]) for x in b)


class _Ctx:
    pass


def count_nodes(b):
    return sum(1 if x[0] == 'F' else 1 + count_nodes(x[1]) for x in b)


def flag_patterns(n, idx):
    """required flags along the pre-order of a body with n nodes: every assignment for n <= 3, otherwise four patterns
       (alternating from Y, alternating from N, alternating in pairs YYNN.., NNYY..), rotated by the schema index"""
    if n <= 3:
        pats = [''.join(p) for p in itertools.product('YN', repeat=n)]
    else:
        pats = [''.join('YN'[(i + ph) % 2] for i in range(n)) for ph in (0, 1)] + [''.join('YN'[((i // 2) + ph) % 2] for i in range(n)) for ph in (0, 1)]
    k = idx % len(pats)
    return pats[k:] + pats[:k]


def _emit(body, flags, c, msgkey, indent, role):
    """XML of a member list; allocates field slots, group count fields and components in c.
       role: 'top' | 'comp' | 'grp' | 'nested' | 'comp_in_grp' ... recorded per leaf for the coverage statistics"""
    s = ''
    for pos, node in enumerate(body):
        i = c.node_index
        c.node_index += 1
        req = flags[i]
        pad = ' ' * indent
        if node[0] == 'F':
            slot = c.next_leaf()
            r = role
            if role.startswith('grp') or role.startswith('nested'):
                r = role + ('_first' if pos == 0 else '_other')
            c.roles.append((slot, r))
            s += "%s<field name='F%d' required='%s' />\n" % (pad, slot + 1, req)
        elif node[0] == 'G':
            c.ngroups += 1
            gname = 'No%s%d' % (msgkey, c.ngroups)
            c.groups.append(gname)
            sub_role = 'grp' if c.gdepth == 0 else 'nested'
            if role.startswith('comp'):
                sub_role += '_in_comp'
            c.gdepth += 1
            inner = _emit(node[1], flags, c, msgkey, indent + 1, sub_role)
            c.gdepth -= 1
            s += "%s<group name='%s' required='%s'>\n%s%s</group>\n" % (pad, gname, req, inner, pad)
        else:
            c.ncomps += 1
            cname = 'Cmp%s%d' % (msgkey, c.ncomps)
            sub_role = 'comp' if c.gdepth == 0 else 'comp_in_grp'
            inner = _emit(node[1], flags, c, msgkey, 3, sub_role)
            c.components.append((cname, inner))
            s += "%s<component name='%s' required='%s' />\n" % (pad, cname, req)
    return s


NSLOTS = 8


# bodies beyond the node bound that every tier runs: repeating groups nested three deep with members at every level (the
# generated nested classes are qualified by the names of all enclosing groups), alone and below a component
_F = ('F',)
EXTRA_BODIES = [
    (('G', (_F, ('G', (_F, ('G', (_F,)))))),),
    (('C', (('G', (_F, ('G', (_F, ('G', (_F, _F)))))),)), _F),
]


def c13_family(N):
    """list of dicts(id, xml, body, desc, slots=[variant names], roles=[(variant, role)])"""
    fam = []
    g = 0            # global rotation counter over the variants
    for idx, body in enumerate(bodies(N)):
        fam.append(_c13_schema(N, idx, body, g, ()))
        g += fam[-1]['nslots']
    for idx, body in enumerate(EXTRA_BODIES):
        fam.append(_c13_schema('X', idx, body, 7 * idx, ()))
    return fam


def _c13_schema(N, idx, body, g, subst):
    c = _Ctx()
    c.leaf = 0
    c.slot_used = 0

    def next_leaf():
        s = c.leaf % NSLOTS
        c.leaf += 1
        c.slot_used = max(c.slot_used, s + 1)
        return s
    c.next_leaf = next_leaf
    c.roles, c.groups, c.components = [], [], []
    c.gdepth = 0
    msgs = []
    # one message per flag pattern, each with its own groups and components (a count field is never used with two
    # different definitions here: that is C14's subject); message categories alternate
    pats = flag_patterns(count_nodes(body), idx)
    bodyA = None
    for k, pat in enumerate(pats):
        key = chr(ord('A') + k)
        c.node_index, c.ngroups, c.ncomps = 0, 0, 0
        bx = _emit(body, pat, c, key, 3, 'top')
        if k == 0:
            bodyA = bx
        msgs.append(('Msg' + key, 'U' + key if k % 3 else key, 'app' if (idx + k) % 2 == 0 else 'admin', bx))
    # MsgR: reuses the first top-level group / component of MsgA identically (same text) after one field of its own
    reuse = None
    lines = bodyA.split('\n')
    if any(n[0] != 'F' for n in body):
        # cut the XML of the first non-field top-level node out of bodyA (top-level lines have indent 3)
        start = next(i for i, l in enumerate(lines) if l.startswith('   <group') or l.startswith('   <component'))
        if lines[start].startswith('   <component'):
            end = start
        else:
            end = next(i for i in range(start, len(lines)) if lines[i].startswith('   </group>'))
        reuse = '\n'.join(lines[start:end + 1]) + '\n'
        # its own field: one that does not occur in MsgA at all (slot allocation continues round robin, so take the
        # first slot not used by MsgA)
        usedA = set(int(x) for x in __import__('re').findall(r"name='F(\d+)'", bodyA + ''.join(b for (nm, b) in c.components if nm.startswith('CmpA'))))
        free = [s for s in range(NSLOTS) if (s + 1) not in usedA]
        slot = free[0]
        c.slot_used = max(c.slot_used, slot + 1)
        c.roles.append((slot, 'top'))
        msgs.append(('MsgR', 'R', 'app', "   <field name='F%d' required='N' />\n%s" % (slot + 1, reuse)))
    nslots = c.slot_used
    slots = []
    for s in range(nslots):
        t, vals = VARIANTS[(g + s) % len(VARIANTS)]
        if t in subst:
            t, vals = 'STRING', ()
        slots.append((t, vals))
    fields = [(5001 + s, 'F%d' % (s + 1), slots[s][0], slots[s][1]) for s in range(nslots)]
    gi = 0
    for gname in sorted(set(c.groups)):
        fields.append((5101 + gi, gname, 'NUMINGROUP', ()))
        gi += 1
    sid = 'c13:%s:%d' % (N, idx) + (':s=' + '+'.join(sorted(subst)) if subst else '')
    return dict(id=sid, xml=schema_xml(msgs, c.components, fields), body=body, desc=show_body(body), nslots=nslots,
                slots=[variant_name(v) for v in slots], types=[v[0] for v in slots], nmsgs=len(msgs),
                roles=[(variant_name(slots[s]), r) for (s, r) in c.roles], reuse=bool(reuse))


def c13_schema(sid):
    """regenerate one schema from its id"""
    p = sid.split(':')
    subst = ()
    if len(p) > 3 and p[3].startswith('s='):
        subst = tuple(p[3][2:].split('+'))
    if p[1] == 'X':
        return _c13_schema('X', int(p[2]), EXTRA_BODIES[int(p[2])], 7 * int(p[2]), subst)
    N, idx = int(p[1]), int(p[2])
    g = 0
    bl = bodies(N)
    for i in range(idx):
        g += _c13_schema(N, i, bl[i], g, ())['nslots']
    return _c13_schema(N, idx, bl[idx], g, subst)


# ------------------------------------------------------------------------------------------------ C14
# A group definition: list of items; item = (tag, 'Y'|'N') or (tag, 'Y'|'N', [nested definition]) in member order.
C14_TYPES = ['STRING', 'INT', 'CHAR', 'PRICE', 'STRING', 'INT']      # F1..F6 at tags 5001..5006
C14_COUNT = 5100                                                      # NoG<k>: 5100 + k ; nested NoN<j>: 5200 + j


def defn_tags(d):
    """canonical text of a definition for the hash tool: 'tag tag{...} ...' in member order"""
    return ' '.join(str(it[0]) + ('{' + defn_tags(it[2]) + '}' if len(it) > 2 else '') for it in d)


def defn_show(d):
    return ' '.join('%d%s' % (it[0], it[1]) + ('{' + defn_show(it[2]) + '}' if len(it) > 2 else '') for it in d)


def _defn_xml(d, names, indent):
    s = ''
    pad = ' ' * indent
    for it in d:
        if len(it) > 2:
            s += "%s<group name='%s' required='%s'>\n%s%s</group>\n" % (pad, names[it[0]], it[1], _defn_xml(it[2], names, indent + 1), pad)
        else:
            s += "%s<field name='%s' required='%s' />\n" % (pad, names[it[0]], it[1])
    return s


def _all_tags(d, nested, plain):
    for it in d:
        if len(it) > 2:
            nested.add(it[0])
            _all_tags(it[2], nested, plain)
        else:
            plain.add(it[0])


def c14_schema(sid, pairs):
    """pairs: list of (kind, A, B): one count field per pair, used in message 2k with definition A and in message
       2k+1 with definition B.  Messages also carry one plain field (5900) so that the group is not alone."""
    msgs, fields = [], []
    names = {}
    plain, nested = set(), set()
    for e in pairs:
        for d in e[1:]:
            _all_tags(d, nested, plain)
    for t in sorted(plain):
        names[t] = 'F%d' % t
        typ = C14_TYPES[(t - 5001) % 6] if 5001 <= t <= 5006 else ['STRING', 'INT', 'CHAR', 'PRICE'][t % 4]
        fields.append((t, names[t], typ, ()))
    for t in sorted(nested):
        names[t] = 'NoN%d' % t
        fields.append((t, names[t], 'NUMINGROUP', ()))
    fields.append((5900, 'Extra', 'STRING', ()))
    tagmap = {}
    for k, e in enumerate(pairs):
        kind = e[0]
        cnt = C14_COUNT + k
        names[cnt] = 'NoG%d' % k
        fields.append((cnt, names[cnt], 'NUMINGROUP', ()))
        for side, d in zip('abc', e[1:]):
            mt = 'P%d%s' % (k, side)
            body = ''
            if side == 'a':
                body += "   <field name='Extra' required='N' />\n"
            body += "   <group name='%s' required='%s'>\n%s   </group>\n" % (names[cnt], 'Y' if side == 'a' else 'N', _defn_xml(d, names, 4))
            if side == 'b':
                body += "   <field name='Extra' required='N' />\n"
            msgs.append(('Msg%d%s' % (k, side.upper()), mt, 'app', body))
            tagmap[mt] = ['pair:' + kind, 'side:' + {'a': 'first', 'b': 'second', 'c': 'third'}[side]]
    return dict(id=sid, xml=schema_xml(msgs, [], fields), pairs=pairs, tagmap=tagmap,
                desc='; '.join('%s: %s' % (e[0], ' vs '.join('[' + defn_show(d) + ']' for d in e[1:])) for e in pairs)[:600])


def _flags(tags):
    return [(t, 'Y' if i == 0 else 'N') for i, t in enumerate(tags)]


def c14_universe():
    """member sets of size 1..3 out of the 6 fields, ascending order, first member required"""
    U = []
    for n in (1, 2, 3):
        for c in itertools.combinations(range(5001, 5007), n):
            U.append(_flags(c))
    return U


def c14_family(tier, collisions, triples=()):
    """collisions: list of (tagsA, tagsB) from the exhaustive hash search (sorted tag tuples, simplest first).
       returns list of schema dicts.  quick: 10 single-pair schemas; thorough: every unordered pair of the universe
       (packed 16 pairs to a schema, one count field per pair), nested / order / flags variants, collisions both ways."""
    U = c14_universe()
    fam = []

    def nest(top, inner):        # top-level F1 then a nested group 5201 with the inner member list
        return [(5001, 'Y'), (5201, 'N', _flags(inner))]
    nested_defs = [nest(None, c) for n in (1, 2) for c in itertools.combinations((5002, 5003, 5004), n)]
    orders = [_flags(p) for p in itertools.permutations((5001, 5002, 5003))]
    flagsets = [[(5001, a), (5002, b)] for a in 'YN' for b in 'YN']
    allreq = [[(t, 'Y') for t in p] for p in itertools.permutations((5001, 5002, 5003))]
    col2 = [c for c in collisions if len(c[0]) == 2]
    col3 = [c for c in collisions if len(c[0]) == 3]

    def add(pairs):
        fam.append(c14_schema('c14:%s:%d' % (tier, len(fam)), pairs))
    if tier == 'quick':
        add([('distinct-sets', U[0], U[1])])                                  # {F1} vs {F2}
        add([('distinct-sets', _flags((5001, 5002)), _flags((5001, 5003)))])  # overlapping
        add([('distinct-sets', _flags((5001, 5002)), _flags((5001, 5002, 5003)))])   # subset
        add([('distinct-sets', _flags((5001, 5002, 5003)), _flags((5004, 5005, 5006)))])
        add([('nested-differs', nested_defs[0], nested_defs[1])])
        add([('nested-differs', nested_defs[0], nested_defs[3])])
        add([('same-set-different-order', orders[0], orders[3])])
        add([('same-set-different-flags', flagsets[1], flagsets[0])])
        # the same members with the same (all required) flags in another order: nothing but the member positions tells them apart
        add([('same-set-same-flags-different-order', allreq[0], allreq[3])])
        add([('same-set-same-flags-different-order', [(5001, 'Y'), (5002, 'Y')], [(5002, 'Y'), (5001, 'Y')])])
        for c in col2[:1] + col3[:1]:
            add([('hash-collision', _flags(c[0]), _flags(c[1]))])
        if col2:
            add([('hash-collision', _flags(col2[0][1]), _flags(col2[0][0]))])   # the same pair the other way round
            # the colliding member sets one level down: same direct members, nested definitions that differ but hash alike
            for t3 in triples[:1]:      # three definitions under one count field that all hash alike
                add([('hash-collision-triple', _flags(t3[0]), _flags(t3[1]), _flags(t3[2]))])
            ncol = [c for c in col2 if 5001 not in c[0] + c[1]]
            if ncol:
                add([('nested-hash-collision', nest(None, ncol[0][0]), nest(None, ncol[0][1]))])
    else:
        allpairs = [('distinct-sets', a, b) for a, b in itertools.combinations(U, 2)]
        for i in range(0, len(allpairs), 16):
            add(allpairs[i:i + 16])
        for a, b in itertools.combinations(nested_defs, 2):
            add([('nested-differs', a, b)])
        # a nested definition against the plain one with the same top-level tags is a different member structure too
        for a, b in itertools.combinations(orders, 2):
            add([('same-set-different-order', a, b)])
        for a, b in itertools.combinations(flagsets, 2):
            add([('same-set-different-flags', a, b)])
        for a, b in itertools.combinations(allreq, 2):
            add([('same-set-same-flags-different-order', a, b)])
        add([('same-set-same-flags-different-order', [(5001, 'Y'), (5002, 'Y')], [(5002, 'Y'), (5001, 'Y')])])
        add([('same-set-same-flags-different-order', [(5001, 'N'), (5002, 'N')], [(5002, 'N'), (5001, 'N')])])
        for c in col2[:30] + col3[:30]:
            add([('hash-collision', _flags(c[0]), _flags(c[1]))])
        for c in col2[:10] + col3[:10]:
            add([('hash-collision', _flags(c[1]), _flags(c[0]))])
        for t3 in triples:
            add([('hash-collision-triple', _flags(t3[0]), _flags(t3[1]), _flags(t3[2]))])
            add([('hash-collision-triple', _flags(t3[2]), _flags(t3[0]), _flags(t3[1]))])
        # (a nested member set must not contain the outer group's own first member 5001: an element of the nested group
        # would begin like an element of the outer one and the wire form would be ambiguous)
        for c in [c for c in col2 if 5001 not in c[0] + c[1]][:10] + [c for c in col3 if 5001 not in c[0] + c[1]][:5]:
            add([('nested-hash-collision', nest(None, c[0]), nest(None, c[1]))])
    return fam


if __name__ == '__main__':
    a = sys.argv[1:]
    if a and a[0] == 'c13':
        fam = c13_family(int(a[1]))
        if len(a) > 2:
            sys.stdout.write(fam[int(a[2])]['xml'])
        else:
            cov = set()
            for f in fam:
                print(f['id'], f['desc'], f['slots'])
                cov.update(f['roles'])
            print(len(fam), 'schemas;', len(set(v for v, r in cov)), 'variants of', len(VARIANTS), ';', len(cov), '(variant, role) pairs;',
                  len(set(r for v, r in cov)), 'roles')
    elif a and a[0] == 'c14':
        fam = c14_family(a[1], [((5002, 5033), (5003, 13192)), ((5002, 5032, 5035), (5003, 13192, 13194))])
        if len(a) > 2:
            sys.stdout.write(fam[int(a[2])]['xml'])
        else:
            for f in fam:
                print(f['id'], f['desc'][:150])
            print(len(fam), 'schemas')
