"""C13 — schema compiler output implements the schema (translation validation over a bounded grammar of schema programs)."""
import os, sys, time, subprocess
from registry import check
import build, sgrun, schemagen


def _args(cfg):
    d = {}
    for a in cfg.get('args', []):
        k, _, v = a.partition('=')
        d[k] = v
    return d


def _hargs(a, what='all'):
    return ['what=' + what, 'vmax=' + a.get('vmax', '2'), 'orders=' + a.get('orders', '3'), 'nelems=' + a.get('nelems', '1,2,0')]


def _job(f, part, a):
    return sgrun.Job(f['id'], f['xml'], part['name'], _hargs(a), types=f['types'],
                     desc='body [%s] fields %s' % (f['desc'], ' '.join(f['slots'])))


def _type_scoped(records):
    """FIX type names a schema's violations are scoped to (tags type:T / at_type:T), or None if some violation is not
       scoped to a type"""
    types = set()
    for r in records:
        if r.get('t') != 'viol':
            continue
        ts = [t.split(':', 1)[1] for t in r.get('tags', []) if t.startswith('type:') or t.startswith('at_type:')]
        if not ts or r.get('clause') in ('mandatory-flags', 'member-order', 'group-membership', 'message-membership'):
            return None
        types.update(ts)
    return types


def family_part(pid, part, tier, tmp, t_end):
    cfg = part[tier] if tier in part else part['quick']
    a = _args(cfg)
    N = int(a['N'])
    t_end = min(t_end, time.time() + cfg.get('deadline', 90))
    fam = schemagen.c13_family(N)
    jobs = [_job(f, part, a) for f in fam]
    root = os.path.join(tmp, 'fam')
    # Keeping the teeth: a schema whose violations are all scoped to particular field types (a type whose generated code
    # does not compile hides everything else in that schema) is generated again with those types replaced by STRING and
    # judged again right away, so that every body of the grammar is also checked with healthy types.  Both count as programs.
    def again(j):
        ts = _type_scoped(j.records)
        return _job(schemagen.c13_schema(j.sid + ':s=' + '+'.join(sorted(ts))), part, a) if ts else None
    alldone, skipped = sgrun.run_jobs(jobs, root, t_end, followup=again)
    done = [j for j in alldone if ':s=' not in j.sid]
    done2 = [j for j in alldone if ':s=' in j.sid]
    skipped2 = []
    recs = []
    cov, variants = set(), set()
    ran = set(j.sid for j in done)
    for f in fam:
        if f['id'] in ran:
            cov.update(f['roles'])
            variants.update(v for v, r in f['roles'])
    for k in sorted(set([0, len(fam) // 2, len(fam) - 1])):
        recs.append({'t': 'sample', '_part': part['name'], 'case': fam[k]['id'], 'desc': 'body [%s] field types %s :: %s' % (fam[k]['desc'], ' '.join(fam[k]['slots']), fam[k]['xml'])})
    for j in done + done2:
        recs.extend(r for r in j.records if r.get('t') != 'sample')
    recs.append({'t': 'stat', '_part': part['name'], 'evaluations': 0, 'nontrivial': 0, 'violations': 0, 'done': not skipped and not skipped2,
                 'outcomes': {'schema-rerun-with-types-replaced': len(done2)},
                 'counters': {'family_size': len(fam), 'family_run': len(done), 'type_variants_covered': len(variants),
                              'type_variant_role_pairs_covered': len(cov), 'type_variants_total': len(schemagen.VARIANTS)},
                 'extra': {'grammar': 'bodies = all ordered forests with 1..%d nodes (field / group / component reference), groups nested <= 3, components nested <= 2' % N,
                           'first_schema_not_run': skipped[0].sid if skipped else None}})
    return recs


# ------------------------------------------------------------------------------------------------ the two stock schemas
STOCK = {'fix44': ('FIX44.xml', 'F44', 'gen_fix44.o', 'fix44.model'), 'utest': ('FIX42UTEST.xml', 'UTEST', 'gen_utest.o', 'utest.model')}


def _stock_job(name, part, workdir):
    xmlf, ns, obj, model = STOCK[name]
    os.makedirs(workdir, exist_ok=True)
    shim = os.path.join(workdir, 'shim_%s.cpp' % name)
    open(shim, 'w').write('namespace FIX8 { struct F8MetaCntx; }\nextern "C" const FIX8::F8MetaCntx& %s_ctx();\n'
                          'extern "C" const FIX8::F8MetaCntx& SG_ctx() { return %s_ctx(); }\n' % (ns, ns))
    so = shim[:-4] + '.o'
    subprocess.run(['g++', '-O0', '-w', '-c', shim, '-o', so], check=True)
    return sgrun.Job('stock:' + name, None, part['name'], ['what=meta'], desc='stock schema ' + xmlf, prebuilt=[so, sgrun.bpath('san', obj)],
                     model=sgrun.bpath('gen', model), xml_path=os.path.join(build.REPO, 'schema', xmlf))


def stock_part(pid, part, tier, tmp, t_end):
    cfg = part[tier] if tier in part else part['quick']
    t_end = min(t_end, time.time() + cfg.get('deadline', 90))
    jobs = [_stock_job(n, part, os.path.join(tmp, 'stock')) for n in ('utest', 'fix44')]
    done, skipped = sgrun.run_jobs(jobs, os.path.join(tmp, 'stock'), t_end)
    recs = []
    for j in done:
        recs.extend(j.records)
    recs.append({'t': 'stat', '_part': part['name'], 'evaluations': 0, 'nontrivial': 0, 'violations': 0, 'done': not skipped, 'outcomes': {}, 'counters': {}})
    return recs


def replay(pid, part, r):
    case = r['case']
    sid, _, c = case.partition('|')
    try:
        if sid.startswith('stock:'):
            sgrun.ensure(part.get('extra_targets', []))
            job = _stock_job(sid.split(':')[1], part, os.path.join(sgrun.VERIF, 'build', 'replay-stock'))
        else:
            sgrun.ensure()
            job = _job(schemagen.c13_schema(sid), part, _args({'args': r.get('args', [])}))
    except build.BuildError as e:
        print('BUILD FAILED:\n' + str(e))
        return 2
    print('replay of %s recorded: clause=%s mode=%s' % (case, r.get('clause'), r.get('mode')))
    return sgrun.replay_job(job, c)


_T = list(sgrun.TARGETS)
check('C13',
      title='Schema compiler output implements the schema',
      build_failure_is_violation=dict(pattern=r'gen/(utest|fix44)|f8c/f8c', clause='output-compiles', mode='generated-code-of-stock-schema-does-not-build'),
      level='translation_validation', engine='schemagen+msggen',
      technique='complete enumeration of a bounded grammar of schema programs; each is compiled by the freshly built f8c and by g++, the generated metadata is read '
                'back through F8MetaCntx / FieldTraits and compared with an independent model of the same XML, and the C01/C02 codec oracles run over the message lattice of the schema',
      design_ref='DESIGN.md §3 C13',
      text='Schema family: message bodies = all ordered forests with at most N nodes, a node being a field, a repeating group or a component reference (groups nested <= 3, '
           'components nested <= 2); one schema per body. A schema has one message per required-flag pattern of the body (every Y/N assignment along the pre-order for bodies of up to 3 nodes, '
           'otherwise four patterns: alternating from Y, from N, alternating in pairs YYNN.., NNYY..), each with its own groups and components, message categories alternating admin / application, '
           'plus a message that reuses the first group or component of the first message identically. Up to 8 payload fields per schema, typed by a rotation that runs through all 40 type names f8c '
           'accepts plus 9 variants with enumerated values (set realms of INT, CHAR, STRING, PRICE, BOOLEAN, MULTIPLEVALUESTRING; range realms of INT, FLOAT, CHAR); minimal FIX.4.2 header / trailer '
           'and a Heartbeat. Plus the two stock schemas (FIX42UTEST with the unit-test extra fields, FIX44; metadata only). Per schema: f8c must exit 0 without errors or warnings and write its files, '
           'g++ must compile and link them, every field (number, name, underlying type, realm kind, realm values and descriptions), every message (msgtype, name, admin flag) and every member list of '
           'message, header, trailer and group, recursively (member set, order by position, field type, mandatory flag, group flag) must equal the model, no field or message may exist beyond the model, '
           'and every lattice message (all shapes, value indices, element counts 1/2/0, three insertion orders) must pass the wire-image and round-trip oracles.',
      level_note='Reference semantics of "mandatory": required=Y on the member and on every enclosing component reference; inside a repeating group relative to one element. '
                 'BeginString/BodyLength/MsgType/CheckSum are exempt from the mandatory comparison (the encoder fills them in, f8c documents clearing the flag). A group count field is '
                 'entered into its parent member table with type int (counted under outcome meta:note:group-count-member-typed-int, accepted). Not covered: schemas outside the grammar '
                 '(FIXT transport split, -F extra fields other than the unit-test pair, more than 8 payload fields, Length/data pairs - C06, one count field with two definitions - C14); multi-character enum texts of CHAR fields (FIX44 MiscFeeType 10..12) are outside the type and not judged; quick covers N = 3 only (every body x every flag assignment).',
      rule='program = one schema of the family (or a stock schema); disagreements_checked = metadata attribute comparisons + lattice messages judged; non-trivial = metadata unit of a message '
           'with a repeating group, or lattice message with a populated group; a schema whose violations are all scoped to field types is generated and judged a second time with those types replaced by STRING',
      assumptions=['vp/schema_model.py (xml.etree) is trusted as the statement of what the schema says',
                   'generated code is compiled -O0 with ASan only; the judge and the runtime with ASan+UBSan (no alignment, no vptr)',
                   'the FIX type name -> field type table in harness/schemagen_harness.cpp is the statement of the schema language'],
      budget=dict(quick=360, thorough=900),
      parts=[
          dict(name='family', kind='python', fn=family_part, replay=replay, extra_targets=_T,
               quick=dict(args=['N=3', 'vmax=2', 'orders=3', 'nelems=1,2,0'], deadline=260),
               thorough=dict(args=['N=5', 'vmax=4', 'orders=3', 'nelems=1,2,0'], deadline=780)),
          dict(name='stock', kind='python', fn=stock_part, replay=replay,
               extra_targets=_T + ['san/gen_fix44.o', 'san/gen_utest.o', 'gen/fix44.model', 'gen/utest.model'],
               quick=dict(args=['what=meta'], deadline=100), thorough=dict(args=['what=meta'], deadline=100)),
      ])
