from registry import check

_ASSUME = ['UBSan alignment and vptr checks are off; generated schema code is compiled with ASan only',
           'the independent schema model (vp/schema_model.py, xml.etree) is trusted as the statement of what the schema says; '
           'the reference acceptor engines/explore/fixedit.hpp (about 120 lines over that model, no fix8 tables) is trusted as the reading of the property',
           'base messages use value index 0 of the type alphabets and SOH-free data fields (C06 owns data content); groups carry nelem=2 elements',
           'count field = number of elements, order of fields inside a section, BodyLength = actual length are not part of the sentence and are not demanded',
           'a numeric text outside the FIX syntax of the field type, or a value of FIX8_MAX_FLD_LENGTH (2048) bytes or more, may be refused; '
           'if such a message is accepted every field must still be retained with the value its text denotes',
           'the harness re-executes itself once to append quarantine_size_mb=1 to ASAN_OPTIONS (speed only; all ASan checks stay on)']

_PAIRS_U = 'pairtypes=0,A,1,3,D,B,F,8,C,i'     # Heartbeat Logon TestRequest Reject NewOrderSingle News OrderCancelRequest ExecutionReport Email MassQuote
_PAIRS_F = 'pairtypes=0,A,D,B,8'

check('C04',
      title='Strict decoding accepts exactly schema-conforming messages',
      level='exploration', engine='enum+msggen+refaccept',
      technique='exhaustive enumeration of a finite lattice of token-level edits (every edit kind x every token position, and all compatible pairs for selected types) '
                'of reference-serialized messages of every type, over the real Message::factory in strict mode; differential against an independent reference acceptor',
      design_ref='DESIGN.md §3 C04, §2.6, §2.7',
      text='Base messages (shapes "mandatory only" and "all fields" of every message type, written by the independent reference serializer) are edited at token level: '
           'unknown tags 9000/0/65535, tags = valid tag + 65536k, header/body/trailer tags inserted at every position, a second 8/9/35/10, every token duplicated, every token '
           'deleted, the first two fields of every group element swapped, CheckSum +1/-1/000, numeric texts 007 -5 5.0 .5 5. +5 5x "5 0" " 5" 0x1e, string values of 2047/2048 bytes; '
           'BodyLength/CheckSum recomputed. For every edited message the reference acceptor (checksum right; every tag defined for header, body, trailer or the enclosing group '
           'where it stands; no non-group field repeated; all mandatory fields present; every group element begins with the first field of the group) decides conformance; the real '
           'strict Message::factory must return exactly when it says yes and throw otherwise, and a returned message, read back field by field, must hold exactly the '
           'input tokens (none dropped, added or re-tagged; numeric value = value of the text).',
      level_note='Exhaustive over the stated edit lattice, not over all token sequences: one edit (pairs of edits for 10 UTEST / 5 FIX44 types up to a size bound) of two base shapes per '
                 'type with one value per field. Trusted: schema model, reference acceptor, reference serializer, read-back through the public field API.',
      rule='case = (schema, message type, shape, edit[, second edit]); edits carry kind, base token position and parameter, all distinct by construction; '
           'non-trivial = the reference acceptor rejects the edited message (the decoder has to notice something)',
      assumptions=_ASSUME,
      budget=dict(quick=280, thorough=900),
      parts=[dict(name='utest', harness='c04_strict', variant='san', hang_s=180,
                  quick=dict(args=['schema=utest', 'nelem=2'], deadline=260),
                  thorough=dict(args=['schema=utest', 'nelem=2', _PAIRS_U, 'pairmax=100', 'chunk=400000'], deadline=520)),
             dict(name='fix44', harness='c04_strict', variant='san', hang_s=180, thorough_only=True,
                  thorough=dict(args=['schema=fix44', 'nelem=2', _PAIRS_F, 'pairmax=70', 'chunk=400000'], deadline=800))])
