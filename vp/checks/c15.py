from registry import check

check('C15', title='Socket reader frames the byte stream exactly',
      level='model_checking', engine='sim+deviation-bounded search',
      technique='deviation-bounded exhaustive exploration of the environment\'s answers to receiveBytes (short reads, early EOF) on the real FIXReader in both process models, exhaustive enumeration of a preamble corruption family against a reference preamble classifier, and preemption-bounded exhaustive schedule search of two readers in one process',
      design_ref='DESIGN.md §3 C15',
      text='Part chunks: streams of 1-3 valid messages (1- to 4-digit BodyLength, including the largest body the reader accepts) are read by the real Connection/FIXReader over a scripted socket; every '
           'execution with at most k departures from the default answer "all requested bytes" (1 byte, n-1 bytes, half, end of stream) is run, plus the two extreme policies; the strings handed to '
           'Session::process must be exactly the messages, in order (with an early end of stream: exactly the messages completely read before it). Part preamble: every single-byte substitution from '
           '{digit, SOH, =, X, NUL, 9} in the first 16 bytes, other/longer/shorter BeginStrings, BodyLength texts (0, 00, 8172, 8173, 99999, 4294967297, X5, empty, -5, 5X, 1e3, blank), wrong first field, '
           'preambles without separator followed by up to 9000 digits, garbage; a reference classifier decides which are wrong BeginString / non-numeric / zero / oversized BodyLength / malformed first field, '
           'and for those the reader must stop with an error, hand nothing on and raise no sanitizer report. A numeric in-range but wrong BodyLength cannot be detected by framing and is judged for memory safety only. '
           'Part two-readers: two connections in one process, each with its own scripted socket, read by two threads running the real reader loop (threaded model) under the cooperative scheduler; every receiveBytes call is a '
           'scheduling point and hands over at most `chunk` bytes, so either reader can be interrupted anywhere inside a message; every schedule with at most b preemptions; each session must be handed exactly its own messages.',
      level_note='k = 2 (quick) / 3 (thorough) deviations; the corruption family is finite and stated; byte strings outside it are not covered.',
      rule='chunks: case = (stream, process model, set of (call index -> answer) deviations), non-trivial = at least one deviation; preamble: case = (corruption, process model)',
      assumptions=['sim runtime; the session is replaced by a recorder of what the reader hands to Session::process'],
      parts=[dict(name='chunks', harness='c15_reader', variant='san', quick=dict(args=['part=chunks', 'k=2'], deadline=100), thorough=dict(args=['part=chunks', 'k=3'], deadline=800)),
             dict(name='preamble', harness='c15_reader', variant='san', quick=dict(args=['part=preamble'], deadline=60), thorough=dict(args=['part=preamble'], deadline=60)),
             dict(name='two-readers', harness='c15_two_readers', variant='schedp', inproc=True, quick=dict(args=['msgs=2', 'chunk=24', 'bound=2'], deadline=60), thorough=dict(args=['msgs=3', 'chunk=8', 'bound=3'], deadline=500)),
             dict(name='two-readers-asan', harness='c15_two_readers', variant='sched', inproc=True, quick=dict(args=['msgs=1', 'chunk=24', 'bound=1'], deadline=60), thorough=dict(args=['msgs=2', 'chunk=24', 'bound=2'], deadline=300))])
