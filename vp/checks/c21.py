from registry import check

check('C21', title='Two fix8 sessions deliver every application message across failures',
      level='model_checking', engine='sim+bfs',
      technique='explicit-state breadth-first search over histories of sends on both sides, message-granular deliveries in either direction, connection drops, reconnects and process restarts, with two real fix8 Sessions '
                '(initiator and acceptor, file stores) joined by in-flight queues; invariant in every state, delivery clauses at quiescence after a deterministic completion phase',
      design_ref='DESIGN.md §3 C21',
      text='An initiator and an acceptor, both the real Session / Connection / FilePersister on the deterministic sim runtime, are joined by two in-flight message queues. Events: send on either side, deliver the oldest '
           'message in either direction, drop the connection (messages in flight are lost), reconnect (Logon handshake delivered at once, everything beyond it stays in flight), restart either process (objects '
           'destroyed, stores reopened from their files). Reconnection follows sessionwrapper.hpp (initiator keeps Session and store, acceptor gets a new Session and re-initialised store per connection). Every history up to '
           'the depth bound is followed by a completion phase (reconnect if down, drain, one application message each way, drain). Checked: no session shuts down while the link is up; the exchange terminates; every '
           'application message whose send returned true reached the peer\'s application at least once; first deliveries are in send order; every re-delivery carries PossDupFlag=Y. Two configurations: library defaults, and '
           'ignore_logon_sequence_check switched on through a real SessionConfig, so that the search gets past the logon and exercises resend request / replay / gap fill between two fix8 ends.',
      level_note='Bounded by history depth (6 quick / 12 thorough, capped by the deadline); message-granular link; crashes only between events (C27 owns crashes inside a store operation); sends only while the link is up.',
      rule='history over {sendI, sendA, deliverI>A, deliverA>I, drop, reconnect, restartI, restartA}; distinct = new canonical state (both sessions\' state and numbers, both stores incl. control record, both queues, sent counts, delivery logs)',
      assumptions=['sim runtime: virtual clock, threads created by fix8 are registered but never run; inbound bytes enter through Session::process as the reader thread would hand them over',
                   'FIX42UTEST schema; application messages are NewOrderSingle with unique ClOrdIDs, deliveries observed at the generated router'],
      parts=[dict(name='bfs', harness='session_pair', variant='san', quick=dict(args=['depth=6'], deadline=100), thorough=dict(args=['depth=12'], deadline=1500))])
