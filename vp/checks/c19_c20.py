from registry import check

_ASSUME = ['sim runtime: virtual clock, threads created by fix8 are registered but never run; inbound bytes enter through Session::process as the reader thread would hand them over',
           'FIX42UTEST schema; application messages are NewOrderSingle with unique ClOrdIDs, deliveries observed at the generated router']

check('C19', title='Inbound messages reach the application only when in sequence',
      level='model_checking', engine='sim+bfs',
      technique='explicit-state breadth-first search over state-moving prefix events on the real Session, and from every state reached the full product of probe messages (number x PossDup variant x CompIDs x damage) judged against the property text',
      design_ref='DESIGN.md §3 C19',
      text='States (continuous, resend-request-sent, test-request-sent, after gap fills / own sends / idle ticks) are reached by a breadth-first search over six prefix events on a real '
           'Session (acceptor and initiator, CompID enforcement on and off); in every state all 375 probe messages are tried: MsgSeqNum in {e-2,e-1,e,e+1,e+3} x PossDupFlag '
           '{absent, N, Y with Orig<=Sending, Y with Orig>Sending, Y without Orig} x CompIDs {right, wrong sender, wrong target} x {intact, a header value containing the text 34=7 '
           'before MsgSeqNum, bad checksum, missing mandatory field, unknown MsgType}. Oracle per probe: delivery iff decodable, CompIDs acceptable and (n=e or n<e with PossDup and Orig<=Sending); '
           'n>e => no delivery and a ResendRequest from e (or one already outstanding); n<e without PossDup or wrong CompID under enforcement => Logout on the wire, session ended, no delivery; '
           'undecodable => no delivery and a Reject (or forced logout). Part two-sessions-inbound: two Session objects in one process, one thread each handing in-sequence application messages to Session::process, '
           'every schedule with at most 3 preemptions (scheduling points at every lock operation of the library): each message reaches its own session\'s application exactly once and in order.',
      level_note='n is the MsgSeqNum field of the probe. PossDup=Y without OrigSendingTime is left unconstrained (the property is silent). Bounded by prefix depth.',
      rule='history = prefix events from {in-hb, in-app, in-app-ahead, idle-tick(40 s), send, in-gapfill} up to the depth bound, optionally followed by one probe; distinct = new canonical session state '
           '(state, both numbers, outstanding resend, deliveries, idle seconds); probes are judged in every distinct state',
      assumptions=_ASSUME,
      budget={'quick': 200, 'thorough': 1600},
      parts=[dict(name='bfs', harness='session_in', variant='san', quick=dict(args=['depth=3'], deadline=100), thorough=dict(args=['depth=5'], deadline=800)),
             # inbound in-sequence application messages handed to two sessions (one reader thread each, each also sending) under the schedule search of C25:
             # every message reaches its own session's application exactly once, in order, whatever the interleaving
             dict(name='two-sessions-inbound', harness='c25_senders', variant='schedp', inproc=True,
                  quick=dict(args=['pm=t2', 'ops=aa,aa', 'pk=m', 'bound=3'], deadline=60), thorough=dict(args=['pm=t2', 'ops=asa,aas', 'pk=m', 'bound=3'], deadline=600))])

check('C20', title='Sequence gaps are recovered with a conformant counterparty',
      level='model_checking', engine='sim+bfs+peer-model',
      technique='explicit-state breadth-first search over histories of counterparty sends, deliveries, own sends and drop+reconnect against a protocol model of a conformant counterparty; invariant in every state, delivery and numbering clauses at quiescence',
      design_ref='DESIGN.md §3 C20, Appendix B',
      text='The real Session (acceptor with file store, initiator with memory store; library defaults and ignore_logon_sequence_check through a real SessionConfig) runs against a small counterparty model '
           'written from the FIX session rules: it logs what it sends, loses what is in flight at a drop, reconnects with a Logon carrying its current number, and answers every ResendRequest with '
           'PossDup replays and gap fills; in part crossing it answers only when it reads (peer-reads) and may itself request a resend of everything fix8 sent, so that requests cross and a range is replayed twice. Every history up to the depth bound is followed by a deterministic completion phase (drain, one heartbeat, drain). Checked: the session never shuts down '
           '(with a conformant peer every shutdown is a sequence reason), every application message of the peer was delivered at least once, the recovery terminates, and at quiescence the expected inbound number equals the peer\'s next number.',
      level_note='Bounded by history depth; message-granular link; one counterparty.',
      rule='history over {peer-app, deliver, peer-hb, fix8-send, drop+reconnect} and, in part crossing, {peer-resendreq, peer-reads}; distinct = new canonical state (session fields, peer log, in-flight queue, unread fix8 output, delivered set)',
      assumptions=_ASSUME + ['the counterparty model is trusted as the statement of "follows the FIX session protocol"', 'a ResendRequest for messages the counterparty may already hold counts as conformant (FIX allows a request at any time)'],
      budget={'quick': 240, 'thorough': 1800},
      parts=[dict(name='bfs', harness='session_gap', variant='san', quick=dict(args=['depth=6'], deadline=100), thorough=dict(args=['depth=9'], deadline=800)),
             dict(name='crossing', harness='session_gap', variant='san',
                  quick=dict(args=['depth=6', 'cfgs=acc-file-lazy,ini-mem-lazy,acc-file-ignlogon-lazy,ini-mem-ignlogon-lazy'], deadline=120),
                  thorough=dict(args=['depth=8', 'cfgs=acc-file-lazy,ini-mem-lazy,acc-file-ignlogon-lazy,ini-mem-ignlogon-lazy'], deadline=900))])
