from registry import check

check('C29',
      title='Log and store rotation keeps generations and stays in bounds',
      level='exploration', engine='enum',
      technique='exhaustive enumeration of rotation counts x pre-existing generation sets x operations over the real FileLogger / '
                'FilePersister on a real scratch directory, one forked child per case; pure rename-semantics model on a map name -> content, '
                'recorded rename(2) calls, libstdc++ bounds assertions and ASan/UBSan as oracles',
      design_ref='DESIGN.md §3 C29',
      text='For every rotation count in the stated range the harness builds a directory holding a chosen set of generations '
           '(name, name.1 .. name.(count+1); store: name.k and name.k.idx) plus files that only look like generations '
           '(name.x, nameX.1, name.1.bak, name.0, name.01, name.idx.1, a directory name.d), all with distinct contents, then runs the real '
           'FileLogger constructor / rotate(force) in five operation modes or FilePersister(count).initialise(purge=true) in a forked child '
           '(logger thread registered, never started). The directory afterwards must equal a model: name.k := old name.(k-1) for '
           'k = min(count, 1024) .. 1, current file recreated empty (kept in append mode), everything else byte-identical, no new names. '
           'Every rename() issued must be generation k-1 -> k within the cap, and the child must not die '
           '(vector subscript assertion, ASan/UBSan report, signal, time-out).',
      level_note='Exhaustive over the stated space only: for counts > 4 the pre-existing sets are five patterns, not all subsets; one base name '
                 'per target; no concurrent writers; no rename failures other than a missing source. Trusted: the model, the directory '
                 'snapshot, the interposed rename() recorder, _GLIBCXX_ASSERTIONS in the two translation units under test '
                 '(an index past size() but inside capacity() is invisible to ASan). The model leaves open what happens to the oldest '
                 'generation name.n when name.(n-1) did not exist (kept or removed both accepted): the property does not say.',
      rule='case = (target log|db, count, generation set, operation); all distinct by construction; non-trivial = the model moves at least '
           'one file, or count > 1024',
      assumptions=['Logger::max_rotation (1024) is the documented maximum',
                   'the logger thread never runs (pthread_create is stubbed): nothing is written to the log during the case',
                   'the compress flag is not exercised (HAVE_COMPRESSION is not defined for runtime/logger.cpp in this build)'],
      parts=[dict(name='rotation', harness='c29_rotation', variant='san',
                  quick=dict(args=['maxcount=1100', 'dense=12', 'around_lo=1020', 'around_hi=1030', 'stride=97'], deadline=90),
                  thorough=dict(args=['maxcount=1100', 'stride=1'], deadline=840))])
