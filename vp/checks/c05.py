from registry import check

_ASSUME = ['UBSan alignment and vptr checks are off; generated schema code is compiled with ASan only',
           'the independent schema model and the reference serializer / tokenizer (engines/explore/msggen.hpp, fixedit.hpp) are trusted',
           'unknown tokens are 9000=x and 9001=a=b (tags the schema does not define, values without SOH); base messages use value index 0 and groups of nelem=2 elements',
           'where in the re-encoding an unknown token is emitted (fix8 puts it at the end of the section or group element it was read in) is not part of the property; '
           'tokens are compared as a multiset, known float fields by value (fix8 renders 1 as 1.0)',
           'the harness re-executes itself once to append quarantine_size_mb=1 to ASAN_OPTIONS (speed only; all ASan checks stay on)']

check('C05',
      title='Permissive decoding passes unknown fields through unchanged',
      level='exploration', engine='enum+msggen+refaccept',
      technique='exhaustive enumeration of the insertion positions of one unknown token (all ordered position pairs of two for the thorough tier) in reference-serialized '
                'messages of every type, over the real Message::factory in permissive mode and the real encoder; strict decode of the unmodified message as reference',
      design_ref='DESIGN.md §3 C05, §2.7',
      text='Into conforming base messages (shapes "mandatory only" and "all fields" of every message type, reference serializer) one unknown token (9000=x or 9001=a=b) is inserted '
           'before every token position after 8/9/35 up to directly before 10= — header, body, trailer, section boundaries, directly after a group, before the first element, between '
           'elements, inside an element, inside a nested element — and in the thorough tier both tokens at every ordered pair of positions; BodyLength/CheckSum recomputed. '
           'Message::factory(permissive) must return; the tree read back must equal the tree read back from the strict decode of the unmodified message (every known field, same '
           'value, same group structure); the re-encoding by the real encoder, tokenized independently, must be well-framed and hold the multiset of the input tokens, each unknown '
           'token exactly once and byte-identical.',
      level_note='Exhaustive over the stated positions for one (thorough: two) fixed unknown tokens; other unknown tags/values (SOH-bearing data, tags above 65535), more than two '
                 'tokens and base messages other than the two shapes with value index 0 are not covered.',
      rule='case = (schema, message type, shape, (token, position)[, (token, position)]); all distinct by construction; non-trivial = at least one token stands inside a repeating group '
           '(before the first element, between elements, inside an element or nested element)',
      assumptions=_ASSUME,
      budget=dict(quick=280, thorough=900),
      parts=[dict(name='utest', harness='c05_permissive', variant='san', hang_s=180,
                  quick=dict(args=['schema=utest', 'nelem=2'], deadline=130),
                  thorough=dict(args=['schema=utest', 'nelem=2', 'pairs=1', 'chunk=400000'], deadline=450)),
             dict(name='fix44', harness='c05_permissive', variant='san', hang_s=180,
                  quick=dict(args=['schema=fix44', 'nelem=2'], deadline=130),
                  thorough=dict(args=['schema=fix44', 'nelem=2', 'pairs=1', 'pairmax=300', 'chunk=400000'], deadline=800))])
