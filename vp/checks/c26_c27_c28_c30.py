from registry import check

check('C26', title='Persisters honour the store contract',
      level='model_checking', engine='bfs',
      technique='explicit-state breadth-first search over store operations on the real MemoryPersister and FilePersister; after every step the complete observation battery is compared with a reference map + control record',
      design_ref='DESIGN.md §3 C26',
      text='Every history up to the depth bound over {put(s,bytes) for s in {1,2,3,5,0} x 2 payloads, two control stores, reopen (file)} runs on a fresh real persister; after every step all of get(0..7), '
           'get-control, last, nearest-highest(1..7) and range retrieval for 12 (from,to) pairs (through a Session whose retransmission callback records the calls) are compared with a reference std::map '
           'plus one control record: stored bytes returned, put to an occupied number or to 0 refused, last = largest stored, control = last stored, nearest = smallest stored in [requested,last], range visits '
           'exactly the stored records ascending and then signals completion exactly once.',
      level_note='Bounded by depth and the small key/payload alphabet; canonical state = reference map + control + which of message/control was stored first (it shapes the index file).',
      rule='history over 13 mutating events, each followed by ~40 observations; distinct = new reference state', assumptions=['sim runtime (no threads run)'],
      parts=[dict(name='contract', harness='persist_check', variant='san', quick=dict(args=['part=contract', 'depth=4'], deadline=100), thorough=dict(args=['part=contract', 'depth=6'], deadline=800))])

check('C27', title='File persister survives process crashes without corruption',
      level='fault_enumeration', engine='faults',
      technique='exhaustive enumeration of operation sequences and of every crash point (after each completed lseek/write on the store files), followed by reopen, continuation stores and a second reopen on the real FilePersister',
      design_ref='DESIGN.md §3 C27, §2.5',
      text='All sequences up to the depth bound over {put(s, short|long payload) for s in {1,2,3}, two control stores}, in every order including a message before any control record; for each sequence every '
           'k-th completed file system call of the persister is a crash point: the call completes, control leaves the persister (longjmp), its descriptors are closed and a fresh FilePersister is opened on the '
           'files as they are. Checked after reopen, after a continuation (a new number, the interrupted number again, a control store) and after a second reopen: completed stores are returned byte-identical; '
           'any number returns either failure or bytes once passed to put for that number; the control record is the last completed (or the in-flight) control store; continuation stores are retrievable; no sanitizer report.',
      level_note='Process-crash model: completed writes survive, nothing is torn, no fsync reasoning (the quantifier of the property). Depth 3 quick / 5 thorough.',
      rule='case = (operation sequence, crash point); all distinct; every case in which the crash point is reached is non-trivial',
      assumptions=['write/lseek are interposed in the harness executable (raw syscalls underneath)'],
      parts=[dict(name='crash', harness='persist_check', variant='san', quick=dict(args=['part=crash', 'depth=3'], deadline=100), thorough=dict(args=['part=crash', 'depth=5'], deadline=800))])

_SCHED = ['cooperative scheduler: exactly one thread runs; scheduling points at pthread create/join, spin and mutex lock/unlock/trylock, sched_yield, sleeps (virtual clock) and every FastFlow atomic (ff_shim.hpp)',
          'sequential consistency (x86-TSO plus FastFlow\'s barriers are assumed to give it for the queue)',
          'executions run in process while none fails (harness threads on recycled OS threads in the variant without a sanitizer) and in forked children from the first failing one on; a replayed prefix that diverges is a hard error of the check']

check('C28', title='Loggers write every accepted line exactly once, in order',
      level='model_checking', engine='sched',
      technique='preemption-bounded exhaustive exploration of thread schedules of the real Logger (producers, logger thread, stop) under a cooperative scheduler; oracle on every complete execution',
      design_ref='DESIGN.md §3 C28, §2.3',
      text='k producer threads each submit lines (Info/Error enabled, one Debug line disabled) to a real Logger whose stream is a buffered stream in front of a device string (as a file stream: written = reached the device); the main thread calls stop() after joining the producers and, '
           'in a second configuration, while they still run. Every schedule with at most b preemptions is executed (and the ASan build repeats bound 1). Checked per execution: every line whose send returned '
           'before stop() was called appears exactly once when stop() returns; no line twice; per-producer order; sequence numbers 1,2,3.. in stream order; no Debug line; send returns true for accepted lines; '
           'the stream does not change after stop() returned; no deadlock, livelock, crash or sanitizer report.',
      level_note='k = 2 producers x 2 lines at bound 3 and k = 3 x 2 lines at bound 2 (quick); k = 2 x 3 lines at bound 3 and k = 3 x 2 lines at bound 3, capped by the deadline (thorough); a small configuration under ASan. 8 producers are out of reach of exhaustive search.',
      rule='execution = one complete schedule; distinct schedules by construction; non-trivial = at least one preemption', assumptions=_SCHED, budget={'quick': 250, 'thorough': 2300},
      parts=[dict(name='sched', harness='c28_logger', variant='schedp', inproc=True, quick=dict(args=['k=2', 'lines=2', 'bound=3'], deadline=100), thorough=dict(args=['k=2', 'lines=3', 'bound=3'], deadline=700)),
             dict(name='k3', harness='c28_logger', variant='schedp', inproc=True, quick=dict(args=['k=3', 'lines=1', 'bound=2'], deadline=100), thorough=dict(args=['k=3', 'lines=2', 'bound=3'], deadline=800)),
             dict(name='asan', harness='c28_logger', variant='sched', inproc=True, quick=dict(args=['k=2', 'lines=1', 'bound=1'], deadline=60), thorough=dict(args=['k=2', 'lines=2', 'bound=2'], deadline=600))])

check('C30', title='The inter-thread queue never loses, duplicates or reorders',
      level='model_checking', engine='sched',
      technique='preemption-bounded exhaustive exploration of thread schedules of the real ff::uMPMC_Ptr_Queue (2 lanes) with a scheduling point before every FastFlow atomic; oracle from recorded tickets and publish/observe order',
      design_ref='DESIGN.md §3 C30',
      text='P producers x pushes and C consumers x try_pops run on the real queue with 2 lanes and 4-slot segments; every atomic read, set and CAS of FastFlow is a scheduling point. For every schedule within '
           'the preemption bound: the popped multiset (concurrent pops plus a final drain) equals the pushed multiset; the pop holding ticket k returns the element of the push holding ticket k (so elements leave '
           'in slot-reservation order and each producer keeps its order); a pop reports empty only if the push holding the ticket it was waiting for had not published when the pop looked; all operations complete. Parts full: every interleaving of a small configuration with NO preemption bound; the search is cut where a state recurs, the state being the cursors, the sequence arrays, the lanes (indices and contents), per thread a hash of everything its current operation has observed (position + observed values determine its locals), the (ticket, element, result) summary of every finished operation and the sticky verdict of a state-based monitor for the empty clause. Part tsan repeats the schedules of a small configuration under ThreadSanitizer (FastFlow\'s cursor reads and writes taken as acquire loads / release stores): the element and the lane buffers must be handed from producer to consumer with a happens-before edge.',
      level_note='2 producers x 2 + 1 consumer x 4 at bound 3, 2x2 + 2 consumers x 2 at bound 2 and ALL interleavings of 2x1 + 1x2 (quick); 2x2 + 1x4 at bound 4, 2x2 + 2x2 at bound 3, 3x1 + 2x2 at bound 2 and ALL interleavings of 2x1 + 2x1, of 2x1 + 2x2 and of 2x2 + 1x2 (thorough); a small configuration under ASan. 4-16 threads and weaker memory orderings are not covered.',
      rule='execution = one complete schedule; non-trivial = at least one preemption', assumptions=_SCHED, budget={'quick': 250, 'thorough': 5400},
      parts=[dict(name='p2c1', harness='c30_mpmc', variant='schedp', inproc=True, quick=dict(args=['p=2', 'pushes=2', 'c=1', 'pops=4', 'bound=3'], deadline=100), thorough=dict(args=['p=2', 'pushes=2', 'c=1', 'pops=4', 'bound=4'], deadline=600)),
             dict(name='p2c2', harness='c30_mpmc', variant='schedp', inproc=True, quick=dict(args=['p=2', 'pushes=2', 'c=2', 'pops=2', 'bound=2'], deadline=100), thorough=dict(args=['p=2', 'pushes=2', 'c=2', 'pops=2', 'bound=3'], deadline=800)),
             dict(name='p3c2', harness='c30_mpmc', variant='schedp', inproc=True, thorough_only=True, thorough=dict(args=['p=3', 'pushes=1', 'c=2', 'pops=2', 'bound=2'], deadline=600)),
             # one process each: the cut-at-recurring-state search keeps its visited set in memory, shards would only repeat each other
             dict(name='full', harness='c30_mpmc', variant='schedp', inproc=True, quick=dict(args=['p=2', 'pushes=1', 'c=1', 'pops=2', 'full=1'], deadline=100, shards=1), thorough=dict(args=['p=2', 'pushes=1', 'c=2', 'pops=1', 'full=1'], deadline=600, shards=1)),
             dict(name='full-c2x2', harness='c30_mpmc', variant='schedp', inproc=True, thorough_only=True, thorough=dict(args=['p=2', 'pushes=1', 'c=2', 'pops=2', 'full=1'], deadline=1500, shards=1)),
             dict(name='full-p2x2', harness='c30_mpmc', variant='schedp', inproc=True, thorough_only=True, thorough=dict(args=['p=2', 'pushes=2', 'c=1', 'pops=2', 'full=1'], deadline=900, shards=1)),
             # segments of one slot: every second push to a lane chains a new segment, drained segments go through BufferPool's cache and are reused
             dict(name='chain', harness='c30_mpmc', variant='schedp', inproc=True, quick=dict(args=['p=1', 'pushes=5', 'c=1', 'pops=5', 'seg=1', 'bound=2'], deadline=100), thorough=dict(args=['p=2', 'pushes=3', 'c=1', 'pops=6', 'seg=1', 'bound=2'], deadline=900)),
             dict(name='tsan', harness='c30_mpmc', variant='tsan', inproc=True, quick=dict(args=['p=2', 'pushes=2', 'c=2', 'pops=2', 'bound=1'], deadline=100), thorough=dict(args=['p=2', 'pushes=2', 'c=2', 'pops=2', 'bound=2'], deadline=700)),
             dict(name='asan', harness='c30_mpmc', variant='sched', inproc=True, quick=dict(args=['p=2', 'pushes=1', 'c=1', 'pops=2', 'bound=1'], deadline=90), thorough=dict(args=['p=2', 'pushes=2', 'c=2', 'pops=2', 'bound=1'], deadline=400))])
