from registry import check

check('C08',
      title='Numeric field text conversions are exact inverses',
      level='exploration', engine='enum',
      technique='exhaustive enumeration over the real conversions (itoa/fast_atoi/modp_dtoa/fast_atof and the Field<int>/Field<fp_type> '
                'print/encode/construct-from-text paths): all 2^32 integers; a finite lattice of doubles containing the rounding decision '
                'points, at every precision 0..9; oracle = std::to_string, exact binary expansion (glibc %.1074f) rounded independently, glibc strtod',
      design_ref='DESIGN.md §3 C08',
      text='Integers: every int32 value (thorough; quick: all |v| < 2^20 plus powers of two/ten +-2, multiples 2..9 of powers of ten, 67 values at '
           'each end of the range, every multiple of 65521) is printed by itoa<int>, Field<int>::print and BaseField::encode and must give '
           'std::to_string(v); that text is parsed by fast_atoi<int>, Field<int>(const char*), Field<int>(f8String) and set_from_raw and must give v '
           '(SeqNum/Length field types on block 0 and the edge set). A small set is repeated under ASan/UBSan in a forked worker. '
           'Floats: for every lattice value v (|v| < 2^31) and every precision q = 0..9, modp_dtoa(v,q), Field<fp_type>(v,q).print, '
           'set_precision+print, encode and the default-precision constructor must give a plain decimal with at most q fraction digits that denotes '
           'the correctly rounded value of the exact binary expansion of v (on an exact binary tie the even neighbour, as round-to-nearest-even and the correctly rounded printf of the C library give); the produced text parsed by fast_atof, '
           'Field<fp_type>(const char*), (f8String) and set_from_raw must be bit-equal to glibc strtod(text). '
           'Lattice: N*10^-p and (N+1/2)*10^-p for N <= K, p = 0..9; the same around W*10^p for 16 anchor integers W (1 .. 2^31); exact binary '
           'fractions n/2^k and W + n/2^k; specials (0, -0, denormal min, DBL_MIN, values next to 2^31); each with both 1-ulp neighbours and both signs. '
           'The float part runs under ASan/UBSan with a thin neighbourhood of 2^31 (jtop, kbitstop: values above INT_MAX run in a forked worker because the '
           'unchanged tree overflows a signed int there); part float-top covers that neighbourhood (anchors 2^31-2, 2^31-1, 2^31) with large bounds without sanitizers.',
      level_note='Integers: complete in the thorough tier (all 2^32 values). Floats: exhaustive over the stated lattice only (the space of doubles below '
                 '2^31 is ~2^62); the claim is every rounding decision point k*10^-p, (k+1/2)*10^-p, n/2^k within the bounds, not every double. '
                 'Trusted: glibc snprintf("%.1074f") as exact expansion (cross-checked per case against "%.*f"), glibc strtod as correctly rounded parser, '
                 'std::to_string. "Within half a unit in the last place" is checked as equality with strtod: a decimal with <= 9 fraction digits and '
                 'integer part < 2^31 is never an exact midpoint of two doubles.',
      rule='int case = one value, non-trivial = negative or >= 2 digits (all distinct by construction: magnitude blocks, edge set excludes the blocks). '
           'float case = (value, precision); values de-duplicated exactly (sharding by value hash + per-shard set), non-trivial = the exact expansion '
           'has a non-zero digit beyond position q (a rounding decision is made)',
      assumptions=['x86-64 SSE2 double arithmetic, round-to-nearest', 'FIX8 built with double fp_type (not FIX8_USE_SINGLE_PRECISION), FIX8_DEFAULT_PRECISION 2',
                   'float lattice bounds K, J, jtop, kbits, nbin as in bounds'],
      parts=[dict(name='int', harness='c08_numeric', variant='plain',
                  quick=dict(args=['part=int', 'intbits=20'], deadline=60),
                  thorough=dict(args=['part=int', 'intbits=31'], deadline=780)),
             # the same conversions under ASan/UBSan on a small set (every fatal report costs a forked worker)
             dict(name='int-san', harness='c08_numeric', variant='san', hang_s=60,
                  quick=dict(args=['part=int', 'intbits=6', 'block=4', 'nostride=1', 'edged=1', 'edgek=1', 'edgeend=3', 'guard=1'], deadline=60),
                  thorough=dict(args=['part=int', 'intbits=8', 'block=16', 'nostride=1', 'edged=2', 'edgek=1', 'edgeend=8', 'guard=1'], deadline=300)),
             dict(name='float', harness='c08_numeric', variant='san', hang_s=60,
                  quick=dict(args=['part=float', 'ties=even', 'K=2000', 'J=20', 'jtop=1', 'kbits=10', 'nbin=4096', 'kbitstop=1', 'guard=1'], deadline=80),
                  thorough=dict(args=['part=float', 'ties=even', 'K=60000', 'J=600', 'jtop=2', 'kbits=12', 'nbin=65536', 'kbitstop=2', 'guard=1'], deadline=780)),
             # the neighbourhood of 2^31 with large bounds, without sanitizers (the unchanged tree has UB on every other value there)
             dict(name='float-top', harness='c08_numeric', variant='plain',
                  quick=dict(args=['part=float', 'ties=even', 'only=top', 'jtop=200', 'kbitstop=10'], deadline=60),
                  thorough=dict(args=['part=float', 'ties=even', 'only=top', 'jtop=5000', 'kbitstop=14'], deadline=300))])
