from registry import check

check('C09',
      title='Date/time field codecs are calendar-correct inverses',
      level='exploration', engine='enum',
      technique='exhaustive enumeration of every day 1970-01-01..2099-12-31 x boundary seconds x boundary milliseconds (thorough: every second of '
                'the first and last day of every month) through the real UTCTimestamp/UTCTimeOnly/UTCDateOnly/LocalMktDate/MonthYear field classes '
                'and the real log timestamp renderers, judged by an independent proleptic-Gregorian day arithmetic',
      design_ref='DESIGN.md §3 C09',
      text='Every day of 1970..2099 (47482) is crossed with seconds of day {0,1,59,3599,3600,43199,86399} and milliseconds {0,1,499,500,999}; each instant is '
           'put into the five date/time field classes exactly as the codec does (value -> print(char*) -> from-text constructor -> value -> print) and the texts '
           'are compared byte for byte with the harness\'s own civil-from-days arithmetic; the parsed value must be exactly the instant for UTCTimestamp, keep the time of day '
           '(modulo one day) for UTCTimeOnly, lie within the day for the date-only forms and within the month for "YYYYMM": UTCTimestamp "YYYYMMDD-HH:MM:SS.sss" '
           '(and the 17 character form), UTCTimeOnly "HH:MM:SS.sss" (and "HH:MM:SS"), UTCDateOnly and LocalMktDate "YYYYMMDD", MonthYear "YYYYMM" and '
           '"YYYYMMDD"; the tm constructors, the f8String constructors and print(ostream) are checked against the same values. The thorough tier adds all '
           '86400 seconds of the first and last day of every month (3120 days) x the 5 millisecond values. The log renderers GetTimeAsStringMS (gm/local, '
           'precision 0..9, both overloads), Tickval operator<< / operator>> (Logger "timestamp") and GetTimeAsStringMini (Logger "minitimestamp") are run on '
           '400 days x {00:00,23:59} x seconds {0,58,59} x 7 nanosecond values: the text must be well-formed, every field within its calendar range, seconds in '
           '00..59, and denote the instant to within one unit of the last printed place.',
      level_note='Exhaustive over the stated lattice only: days are complete for 1970..2099, seconds and milliseconds are boundary sets (all seconds only on month '
                 'boundary days in the thorough tier), sub-millisecond parts are not fed to the field classes. The sanitizer pass (fields-san) repeats the quick '
                 'lattice; the all-seconds sweep runs uninstrumented (-O2). TZ=UTC is forced, so the "local" renderers are checked for UTC only. '
                 'Trusted: Hinnant\'s days_from_civil/civil_from_days as written in the harness (cross-checked for every enumerated day against gmtime_r and '
                 'timegm; a disagreement aborts the run with no verdict), Tickval(time_t, long) as the way to build an instant. '
                 'Log oracle accepts truncation and correct rounding alike (difference < 1 unit of the last place).',
      rule='case = (field class, day, second of day, millisecond) for the value->text[->value->text] direction, plus (field class, day) for the day-only '
           'text->value->text direction, plus (renderer, day, second of day, nanoseconds, precision) for the log part; all distinct by construction '
           '(the all-seconds sweep skips the seconds already in the boundary set); every case runs the real formatter and/or parser, so all are non-trivial',
      assumptions=['time_t is 64 bit; std::chrono::high_resolution_clock is system_clock (libstdc++)',
                   'seconds/milliseconds are boundary sets except on the first/last day of each month (thorough)',
                   'TZ=UTC for the localtime based renderers'],
      parts=[dict(name='fields', harness='c09_datetime', variant='plain',
                  quick=dict(args=['mode=fields'], deadline=60),
                  thorough=dict(args=['mode=fields', 'allsec=1'], deadline=840)),
             dict(name='fields-san', harness='c09_datetime', variant='san',
                  quick=dict(args=['mode=fields'], deadline=90, shards=8),
                  thorough=dict(args=['mode=fields'], deadline=300, shards=8)),
             dict(name='log', harness='c09_datetime', variant='san',
                  quick=dict(args=['mode=log'], deadline=60, shards=4),
                  thorough=dict(args=['mode=log'], deadline=120, shards=4))])
