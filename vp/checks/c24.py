from registry import check

_RUNS_Q = 'runs=p0,edge,p0T'
_RUNS_T = 'runs=p0,p1,p59,edge,p0T,edgeT,sec'

check('C24',
      title='Session activation follows the configured schedule',
      level='model_checking', engine='timeline',
      technique='exhaustive walk of a virtual timeline (link-time virtual clock) over every schedule configuration of a finite lattice, '
                'real Schedule::test threaded as in Session::activation_service, every returned state compared with a window reference; '
                'exhaustive enumeration of all short strings for decode_dow',
      design_ref='DESIGN.md §3 C24',
      text='2250 configurations = 15 (start,end) pairs from {00:00:00, 00:00:01, 09:00, 12:00, 17:00, 23:59:59} with start < end x utc offset '
           '{0, +330, -600} min x ({daily} u all 49 (start_day,end_day) pairs, equal days included).  Each is built twice: by the Schedule '
           'constructor, and by Configuration (create_session_schedule, create_login_schedule, create_schedule) from an XML file that spells '
           'weekdays as digit / two letters / full name / upper-case three letters / shortest prefix and leaves out end_day or utc_offset_mins '
           'where the default applies; the three XML-built schedules must carry exactly the configured fields.  Every built schedule is walked '
           'along a virtual timeline that starts Sunday 2024-01-07 00:00:00 UTC (quick 1 week, thorough 3 weeks): the executable defines '
           'clock_gettime()/time(), so Tickval(true) inside Schedule::test reads the harness instant (self-check: exactly one clock read per '
           'call).  Runs: one call every 60 s at phase +0 (thorough also +1 s, +59 s); every 60 s plus every second within +-120 s of every '
           'local start time, end time and midnight; thorough also every second of one week.  The flag is threaded exactly as '
           'Session::activation_service does (_active = _sch.test(_active)); it starts as the specification\'s answer at the first instant and, '
           'in the ..T runs, as true (what Session::atomic_init sets).  After every call the returned flag must equal in_window(now): daily = '
           'local time of day in [start,end]; weekly = not later than the first "end_day at end" that follows the most recent "start_day at '
           'start".  A maximal run of consecutive disagreeing calls is reported once, classified by direction and by how it ended.  '
           'Part dow: decode_dow on all 254080 strings of length <= 3 over {a-z, A-Z, 0-9, space} against "digit 0..6 alone, or begins with '
           'm, w, f, su, sa, tu, th in any case; everything else -1".',
      level_note='Complete over the stated lattice of configurations and over the stated instants only: whole-second instants, three phases of '
                 'the one-minute period, one start date; other start/end times and sub-second instants are not run.  A Session object is not '
                 'constructed: the two lines of Session::activation_service that thread the flag are replicated in the harness (the connected / '
                 'shutdown guards are not the subject).  One-shot use of a schedule (logon acceptance calls test() once with prev=false) is '
                 'outside the property and not judged.  Trusted: the reference in_window(), gmtime_r for witness printing, ld symbol pre-emption '
                 'of clock_gettime.  states = distinct (configuration, instant mod week, returned flag), counted exactly in the harness '
                 '(counter timeline:states); transitions = test() calls; traces = timelines.',
      rule='evaluation = one Schedule::test call judged (part timeline) or one string judged (part dow); non-trivial = a call on a timeline on '
           'which the reference takes both values, resp. a string that starts with a weekday initial or a digit',
      assumptions=['local time is UTC + utc_offset_mins (no DST), as Schedule::test computes it',
                   'instants are whole seconds',
                   'weekly window with equal days and start < end lies inside that one day'],
      parts=[dict(name='timeline', harness='c24_schedule', variant='san',
                  quick=dict(args=['part=timeline', 'weeks=1', _RUNS_Q], deadline=90),
                  thorough=dict(args=['part=timeline', 'weeks=3', _RUNS_T], deadline=800)),
             dict(name='dow', harness='c24_schedule', variant='san',
                  quick=dict(args=['part=dow'], deadline=60, shards=8),
                  thorough=dict(args=['part=dow'], deadline=60, shards=8))])
