from registry import check

_ASSUME = ['UBSan alignment and vptr checks are off (calc_chksum reads unaligned words; has_group_count downcasts by design)',
           'generated schema code is compiled with ASan only (no UBSan) for build time',
           'values come from the stated alphabets; strings longer than 40 characters and messages larger than the 4 MB harness buffer are not generated',
           'the independent schema model (vp/schema_model.py, xml.etree) is trusted as the statement of what the schema says']


def _parts(prop, qv, tv, perm=0):
    return [
        dict(name='utest', harness='codec_lattice', variant='san',
             quick=dict(args=['prop=' + prop, 'schema=utest', 'vmax=%d' % qv[0], 'orders=%d' % qv[1], 'nelems=1,2,0', 'perm=%d' % perm, 'lensweep=1200'], deadline=100),
             thorough=dict(args=['prop=' + prop, 'schema=utest', 'vmax=18', 'orders=3', 'nelems=1,2,0', 'perm=%d' % (perm and perm + 1), 'lensweep=2000'], deadline=800)),
        dict(name='fix44', harness='codec_lattice', variant='san',
             quick=dict(args=['prop=' + prop, 'schema=fix44', 'vmax=%d' % tv[0], 'orders=%d' % tv[1], 'nelems=1,2', 'perm=%d' % perm], deadline=100),
             thorough=dict(args=['prop=' + prop, 'schema=fix44', 'vmax=18', 'orders=3', 'nelems=1,2,0', 'perm=%d' % (perm and perm + 1)], deadline=800)),
    ]


_RULE = ('lattice point = (schema, message type, shape, value index, group element count, insertion order); shapes: mandatory only / all members / '
         'mandatory + each single optional member (header, body, trailer); value index i gives every field the i-th member of its type alphabet '
         '(indices >= 9: rotated by field position); every point is distinct; non-trivial = the message contains at least one populated repeating group; '
         'length sweep (C01, C02): NewOrderSingle with all members and Text(58) of every length 1..lensweep, so that the body takes every length across the BodyLength digit thresholds; '
         'C11 additionally: every message with float fields once more with a five-decimal value and explicit precision 5 set through the typed interface')

check('C01',
      title='Message encode/decode round trip preserves every field',
      level='exploration', engine='enum+msggen',
      technique='exhaustive enumeration of a finite message lattice (types x shapes x value indices x group counts x insertion orders) built from an independent schema model, over the real encoder/decoder',
      design_ref='DESIGN.md §3 C01, §2.7',
      text='Every message type of both compiled schemas is built through the metadata API in every lattice shape and value index, encoded by the real '
           'encoder, decoded by the real Message::factory, read back field by field (text and typed value, groups recursively) and compared with the '
           'abstract tree the generator recorded; the decoded message is re-encoded and must be byte-identical.',
      level_note='Exhaustive over the stated lattice, not over all values of the type domains; pairs of optional fields below the "all members" shape are not enumerated.',
      rule=_RULE, assumptions=_ASSUME, parts=_parts('C01', (4, 1), (2, 1)))

check('C02',
      title='Encoded messages are well-formed FIX on the wire',
      level='exploration', engine='enum+msggen+refcodec',
      technique='exhaustive enumeration of the message lattice incl. insertion orders and all body insertion permutations of small messages; independent tokenizer and clause-by-clause wire oracle',
      design_ref='DESIGN.md §3 C02',
      text='For every lattice point and three insertion orders (plus all permutations of the body fields for small messages) the bytes produced by the real '
           'encoder are tokenized independently and checked clause by clause: 8/9/35 first, BodyLength = bytes between 9= and 10=, CheckSum = byte sum mod 256 '
           'in three digits, decimal-tag=value<SOH> tokens, and the token sequence equal to the schema-ordered flattening of the abstract tree (header < body < trailer, '
           'schema position order, count field followed by its elements).',
      level_note='As C01; float fields are compared as numbers (fix8 renders 1 as 1.0).',
      rule=_RULE + '; permutation cases: every ordering of the body fields for messages with <= perm fields', assumptions=_ASSUME,
      parts=_parts('C02', (3, 3), (2, 2), perm=5))

check('C11',
      title='Cloning and field transfer preserve message content',
      level='exploration', engine='enum+msggen',
      technique='exhaustive enumeration of the message lattice over the real clone / copy_legal / move_legal',
      design_ref='DESIGN.md §3 C11',
      text='For every lattice point: clone() encodes to the same bytes; copy_legal into an empty deep-constructed message of the same type transfers every field '
           'and group element (same bytes, returned count = number of fields) and leaves the source intact; move_legal leaves the target equal to the source, '
           'and the emptied source is destroyed under ASan.',
      level_note='As C01. Messages decoded from input whose fields are not in schema order are not part of the lattice (messages are built through the API).',
      rule=_RULE, assumptions=_ASSUME, parts=_parts('C11', (3, 1), (2, 1)))
