from registry import check

check('C12',
      title='Metadata lookup tables behave as exact maps',
      level='model_checking', engine='enum + bfs',
      technique='part a: exhaustive enumeration of the key space (all 65536 tags, msgtypes / long names with all one-edit near misses) over the real generated tables of both compiled schemas, '
                'oracle = independent model of the schema XML; part b: explicit-state breadth-first search over all operation histories of the real presorted_set up to a depth bound, '
                'reference std::map compared by a complete observation battery after every step, ASan/UBSan on',
      design_ref='DESIGN.md §3 C12, §2.2, §2.6',
      text='Part a (lookup), for FIX42UTEST and FIX44: every tag 0..65535 through GeneratedTable::find_ptr / find_pair_ptr / find_ref of the field table, F8MetaCntx::find_be (index array) and '
           'create_field, plus keys above 65535 (65536+tag, 2^31|tag, 2^32-1 ...) through the table with the unsigned key; every msgtype of the schema, "header", "trailer", "" and every string '
           'one edit away (one character removed, replaced or inserted over the msgtype alphabet + "Aa0z~ ", case flipped), every string of at most 2 printable ASCII characters and every '
           '3-character string over that alphabet through _bme.find_ptr / find_bme / create_msg; every field and message '
           'long name (including the fields f8c does not generate because no message uses them) and their near misses (one character removed, case flipped, shifted by +-1, every proper prefix, '
           'X prepended / appended, blank appended) through reverse_find_be / reverse_find_fnum / create_field(name) / reverse_find_bme / create_msg_from_longname; and for the header, the trailer, '
           'every message and every (nested) repeating group instance (create_msg, find_add_group, create_group): all tags 0..65535 through FieldTraits::has, has(hint), get_presence().find(key), '
           'find(value), find(key, answer), getPos, is_group, is_mandatory, is_present, getComp, getval. Oracle: hit exactly when the schema model defines the key (field defined and used / msgtype / '
           'name / member of that container); the entry is that key\'s: name, number, realm presence, type class of the created field, msgtype and name of the created message, tag, type, group and '
           'mandatory flags of the trait; positions distinct and in schema order; member count. '
           'Part b (pset): presorted_set<int, KV, KVLess> (generic template, own key/value struct) and presorted_set<unsigned short, FieldTrait, Compare> (the specialisation FieldTraits uses, '
           'without hash array), each from 10 start states (default, sized constructor 0 and 2, sorted array of 0, 1, 3 elements; reserve 0 % and 30 %); events insert(k, payload A|B) for k = 1..5, '
           'clear, insert-range {2,4}, {1,3,5}, {}; all histories up to the depth bound, states deduplicated by (contents, capacity, array allocated). After every event: size, empty, iteration '
           'order and payloads, find(key) / find(value) const and non-const, find-with-answer (flag and insertion position), at(i) for i <= size+1 for keys 0..6 against std::map; the value insert '
           'returns (flag; position of the new element / end()); every history is run a second time with the lookups only at the end.',
      level_note='Part a is a complete enumeration of the tag domain (find_be takes an unsigned short) and a bounded one for strings (all keys within one edit of a defined key, not all strings); '
                 'the states / transitions figures of the evidence are those of part b only. Part b is bounded by depth (6 quick / 8 thorough), 5 keys and 2 payloads; growth, insertion at front / '
                 'middle / end, duplicates, clear + reuse and range inserts all occur within it (see the outcome histogram). "header" and "trailer" are entries of the msgtype table by design '
                 '(F8MetaCntx looks them up itself) and are expected as hits; creating them through create_msg is not exercised. The mandatory flag of BeginString, BodyLength, MsgType (header) '
                 'and CheckSum (trailer) is not judged: f8c clears it on purpose. Insert into a set that carries a hash array is documented as unsupported and not exercised. '
                 'Leaks are outside the property (detect_leaks=0). Trusted: vp/schema_model.py, std::map.',
      rule='part a: case = (schema, table, key); non-trivial = the key is defined or one edit / one tag away from a defined key; part b: case = history, distinct = new canonical state',
      assumptions=['f8c generates only fields that some message, the header or the trailer uses (documented: -f generates all)', 'a sanitizer abort ends the process: the driver restarts the shard, the harness re-runs the search skipping exactly the aborted histories (kept in a file next to the cur file)'],
      budget=dict(quick=400, thorough=1500),
      parts=[dict(name='pset', harness='c12_pset', variant='san',
                  quick=dict(args=['depth=6'], deadline=150, shards=20),
                  thorough=dict(args=['depth=8'], deadline=400, shards=20)),
             dict(name='lookup', harness='c12_lookup', variant='san',
                  quick=dict(args=['spaces=utest,fix44'], deadline=240),
                  thorough=dict(args=['spaces=utest,fix44'], deadline=800))])
