from registry import check

_ASSUME = ['UBSan alignment and vptr checks are off; generated schema code is compiled with ASan only',
           'the data value is put into the message with Field<f8String>::set(const f8String&) (explicit length); create_field(tag, const char*) cannot carry a NUL',
           'the independent schema model (vp/schema_model.py) says which members are LENGTH / DATA typed and in which order; a pair = a LENGTH member directly followed by a DATA member',
           'the field limit is FIX8_MAX_FLD_LENGTH - 1 = 2047 bytes (the decoder rejects a longer Length value by design)',
           'strict decoding with checksum verification (factory defaults)']


def _p(sc, q, t):
    return dict(name=sc, harness='c06_data', variant='san', hang_s=1200,    # real hangs are caught by the harness' own CPU-time watchdog (2 s per case)

                quick=dict(args=['schema=' + sc] + q, deadline=150), thorough=dict(args=['schema=' + sc] + t, deadline=420))


check('C06',
      title='Length-prefixed data fields carry arbitrary bytes',
      level='exploration', engine='enum+msggen',
      technique='exhaustive enumeration of a finite lattice (every Length/data pair placement of both schemas x all byte strings up to a length over a 5-byte alphabet + boundary-length patterns) '
                'through the real encoder and the real Message::factory, byte-exact read-back oracle',
      design_ref='DESIGN.md §3 C06',
      text='For both compiled schemas every placement of a Length/data pair is taken from the independent schema model: header SecureDataLen/SecureData and XmlDataLen/XmlData and trailer '
           'SignatureLength/Signature in every message type, every body pair (RawData, EncodedText, EncodedIssuer, ...) and every pair inside a repeating group at any depth (FIX42UTEST 235 placements, '
           'FIX44 695). For each placement the message is built through the API in its mandatory-only shape plus the pair plus the next ordinary member after the data field (a pair inside a group is put '
           'into both of two elements, so a field always follows), with content = every byte string of length <= 3 (quick) / <= 4 (thorough) over {A, SOH, =, 0x00, 0xFF} and, at lengths 10, 100 and 2047: all-A, '
           'all-SOH, SOH "10=000" SOH at the start / at the end, SOH "35=D" SOH at the start / at the end, SOH first, SOH last, = first. The message is encoded by the real encoder; the wire must '
           'carry Length = size and the content bytes; it is decoded by the real Message::factory; the decoded data field must hold exactly the content and every other field must equal what was built.',
      level_note='The property quantifies over all byte contents up to the field limit; the check is exhaustive over the stated contents only (all strings up to length 3 / 4 over five bytes chosen from '
                 'the codec\'s special characters, and patterns at three lengths up to the limit 2047). Placements are complete for the two compiled schemas; other schemas, more than one pair per message, '
                 'and permissive / no-checksum decoding are not covered.',
      rule='case = (schema, placement, content); all distinct; non-trivial = the content contains SOH or "="',
      budget=dict(quick=320, thorough=900),
      assumptions=_ASSUME,
      parts=[_p('utest', ['maxlen=3'], ['maxlen=4']), _p('fix44', ['maxlen=3'], ['maxlen=4'])])
