from registry import check

_ASSUME = ['sim runtime: one virtual clock (clock_gettime / nanosleep replaced in the harness executable), threads created by fix8 are registered but never run',
           'the supervision tick is Session::heartbeat_service() called by the driver, as the session timer does once a second']

check('C22', title='Heartbeat and test-request supervision follows the protocol',
      level='model_checking', engine='sim+bfs',
      technique='explicit-state breadth-first search over virtual timelines (waits, ticks, inbound and outbound traffic) on the real Session in the coroutine process model (real FIXReader and FIXWriter), reference supervisor checked at every step',
      design_ref='DESIGN.md §3 C22',
      text='For each heartbeat interval H and each role (initiator, acceptor, acceptor configured with 3H+1 whose client logs on with HeartBtInt=H: the negotiated interval governs) every history up to the depth bound over {wait d seconds then tick for d in {1, H-1, H, floor(1.2H), floor(1.2H)+1}, inbound Heartbeat, inbound '
           'TestRequest (two ids), inbound application message, inbound application message two numbers ahead of sequence (puts the session into resend_request_sent), outbound send} runs on a real Session whose inbound bytes pass the real reader (which stamps the receive time). A reference supervisor '
           '(last sent, last received or TestRequest sent, pending flag) says for every tick whether a Heartbeat, a TestRequest, a Logout with termination or nothing must appear; TestRequests must be '
           'answered with the same TestReqID and a Heartbeat must clear a pending TestRequest.',
      level_note='Whole-second timelines (the library ticks once a second), so "more than H plus 20 percent" and the integer arithmetic of the code coincide: no unconstrained band is needed.',
      rule='history over the event menu per (role, H); distinct = new canonical state (session state, idle-send and idle-receive seconds capped at 2H+3, pending flag)',
      assumptions=_ASSUME,
      parts=[dict(name='bfs', harness='session_hb', variant='san', quick=dict(args=['depth=5', 'H=2,5'], deadline=100), thorough=dict(args=['depth=8', 'H=1,2,5,7,30'], deadline=800))])

check('C23', title='Logon acceptance and CompID identity are enforced consistently',
      level='model_checking', engine='sim+enum',
      technique='exhaustive enumeration of the complete product of logon configurations and CompID combinations on the real Session, plus all ordered pairs of session identities',
      design_ref='DESIGN.md §3 C23',
      text='Acceptor: TargetCompID {own, other} x SenderCompID {listed name, other} x client list {empty, contains the sender, contains someone else} x enforcement {on, off} x ResetSeqNumFlag '
           '{absent, N, Y} x HeartBtInt {5, 30} x store {none, control record (5,7)} x numbers handed to Session::start {none, outbound 9, outbound 9 and inbound 4} (864 cases), each followed by one application message each way. Logon must complete iff (target = own or enforcement off) '
           'and (list empty or sender listed); the reply echoes 108; with 141=Y the reply carries 34=1 and the next inbound expected is 2; otherwise the numbers given to start(), else the recovered ones, are used. Initiator with identity (S,T): '
           'replies from all four CompID combinations under enforcement on/off. SessionID == / != on all ordered pairs over {A,B}^2 and on itself.',
      level_note='The product is complete for the stated dimensions; authentication callbacks and login schedules are not varied.',
      rule='case = one point of the product; all distinct and non-trivial',
      assumptions=_ASSUME,
      parts=[dict(name='logon', harness='session_logon', variant='san', quick=dict(args=[], deadline=100), thorough=dict(args=[], deadline=300))])
