from registry import check

check('C10',
      title='Enumerated-value lookups describe only the actual value',
      level='exploration', engine='enum',
      technique='exhaustive enumeration, per field with an enumerated domain, of a stated finite value lattice of the field\'s type over the real RealmBase::get_rlm_idx / is_valid / '
                '_descriptions and the real message printer; oracle = set membership / range inclusion computed from an independent model of the schema XML',
      design_ref='DESIGN.md §3 C10, §2.6',
      text='For every field with a realm in the two compiled schemas (FIX42UTEST: 105 fields, FIX44: 245 compiled of 253 defined; the other 8 are not used by any message and f8c does not generate them) '
           'every value of the lattice is run: char and Boolean fields all 256 byte values (NUL and SOH included - the constructors carry them); int fields every integer in [min-pad, max+pad] plus '
           'INT_MIN, INT_MIN+1, -1, 0, INT_MAX-1, INT_MAX (thorough: also every 2^k-1, 2^k, 2^k+1 of both signs); string fields every string of length <= L over the characters that occur in the '
           'field\'s members plus 0 A a ~ (and blank for the multiple-value types), plus every member with one character removed, replaced or inserted at every position. Each value goes through three '
           'access paths of the real code: the RealmBase of the generated metadata (get_rlm_idx<T>, is_valid<T>), a Field<T,1> object carrying that realm (get_rlm_idx(), is_valid()), and the generated '
           'field object made by the metadata constructor (virtual get_rlm_idx()), which is then put into a real message / header / trailer / group element that the schema allows it in and printed with '
           'print_field and print. Judged against the schema model: index >= 0 exactly for members; the index is inside the table, holds exactly that value and its description is one the schema gives for '
           'exactly that value; is_valid exactly for members; the printed field carries a description exactly for members and then that value\'s. A third part runs the same oracle over eight hand-built '
           'realms laid out as f8c lays them out (int, char, float and string ranges incl. a one-point range, sets with negative / high-bit members, a float set with members +- 1..2 ulp (64 thorough), '
           'midpoints, +-0, +-inf, +-DBL_MAX), because neither compiled schema contains a range or a float realm although the library code has those branches.',
      level_note='Exhaustive over the stated lattice per field; complete for the char type, a window for int, short strings and near misses for string. Boolean fields keep only Y/N of their input, so '
                 'the field-level and printer oracles are applied to the value the field holds; the realm itself is still asked about all 256 chars. In a range realm only the two end values have a '
                 'description of their own: for interior values only "an index exists" is judged, not which. A multi-character enum text of a CHAR field (FIX44 MiscFeeType "10") is not a value of the '
                 'field\'s type and is ignored by the oracle. Trusted: vp/schema_model.py (xml.etree reading of the schema), operator< / == of the value types.',
      rule='case = (schema, field, value); distinct by construction except that a near miss of a member can coincide with one of the short strings (it is then run twice); non-trivial = the value is a member, or a non-member that is not above the largest member (the binary search lands on a '
           'neighbouring member), or any value of a range realm',
      assumptions=['values are built through the library\'s own constructors; an int whose decimal text the text constructor does not reproduce is skipped for the printer path (none occurred)',
                   'NaN is not in the float lattice (the comparisons the lookup is built on are not a strict weak order there); float realms do not occur in the compiled schemas',
                   'part synthetic: RealmBase objects built in the harness with the layout f8c generates (values ascending, {lower, upper} for a range)'],
      parts=[dict(name='realms', harness='c10_realm', variant='san',
                  quick=dict(args=['spaces=utest,fix44,syn', 'strlen=3', 'intpad=3', 'synstrlen=3'], deadline=100),
                  thorough=dict(args=['spaces=utest,fix44,syn', 'strlen=4', 'intpad=2000', 'synstrlen=5'], deadline=880))])
