from registry import check

_ASSUME = ['sim runtime: virtual clock, threads created by fix8 are registered but never run (their work is injected as explicit events)',
           'the counterparty is scripted and always in sequence; inbound bytes enter through Session::process as the reader thread would hand them over',
           'canonical state = session state, both sequence numbers, batch buffer size, stored key set, control record, reference counter; '
           'store contents are judged against the wire at every step, so keys need only the key set']
_RULE = ('history = sequence of events from {send, heartbeat, in-app, batch2, in-testrequest, testrequest, in-resendrequest(1,0), batch3, restart, in-resendrequest two numbers ahead of sequence, in-resendrequest as PossDup one below the expected number} replayed on a fresh real '
         'Session per configuration (acceptor/initiator x memory/file/no persister, pre-seeded control record, configured start number, reset flag); '
         'distinct = new canonical state; every history of length <= depth whose prefix reached a new state is executed')


_SR = ('Part send-vs-receive (schedule search, harness c25_senders): sender threads (send / send_batch) and one thread that hands in-sequence Heartbeats to Session::process as the reader thread does, '
       'on one real Session in the threaded model over a memory or file store, under the cooperative scheduler (scheduling points at every lock operation, the socket write and, for the file store, every '
       'lseek/read/write); every schedule with at most b preemptions; at the end the control record must equal (next outbound, next inbound), the store must return the transmitted bytes under every number, '
       'and a fresh FilePersister opened on the same files must say the same.')
_SRA = ['part send-vs-receive: cooperative scheduler, exactly one thread runs, code between two scheduling points is atomic (see C25)']


def _parts(prop, dq, dt):
    sr = dict(C16=(['pm=t', 'ops=ss,rr', 'pk=m', 'bound=3'], ['pm=t', 'ops=sb,rrr', 'pk=m', 'bound=4']),
              C17=(['pm=t', 'ops=sb,rr', 'pk=f', 'bound=2'], ['pm=t', 'ops=sb,bs,rr', 'pk=f', 'bound=3']))[prop]
    return [dict(name='bfs', harness='session_num', variant='san',
                 quick=dict(args=['prop=' + prop, 'depth=%d' % dq], deadline=100),
                 thorough=dict(args=['prop=' + prop, 'depth=%d' % dt], deadline=800)),
            dict(name='send-vs-receive', harness='c25_senders', variant='schedp', inproc=True,
                 quick=dict(args=sr[0], deadline=60), thorough=dict(args=sr[1], deadline=500))] + ([
            # two sessions in one process, one sender thread each: what the library keeps static is shared between them
            dict(name='two-sessions', harness='c25_senders', variant='schedp', inproc=True,
                 quick=dict(args=['pm=t2', 'ops=sb,bs', 'pk=m', 'bound=2'], deadline=60), thorough=dict(args=['pm=t2', 'ops=sbs,bsb', 'pk=m', 'bound=3'], deadline=500)),
            dict(name='two-sessions-pipelined', harness='c25_senders', variant='schedp', inproc=True,
                 quick=dict(args=['pm=p2', 'ops=s,s', 'pk=m', 'bound=0'], deadline=60), thorough=dict(args=['pm=p2', 'ops=s,s', 'pk=m', 'bound=1'], deadline=900))] if prop == 'C17' else [])


check('C16', title='Outbound sequence numbers are consecutive and persisted',
      level='model_checking', engine='sim+bfs',
      technique='explicit-state breadth-first search over event histories replayed on the real Session (state = history, deduplicated by canonical key), reference numbering model checked at every step; plus preemption-bounded exhaustive schedule search of sending against inbound processing',
      design_ref='DESIGN.md §3 C16, §2.1, §2.2',
      text='Every history up to the depth bound over the event menu is replayed on a fresh real Session+Connection+persister over a scripted socket; after each event the '
           'wire output is compared with a reference counter (each new message carries previous+1, first = configured/recovered start, no number reused across restarts) and '
           'the persisted control record must equal the session\'s next send / next expected receive numbers. ' + _SR,
      level_note='Bounded by history depth and the event menu; a Logout sent with the no-increment flag (session terminating) is outside the menu. Schedule search: 2 sender steps + 2 inbound steps at preemption bound 3 (quick).',
      rule=_RULE + '; send-vs-receive: execution = one complete schedule', assumptions=_ASSUME + _SRA, parts=_parts('C16', 4, 6))

check('C17', title='Sent application messages are stored exactly as transmitted',
      level='model_checking', engine='sim+bfs',
      technique='explicit-state breadth-first search over event histories replayed on the real Session; store compared with the bytes seen on the scripted socket after every event; plus preemption-bounded exhaustive schedule search of sending against inbound processing over the file store',
      design_ref='DESIGN.md §3 C17',
      text='Same search as C16; after every event, for every sequence number up to the latest + 3, the persister returns exactly the bytes of the application message '
           'that went on the wire under that number (batches are split by BodyLength), and returns nothing for numbers used by administrative messages or not used at all. ' + _SR + ' Parts two-sessions: the same schedule search with two Session objects in the process, one sender thread each (threaded: preemption bound 2, pipelined with both writer threads: bound 0, that is every order of the voluntary switches, quick), each session judged on its own wire and store.',
      level_note='As C16; schedule search over the file store with its system calls as scheduling points, preemption bound 2 (quick).', rule=_RULE + '; send-vs-receive: execution = one complete schedule',
      assumptions=_ASSUME + _SRA, budget={'quick': 260, 'thorough': 2800}, parts=_parts('C17', 4, 6))
