from registry import check

_ASSUME = ['UBSan alignment and vptr checks are off (calc_chksum reads unaligned words; has_group_count downcasts by design)',
           'generated schema code is compiled with ASan only (no UBSan) for build time',
           'ASan leak detection is off: a message object leaked by factory when decode throws is not a memory-safety error in the sense of the property',
           'inputs longer than FIX8_MAX_MSG_LENGTH (8192) are outside the quantifier and are skipped (counted in the outcome histogram)',
           'hang = more than 2 s of process CPU time inside one case (profiling timer), or the driver\'s wall-clock watchdog',
           'encode(char**) is judged with a caller buffer of exactly HEADER_CALC_OFFSET + (bytes from "35=" to the end) + 1 terminator byte, ending at a PROT_NONE page']


def _p(name, schema, q, t, **kw):
    d = dict(name=name, harness='c03_total', variant='san', hang_s=1200,    # real hangs are caught by the harness' own CPU-time watchdog (2 s per case); this one only guards against a stalled process

             quick=dict(args=['schema=' + schema] + q[0], deadline=q[1]),
             thorough=dict(args=['schema=' + schema] + t[0], deadline=t[1]))
    d.update(kw)
    return d


_parts = []
for sc in ('utest', 'fix44'):
    _parts += [
        _p('tok-' + sc, sc, (['fam=tok', 'msgs=D', 'ntok=2', 'ntokall=1'], 100), (['fam=tok', 'msgs=D,A', 'ntok=3,2', 'ntokall=1'], 300)),
        _p('mut-' + sc, sc, (['fam=pre,sub,sub2', 'subseeds=2', 'sub2max=24'], 100), (['fam=pre,sub,sub2', 'sub2max=60'], 300)),
        _p('small-' + sc, sc, (['fam=small,raw', 'msgs=A', 'smalllen=4', 'rawlen=4'], 100), (['fam=small,raw', 'msgs=A', 'smalllen=5', 'rawlen=5'], 300)),
        _p('enc-' + sc, sc, (['fam=enc', 'encstep=4'], 100), (['fam=enc'], 200)),
    ]

check('C03',
      title='Codec is memory-safe and total on arbitrary input',
      level='exploration', engine='enum+msggen',
      technique='exhaustive enumeration of a finite adversarial input family (token sequences around the 32/2048/8192-byte buffers, every prefix and every '
                'single-byte substitution of seed messages, all short strings over a small alphabet, x decoder flags) through the real Message::factory and of a '
                'boundary-length family through the real encoders, with ASan/UBSan, a guard page and a CPU-time watchdog as oracle',
      design_ref='DESIGN.md §3 C03',
      text='Decode side, for both compiled schemas (FIX42UTEST, FIX44) and (no_chksum, permissive) in {F,T}^2: (1) token sequences = preamble variant (BeginString / BodyLength / MsgType '
           'values of 0..8000 bytes, missing or reordered framing fields) x up to 2 (quick) / 3 (thorough) tokens drawn from a table of about 150 tokens built from the schema model (all of them singly, 42 core tokens in pairs, 24 in triples) (known header/body/trailer '
           'fields, group counts 0/1/2/999999999/-1 with and without elements, nested groups, Length fields 0..4294967295 with and without their data field, unknown / aliased / empty / '
           'non-numeric tags, tags of 5..8000 digits, values of 0..8000 bytes, out-of-domain texts for int / float / char / boolean / date-time fields, unterminated fields) x placement '
           'before / after / without the mandatory body fields x trailer correct / absent / wrong / unterminated; (2) every prefix of four seed messages (Logon with a Length/data pair, '
           'Logon with all members, NewOrderSingle with all members and two elements per group, the message with the deepest group nesting) with and without a valid trailer appended; '
           '(3) every single-byte substitution from {SOH,=,0,9,A,0x00,0xFF} at every position of the seeds (quick: of the two Logon seeds), and all pairs of substitutions within the first 24 (quick) / 60 (thorough) '
           'bytes of the shortest seed; (4) a complete Logon (header + mandatory body) or the bare 8/9/35 triple '
           'followed by every string of length <= 4 (quick) / 5 (thorough) over {1,3,5,9,=,SOH,A} with and without a valid trailer, and every string of length <= 4 / 5 over '
           '{8,9,=,SOH,1,A,3,5} on its own. Each input is handed to Message::factory in a heap string of exactly its size; the call must return a message (which is then re-encoded and '
           'destroyed) or throw a std::exception. Encode side: every message type (quick: every fourth) in the mandatory-only shape with one string field stretched to 100..70000 bytes, in particular so that '
           'the bytes from "35=" on plus the terminator number 8191, 8192, 8193, 8194, through encode(f8String&) and encode(char**), each in a forked child.',
      level_note='The property quantifies over all byte strings up to 8192 bytes (2^65536 of them) and all messages; the check is exhaustive only over the stated finite family, which is '
                 'built from the shortcuts visible in the code (buffer sizes 32 / 2048 / 8192, 16-bit tag conversion, the Length/data look-ahead, the group element loop). Inputs whose badness needs a '
                 'combination of more than three tokens or more than two byte edits of a seed are not covered, nor are schemas other than the two compiled ones. Memory errors that neither ASan nor '
                 'UBSan nor the guard page can see (e.g. an overflow inside one heap object) are not detected.',
      rule='case = (family, schema, parameters, decoder flags); every case is a distinct input or a distinct flag pair on it; non-trivial (decode) = decoding got past the '
           'BeginString/BodyLength/MsgType triple, i.e. the outcome is a message or an exception other than InvalidMessage; non-trivial (encode) = encoded message longer than 2048 bytes',
      budget=dict(quick=400, thorough=900),
      assumptions=_ASSUME, parts=_parts)
