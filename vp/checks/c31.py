from registry import check

_SCHED31 = ['cooperative scheduler: exactly one thread runs; scheduling points at pthread create/join, spin lock/unlock and sleeps; clock_gettime / clock_nanosleep / nanosleep are the scheduler\'s virtual clock '
            '(the harness checks at start-up that Tickval::now/get_tickval (std::chrono) and hypersleep end there); virtual time advances only when no thread is runnable, so a callback takes no time',
            'sequential consistency (the scheduler serialises the two threads; the timer\'s own synchronisation is one spin lock and an atomic stop flag)',
            'executions run in process while none fails and in forked children from the first failing one on; a replayed prefix that diverges is a hard error of the check',
            'one scheduling thread (main) calls schedule()/clear(); callbacks do not call the timer (the code documents that the timer lock is held during a callback)']

check('C31', title='Timer events fire no earlier than scheduled and in due order',
      level='model_checking', engine='sched',
      technique='preemption-bounded exhaustive exploration of thread schedules of the real Timer<T> (its own thread started with Timer::start(), a scripted caller thread) under a cooperative scheduler with '
                'virtual time, for every caller script up to a length; oracle on the callback log of every complete execution',
      design_ref='DESIGN.md §3 C31, §2.3',
      text='A real Timer<Mon> with granularity 1 ms runs its real thread body; the main thread executes a script, a sequence of steps from {schedule a one-shot event, schedule a repeating event whose callback '
           'returns true / returns false on its 1st / on its 2nd run, schedule a one-shot event whose callback takes 2 ms} x delay {1,2,5} ms, sleep {1,3} ms, clear() (18 step kinds), then sleeps to the horizon (12 ms), calls stop(), join() and destroys the timer. '
           'Every script up to the length bound is enumerated (scripts are the sharded outer dimension) and for each script every schedule of the two threads with at most b preemptions is executed. '
           'Callbacks record (event, virtual time, global sequence). Checked per execution: every run is at or after its due time (schedule() call + delay; for a repeat: previous run + interval); when a callback '
           'runs, no other event pending at that moment has an earlier due time (ties either way); a one-shot event runs at most once, a repeating event never runs again after its callback returned false; no event '
           'whose schedule() had returned before clear() was called runs after that clear() returned; an event still pending when stop() is called was due less than 2 granules before (bounded reading of '
           '"pending events run"); the execution ends (no deadlock, livelock, crash, sanitizer report, thread left behind). Part tsan repeats the schedules of the short scripts under ThreadSanitizer (the timer\'s queue is shared between the caller and the timer thread and must only be touched under its lock).',
      level_note='quick: all 6 175 scripts of length <= 3 at preemption bound 2 (plus the default schedule of every script of length <= 2 under ASan with a freshly created timer thread per execution); thorough: all scripts of '
                 'length <= 4 at bound 3 and all scripts of length 5 at bound 1 (ASan: length <= 2 at bound 1; a thread creation under ASan costs 10-20 ms here, hence the small ASan parts). Every bound named is run to completion (exhaustive:true) unless the '
                 'evidence says otherwise. Delays are 1, 2, 5 ms of the property\'s 1-200 ms; one caller thread; callbacks take no virtual time; timeToWait = 0 (documented as ignored) is not in the space.',
      rule='execution = one complete schedule of one script; distinct by construction; non-trivial = at least one preemption. Counters: scripts, schedules, distinct (script, callback log) pairs, '
           'shards_completed_bound_b = shards (of 16) that finished every script of theirs at bound b',
      assumptions=_SCHED31 + ['in the build without a sanitizer the OS thread that runs the timer body is recycled between executions (harness/c31_timer.cpp, pool; one execution = one start and one return of '
                              'Timer::operator() on it); the ASan parts create a real thread per execution and give the same schedule counts and distinct outcomes for the same arguments (241 / 241 at bound 0, 2 267 / 299 at bound 1, 8 860 / 299 at bound 2 for length <= 2; pool=0 gives the same in the plain build)'],
      parts=[dict(name='main', harness='c31_timer', variant='schedp', inproc=True,
                  quick=dict(args=['maxlen=3', 'bound=2'], deadline=60), thorough=dict(args=['maxlen=4', 'bound=3'], deadline=420)),
             dict(name='len5', harness='c31_timer', variant='schedp', inproc=True, thorough_only=True, thorough=dict(args=['minlen=5', 'maxlen=5', 'bound=1'], deadline=400)),
             # the same scripts in units of one second (granularity, delays, intervals, sleeps, horizon): intervals of 1, 2 and 5 s — arithmetic on large millisecond counts
             dict(name='seconds', harness='c31_timer', variant='schedp', inproc=True,
                  quick=dict(args=['maxlen=2', 'bound=1', 'scale=1000'], deadline=60), thorough=dict(args=['maxlen=3', 'bound=2', 'scale=1000'], deadline=420)),
             dict(name='tsan', harness='c31_timer', variant='tsan', inproc=True,
                  quick=dict(args=['maxlen=2', 'bound=1'], deadline=90), thorough=dict(args=['maxlen=3', 'bound=2'], deadline=500)),
             dict(name='asan', harness='c31_timer', variant='sched', inproc=True,
                  quick=dict(args=['maxlen=2', 'bound=0'], deadline=60, shards=4), thorough=dict(args=['maxlen=2', 'bound=1'], deadline=300))])
