from registry import check

check('C07',
      title='Checksum function computes the byte sum mod 256 within bounds',
      level='exploration', engine='enum',
      technique='exhaustive enumeration of a finite input lattice (sizes x offsets x lengths x contents) over the real calc_chksum, guard-page oracle',
      design_ref='DESIGN.md §3 C07',
      text='Every (buffer size, offset, length) triple up to the stated size is executed against the real calc_chksum with six content '
           'patterns (and all contents for sizes <= 2), once with an inaccessible page directly after the permitted range and once with one '
           'directly before it; the result is compared with a plain byte loop. Sizes cross the 8-byte stride, the 256-byte carry flush and 512. '
           'Long buffers: every size up to longmax (4500 quick / 8000 thorough) with all-0xff, each single byte lane of the 4-byte stride all 0xff (two phases) and a ramp, offsets 0..3, the three longest lengths: the carry counters of the strided loop overflow only after more than 1000 such bytes.',
      level_note='Exhaustive over the stated lattice only: contents are patterns, not all byte strings; sizes above the bound are not run. '
                 'Trusted: the reference loop, mprotect/SIGSEGV as the out-of-range-read oracle.',
      rule='case = (size, offset, len, content pattern[, hot byte]); all distinct by construction; non-trivial = size >= 8 (the 4-byte strided loop runs) or size-2 exhaustive contents',
      assumptions=['x86-64: unaligned 32-bit loads are legal (UBSan alignment check off)', 'contents are drawn from 6 patterns + all contents for size<=2'],
      parts=[dict(name='chksum', harness='c07_chksum', variant='san',
                  quick=dict(args=['maxsize=300', 'hotmax=64', 'longmax=4500'], deadline=90),
                  thorough=dict(args=['maxsize=700', 'hotmax=700', 'longmax=8000'], deadline=600))])

