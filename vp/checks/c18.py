from registry import check

check('C18', title='Resend requests are answered with a complete, faithful replay',
      level='model_checking', engine='sim+enum',
      technique='exhaustive enumeration of (persister, role, n sent numbers, every stored/unstored subset, every request range) over the real Session; reference replay model',
      design_ref='DESIGN.md §3 C18, Appendix B',
      text='For every n up to the bound, every assignment of the n sent numbers to application (stored) or administrative (not stored), every ResendRequest (B,E) in '
           '{0..n+3}^2, all three persister kinds and both roles, the real Session answers on a scripted socket; the reply is compared message by message with the reference: '
           'stored numbers replayed ascending with original MsgSeqNum and body, PossDupFlag=Y and OrigSendingTime = original SendingTime; every maximal run of unstored numbers '
           'covered by one GapFill whose MsgSeqNum is the first number of the run and whose NewSeqNo is the number after it (a run reaching the latest number may announce any '
           'never-used number); nothing else except a Reject for an invalid range; the next new message continues from the last NewSeqNo announced.',
      level_note='Bounded by n; stores are exactly the subsets reachable by sending application vs heartbeat messages; gaps created by crashes are C27\'s subject.',
      rule='case = (persister, role, n, stored-subset mask, B, E); all distinct; non-trivial = a persister is present, at least one number is stored and B >= 1',
      assumptions=['sim runtime (virtual clock, threads never run)', 'one distinct SendingTime per message (virtual clock advanced 1 s between sends)'],
      parts=[dict(name='resend', harness='session_resend', variant='san',
                  quick=dict(args=['n=5', 'n2=4'], deadline=100), thorough=dict(args=['n=7', 'n2=6'], deadline=800))])
