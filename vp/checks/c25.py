from registry import check

_SCHED = ['cooperative scheduler: exactly one thread runs; scheduling points at pthread create/join, spin and mutex lock/unlock/trylock, sched_yield, sleeps (virtual clock), the socket write and every FastFlow atomic of the outbound queue (ff_shim.hpp)',
          'sequential consistency (x86-TSO plus FastFlow\'s barriers are assumed to give it for the queue)',
          'accesses between two scheduling points run atomically in the functional variants; unsynchronised accesses are the business of the tsan parts, which run the same explored schedules with ThreadSanitizer watching '
          '(scheduler TU uninstrumented, raw futex hand-offs invisible to it; interposed lock functions and FastFlow atomics carry acquire/release semantics)',
          'the session is put into the established state directly (no logon exchange, heartbeat timer thread never run); in the pipelined model the writer thread is ended by cancelling it and feeding it one last message, '
          'because FIXWriter::stop() pushes a null pointer which FastFlow\'s push asserts on (shutdown is not part of this property)',
          'a replayed prefix that diverges is a hard error of the check']


def _p(name, variant, q, t=None, thorough_only=False, qd=70, td=600):
    d = dict(name=name, harness='c25_senders', variant=variant, inproc=True)
    if q:
        d['quick'] = dict(args=q, deadline=qd)
    if t:
        d['thorough'] = dict(args=t, deadline=td)
    if thorough_only:
        d['thorough_only'] = True
    return d


check('C25', title='Concurrent senders get unique consecutive sequence numbers',
      level='model_checking', engine='sched',
      technique='preemption-bounded exhaustive exploration of thread schedules of the real send path (Session::send / send_batch, FIXWriter::write / write_batch / execute, Session::send_process, persister) under a cooperative '
                'scheduler, threaded and pipelined process models; oracle on every complete execution; the same schedules repeated under ThreadSanitizer for the data-race clause',
      design_ref='DESIGN.md §3 C25, §2.3',
      text='N sender threads run scripts of send() (message handed over, kept by the caller: destroy=false, or passed by reference: send(Message&)) and send_batch() calls on one real Session + ClientConnection over a scripted socket and a real MemoryPersister / FilePersister; in the pipelined model the real writer '
           'thread pops the real FastFlow queue. Every schedule with at most b preemptions is executed. Checked per execution: the messages on the wire carry MsgSeqNum start, start+1, ... in wire order; every message handed '
           'to send/send_batch is on the wire exactly once and nothing else is; every socket write is a sequence of whole messages; the store returns under each number exactly the bytes transmitted under it and holds nothing '
           'else; the control record and the session counter equal start + number of messages; every send reports success; no deadlock, livelock (a message never written), crash; and in the tsan parts no ThreadSanitizer report.',
      level_note='2 threads x 2 sends at bound 4, 3 threads (two sends + a batch) at bound 3, batches against singles at bound 3, file store (its system calls are scheduling points), pipelined 2 x 1 at bound 2 and send against batch at bound 1 (quick); deeper bounds and 4 threads, capped by the deadline (thorough). '
                 '8 threads are out of reach of exhaustive search. Two sessions in one process (one sender each; what the library keeps static is shared) at bound 2, senders against a thread handing inbound application messages to Session::process at bound 3. Data-race clause: every explored schedule of the tsan parts (bound 2 threaded, bound 1 pipelined in the quick tier).',
      rule='execution = one complete schedule; distinct schedules by construction; non-trivial = at least one preemption', assumptions=_SCHED,
      budget={'quick': 330, 'thorough': 2400},
      parts=[
          _p('thr-2x2', 'schedp', ['pm=t', 'ops=ss,ss', 'bound=4'], ['pm=t', 'ops=sss,sss', 'bound=4']),
          _p('thr-3', 'schedp', ['pm=t', 'ops=s,s,b', 'bound=3'], ['pm=t', 'ops=s,sb,B', 'bound=3']),
          _p('thr-batch', 'schedp', ['pm=t', 'ops=sb,bs', 'bound=3', 'start=7'], ['pm=t', 'ops=sb,bs', 'bound=5', 'start=7']),
          _p('thr-file', 'schedp', ['pm=t', 'ops=s,b', 'pk=f', 'bound=2'], ['pm=t', 'ops=sb,bs', 'pk=f', 'bound=3']),
          _p('thr-4', 'schedp', None, ['pm=t', 'ops=s,s,s,s', 'bound=2'], thorough_only=True),
          _p('pipe-2x1', 'schedp', ['pm=p', 'ops=s,s', 'bound=2'], ['pm=p', 'ops=s,s', 'bound=3']),
          _p('pipe-keep', 'schedp', ['pm=p', 'ops=n,s', 'bound=2'], ['pm=p', 'ops=ns,sn', 'bound=2']),
          _p('thr-keep', 'schedp', ['pm=t', 'ops=ns,sn', 'bound=3'], ['pm=t', 'ops=ns,sn', 'bound=5']),
          _p('pipe-batch', 'schedp', ['pm=p', 'ops=s,b', 'bound=1'], ['pm=p', 'ops=s,b', 'bound=2']),
          _p('thr-byref', 'schedp', ['pm=t', 'ops=ms,sm', 'bound=3'], ['pm=t', 'ops=msb,bsm', 'bound=3']),
          _p('thr-two-sessions', 'schedp', ['pm=t2', 'ops=ss,ss', 'bound=2'], ['pm=t2', 'ops=sbs,ssb', 'bound=3']),
          _p('thr-in-out', 'schedp', ['pm=t', 'ops=ss,aa', 'bound=3'], ['pm=t', 'ops=sb,aaa', 'bound=4']),
          _p('tsan-thr', 'tsan', ['pm=t', 'ops=ss,ss', 'bound=2'], ['pm=t', 'ops=sb,bs', 'bound=3']),
          _p('tsan-two-sessions', 'tsan', ['pm=t2', 'ops=as,sa', 'bound=1'], ['pm=t2', 'ops=asb,sab', 'bound=2']),
          _p('tsan-pipe', 'tsan', ['pm=p', 'ops=s,s', 'bound=1'], ['pm=p', 'ops=s,s', 'bound=2']),
      ])
