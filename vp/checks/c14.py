"""C14 — distinct repeating-group definitions never share metadata (translation validation over schema programs)."""
import os, sys, re, time, subprocess
from registry import check
import build, sgrun, schemagen


def _args(cfg):
    d = {}
    for a in cfg.get('args', []):
        k, _, v = a.partition('=')
        d[k] = v
    return d


def _hashtool():
    return build.binpath('plain', 'c14_hashtool')


def search_collisions(a):
    """exhaustive search of the real hash over member sets of size 2 and 3 with tags in the stated bands"""
    out, stats = [], {}
    for size, bands in ((2, a['bands2']), (3, a['bands3'])):
        p = subprocess.run([_hashtool(), 'search', str(size), bands, a.get('maxcol', '400')], stdout=subprocess.PIPE, text=True, check=True)
        for l in p.stdout.splitlines():
            if l.startswith('#'):
                m = re.search(r'sets=(\d+) colliding_pairs=(\d+)', l)
                stats['hash_search_sets_size%d' % size] = int(m.group(1))
                stats['hash_search_colliding_pairs_size%d' % size] = int(m.group(2))
                continue
            x, y = l.split('|')
            out.append((tuple(int(t) for t in x.split(',')), tuple(int(t) for t in y.split(','))))
    return out, stats


def hashes(defs):
    """the tool's hash of each definition (text form of schemagen.defn_tags)"""
    p = subprocess.run([_hashtool(), 'hash'], input='\n'.join(defs) + '\n', stdout=subprocess.PIPE, text=True, check=True)
    return [int(x, 16) for x in p.stdout.split()]


def _job(f, part, a):
    return sgrun.Job(f['id'], f['xml'], part['name'], ['what=all', 'vmax=' + a.get('vmax', '2'), 'orders=' + a.get('orders', '2'), 'nelems=' + a.get('nelems', '1,2,0')],
                     types=[], msg_tags=f['tagmap'], desc=f['desc'])


GROUP_RE = re.compile(r'^\s*/// (\w+) \((\d+)\), .*?, (shares static data|is unique), hash: 0x([0-9a-f]+)\s*\n\s*// ([\w:]+)\s*$', re.M)


def _defs_by_path(f):
    """{ 'Msg0A::NoG0::NoN5201' : definition } for every group of every message of a C14 schema"""
    out = {}

    def nested(prefix, d):
        for it in d:
            if len(it) > 2:
                out[prefix + '::NoN%d' % it[0]] = (it[0], it[2])
                nested(prefix + '::NoN%d' % it[0], it[2])
    for k, e in enumerate(f['pairs']):
        for side, d in zip('ABC', e[1:]):
            p = 'Msg%d%s::NoG%d' % (k, side, k)
            out[p] = (schemagen.C14_COUNT + k, d)
            nested(p, d)
    return out


def crosscheck(f, job, part):
    """The tool's re-implementation of group_hash against f8c itself: every group comment in the generated classes header
       carries the hash f8c computed and whether it shares static data; both must be what the tool predicts (same hash for
       this definition; shared iff another group with the same count field has the same hash in this schema)."""
    recs, n, bad = [], 0, 0
    defs = _defs_by_path(f)
    paths = sorted(defs)
    hs = dict(zip(paths, hashes([schemagen.defn_tags(defs[p][1]) for p in paths])))
    users = {}
    for p in paths:
        users.setdefault((defs[p][0], hs[p]), []).append(p)
    seen = set()
    apart = merged = 0
    for m in GROUP_RE.finditer(job.classes_hpp):
        name, tag, share, hx, path = m.group(1), int(m.group(2)), m.group(3), int(m.group(4), 16), m.group(5)
        if path not in defs:
            continue
        seen.add(path)
        n += 2
        same_key = users[(defs[path][0], hs[path])]
        if same_key[0] == path:
            # the first (or only) definition under this count field and hash: f8c must have computed the tool's hash, and a
            # definition that is alone under its key cannot share anything
            ok = hx == hs[path] and (len(same_key) > 1 or share == 'is unique')
        else:
            # a later, different definition with the same count field and the same hash: whether the compiler gives it the first
            # one's static data is what the check proper decides; here it is only counted
            ok = True
            if hx == hs[path] and share == 'shares static data':
                merged += 1
            else:
                apart += 1
        if not ok:
            bad += 1
            recs.append({'t': 'viol', '_part': part['name'], 'clause': 'hash-reimplementation-agrees-with-f8c', 'mode': 'hash-or-sharing-differs', 'tags': ['oracle-self-check'],
                         'case': f['id'] + '|xcheck:' + path, 'observed': 'f8c: hash %x, %s' % (hx, share),
                         'expected': 'tool: hash %x%s' % (hs[path], ', is unique' if len(same_key) == 1 else ''), 'desc': schemagen.defn_show(defs[path][1])})
    missing = [p for p in paths if p not in seen]
    if missing and job.classes_hpp:
        n += 1
        bad += 1
        recs.append({'t': 'viol', '_part': part['name'], 'clause': 'hash-reimplementation-agrees-with-f8c', 'mode': 'group-comment-not-found', 'tags': ['oracle-self-check'],
                     'case': f['id'] + '|xcheck:' + missing[0], 'observed': 'no group comment for ' + ' '.join(missing[:4]), 'expected': 'one per group', 'desc': ''})
    shared_collisions = sum(1 for (k, v) in users.items() if len(v) > 1)
    recs.append({'t': 'stat', '_part': part['name'], 'evaluations': n, 'nontrivial': 0, 'violations': bad, 'done': True,
                 'outcomes': {'xcheck:hash-and-sharing-agree': n // 2 - bad, 'xcheck:definitions-with-equal-hash-under-one-count-field': shared_collisions,
                              'xcheck:equal-hash-definition-given-the-first-ones-static-data': merged, 'xcheck:equal-hash-definition-kept-apart': apart},
                 'counters': {'disagreements_checked': n}})
    return recs


def find_triples(cols, want=2):
    """three member sets with one hash: for a colliding pair (x, y) of size 2 a third set {x0 + 2, t} is looked for by running
       the real hash over every t in 5001..65535 (the hash is linear over GF(2), such a t exists for most pairs)"""
    out = []
    for (x, y) in cols:
        if len(x) != 2 or len(out) >= want:
            continue
        h = hashes([' '.join(str(t) for t in x)])[0]
        base = x[0] + 2
        used = set(x) | set(y)
        cands = [(base, t) for t in range(5001, 65536) if t not in used and t != base]
        hs = hashes([' '.join(str(t) for t in sorted(c)) for c in cands])
        for c, hc in zip(cands, hs):
            if hc == h and base not in used:
                out.append((x, y, tuple(sorted(c))))
                break
    return out


def family(tier, a):
    cols, stats = search_collisions(a)
    triples = find_triples(cols, 1 if tier == 'quick' else 4)
    stats['hash_triples_found'] = len(triples)
    return schemagen.c14_family(tier, cols, triples), stats, cols


def run_part(pid, part, tier, tmp, t_end):
    cfg = part[tier] if tier in part else part['quick']
    a = _args(cfg)
    t_end = min(t_end, time.time() + cfg.get('deadline', 90))
    fam, stats, cols = family(tier, a)
    jobs = [_job(f, part, a) for f in fam]
    done, skipped = sgrun.run_jobs(jobs, os.path.join(tmp, 'fam'), t_end)
    byid = {f['id']: f for f in fam}
    recs = []
    for k in sorted(set([0, len(fam) // 2, len(fam) - 1])):
        recs.append({'t': 'sample', '_part': part['name'], 'case': fam[k]['id'], 'desc': fam[k]['desc'] + ' :: ' + fam[k]['xml'][:6000]})
    npairs = 0
    kinds = {}
    for j in done:
        recs.extend(r for r in j.records if r.get('t') != 'sample')
        recs.extend(crosscheck(byid[j.sid], j, part))
        for e in byid[j.sid]['pairs']:
            kind = e[0]
            kinds['pairs:' + kind] = kinds.get('pairs:' + kind, 0) + 1
            npairs += 1
    c = {'family_size': len(fam), 'family_run': len(done), 'definition_pairs': npairs}
    c.update(stats)
    recs.append({'t': 'stat', '_part': part['name'], 'evaluations': 0, 'nontrivial': 0, 'violations': 0, 'done': not skipped, 'outcomes': kinds, 'counters': c,
                 'extra': {'first_schema_not_run': skipped[0].sid if skipped else None,
                           'first_collisions_found': ['%s ~ %s' % (x, y) for (x, y) in cols[:4]]}})
    return recs


def replay(pid, part, r):
    case = r['case']
    sid, _, c = case.partition('|')
    try:
        sgrun.ensure(part.get('extra_targets', []))
    except build.BuildError as e:
        print('BUILD FAILED:\n' + str(e))
        return 2
    a = _args({'args': r.get('args', [])})
    tier = sid.split(':')[1]
    fam, stats, cols = family(tier, a)
    f = fam[int(sid.split(':')[2])]
    job = _job(f, part, a)
    print('replay of %s recorded: clause=%s mode=%s' % (case, r.get('clause'), r.get('mode')))
    if c.startswith('xcheck:'):
        import tempfile, shutil
        tmp = tempfile.mkdtemp(prefix='vp-replay-', dir=os.path.join(sgrun.VERIF, 'build'))
        try:
            job.prepare(tmp)
            job.stage_f8c()
            v = [x for x in crosscheck(f, job, part) if x.get('t') == 'viol']
            for x in v:
                print('observed=%s\nexpected=%s\nclause=%s mode=%s' % (x['observed'], x['expected'], x['clause'], x['mode']))
            print('replay verdict: %s' % ('VIOLATION reproduced' if v else 'no violation'))
            return 1 if v else 0
        finally:
            shutil.rmtree(tmp, ignore_errors=True)
    return sgrun.replay_job(job, c)


_T = list(sgrun.TARGETS) + [('plain', 'c14_hashtool')]
check('C14',
      title='Distinct repeating-group definitions never share metadata',
      level='translation_validation', engine='schemagen+msggen',
      technique='complete enumeration of schema programs in which one count field is used with two different group definitions (all pairs from a small universe, plus colliding pairs '
                'found by exhaustive search of the compiler\'s real structural hash); each program is compiled by the freshly built f8c and g++ and every message is judged by the '
                'metadata comparison and the C01/C02 codec oracles against that message\'s own definition',
      design_ref='DESIGN.md §3 C14',
      text='Every schema holds, per definition pair (A, B), one NumInGroup count field that message <k>A uses with definition A and message <k>B with definition B. Pairs: all unordered pairs of '
           'the 41 member sets of size 1..3 out of 6 fields (thorough; 16 pairs to a schema; quick: four representative pairs), same top-level members with different nested groups, the same '
           'member set in a different order, the same members with different required flags, and colliding pairs: the compiler\'s group_hash (rothash of include/fix8/f8utils.hpp folded over '
           'the member numbers in ascending order, then over the nested groups\' hashes) is re-implemented over the real rothash and searched exhaustively over all member sets of size 2 '
           '(tags in one window) and size 3 (tags in two bands); the first pairs in (largest tag, lexicographic) order become schemas, some both ways round. The re-implementation is cross-checked '
           'against f8c on every group of every schema (f8c prints each group\'s hash and whether it shares static data into the generated header). Per message: member set, order, types, '
           'mandatory flags of the group as read back through the generated traits must be those of its own definition, and every lattice message populated with its own members in its own '
           'order must pass the wire-image and round-trip oracles.',
      level_note='Scope tags pair:<distinct-sets|nested-differs|same-set-different-order|same-set-different-flags|hash-collision|nested-hash-collision|hash-collision-triple> and side:<first|second> say which kind of pair a case belongs to. '
                 'The property text names different member fields and different nested groups; pairs that differ only in order or flags are part of the space and tagged separately. '
                 'Only the first colliding pairs of the search become schemas (the search itself is complete over its universe and reports the totals).',
      rule='program = one schema; disagreements_checked = metadata attribute comparisons + lattice messages judged + hash cross-checks; non-trivial = message metadata unit or lattice message with a populated group',
      assumptions=['vp/schema_model.py (xml.etree) is trusted as the statement of what the schema says',
                   'generated code is compiled -O0 with ASan only; the judge and the runtime with ASan+UBSan (no alignment, no vptr)'],
      budget=dict(quick=360, thorough=900),
      parts=[
          dict(name='pairs', kind='python', fn=run_part, replay=replay, extra_targets=_T,
               quick=dict(args=['bands2=5001-5101,13150-13250', 'bands3=5001-5041,13185-13225', 'maxcol=400', 'vmax=2', 'orders=2', 'nelems=1,2,0'], deadline=340),
               thorough=dict(args=['bands2=5001-13250', 'bands3=5001-5041,13185-13225', 'maxcol=400', 'vmax=3', 'orders=3', 'nelems=1,2,0'], deadline=780)),
      ])
