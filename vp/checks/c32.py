from registry import check

check('C32',
      title='XML configuration parser preserves element trees',
      level='exploration', engine='enum',
      technique='exhaustive enumeration of a finite lattice of element trees (shapes x tags x attribute sets x values x reference '
                'styles x layouts) serialised by an independent writer and parsed by the real XmlElement::Factory, compared node by node '
                'and lookup by lookup with a reference tree; exhaustive enumeration of short byte strings and of all prefixes / '
                'single-byte substitutions of seed documents under ASan+UBSan',
      design_ref='DESIGN.md §3 C32',
      text='trees: (A) every ordered tree shape with up to N nodes (N=5 quick, 7 thorough: includes the depth-6 chain and the width-6 star) '
           'with every assignment of the tags {a, b, a:b}, two layouts (compact; declaration + comments + newlines + single quotes + text '
           'after children + docpath); (B) every shape x 5 rotations of the attribute sets {none, x, y, x y, y x} x every single slot '
           '(text or one attribute value of one element) x every value of the alphabet {v, empty, "a b", <, >, &, ", \', the literal '
           'text &lt;, the literal text &#65;, ~!@#$%^*()[]{}, x=y, all 95 printable ASCII characters} x 5 styles of writing the markup '
           'characters (named, decimal, hex, decimal with leading zero, upper-case hex with leading zeros) x 2 layouts, all other slots '
           'on a rotating default (thorough also: a depth-6 x width-6 caterpillar, a complete binary tree of depth 6, a complete 6-ary '
           'tree of depth 2); (C) for shapes with <= 3 nodes every combination of attribute set and slot values over a reduced alphabet '
           '({v, empty, &lt;, &, <}: quick 3 values for <= 2 nodes and 2 for 3 nodes; thorough 5 and 3). Every document is parsed by '
           'XmlElement::Factory(istream&, docpath) with XmlElement::noextensions set and compared with the reference: tags, attribute '
           'maps (GetAttr, HasAttr, abegin..aend), text (GetVal), children in order (begin..end, GetChildCnt, GetParent); then find(path) '
           'first/all, find_child and find with an attribute filter are compared with an independent path evaluator, from every element, '
           'for every path that exists below it and for near misses (last component replaced, one more component, trailing or leading '
           'delimiter, leading //, blank padding, upper case, first component dropped). bytes: every string of length <= 6 (quick) / 7 '
           '(thorough) over {< > / a = " space ! - &}, thorough also every string of length 8 that begins with <; every prefix and every '
           'single-byte substitution of the seed documents (kitchen sink incl. declaration, comment, CDATA, entity / decimal / hex / '
           'unknown / out-of-range references and a failing xi:include; nesting at MaxDepth=128 and MaxDepth+1; thorough: a 4 KB document); '
           'the parser must return a tree (walked and deleted), nullptr, or throw XMLError / std::exception, with ASan and UBSan silent; '
           'for strings of length <= 4 and every seed prefix the parse is repeated with the dead stack pre-filled with four different '
           'bytes and the result (tree dump, line count or exception text) must not change.',
      level_note='Exhaustive over the stated lattice only. Values are single alphabet entries, not all strings; in families A and B all slots '
                 'but one follow the rotating default rule (stated in harness/c32_xml.cpp); the full product is taken only for <= 3 nodes '
                 'over the reduced alphabet. Text is never given leading/trailing blanks or line breaks (the parser keeps blanks and drops '
                 'line breaks; the property does not say). Byte strings: 10-symbol alphabet up to the stated length plus one-byte '
                 'neighbourhoods of 3-4 seeds, not all strings up to 4 KB. Reads of uninitialised memory are invisible to ASan/UBSan; the stack-fill '
                 'differential only sees those that change the result. '
                 'Trusted: the harness writer, the reference tree, the reference path evaluator (components must equal the tags from the '
                 'base element down; result in document order).',
      rule='trees: case = (family, coordinates) -> one document; non-trivial = the tree has >= 2 elements or the document contains at least '
           'one character/entity reference, counted once per distinct document text within a shard. bytes: case = one input string; '
           'non-trivial = it contains "<" (the parser leaves its initial state).',
      assumptions=['XmlElement::noextensions is set: ${ENV} / !{shell} expansion and /* */ attribute comments are off (documented switch)',
                   'ASan quarantine reduced to 16 MB per shard (page-fault cost); use-after-free is still caught within thousands of cases',
                   'text without leading/trailing whitespace and without line breaks; attribute names x, y; tags a, b, a:b',
                   'leaks are outside the property (a throwing constructor leaks the partial tree by construction)'],
      parts=[dict(name='trees', harness='c32_xml', variant='san', crash_clause='returns-same-tree',
                  quick=dict(args=['part=trees', 'maxn=5', 'big=0', 'ralpha=3', 'ralpha3=2'], deadline=100),
                  thorough=dict(args=['part=trees', 'maxn=7', 'big=1', 'ralpha=5', 'ralpha3=3'], deadline=840)),
             dict(name='bytes', harness='c32_xml', variant='san', crash_clause='memory-safe-and-total',
                  quick=dict(args=['part=bytes', 'maxlen=6', 'seeds=3', 'subst=0'], deadline=100),
                  thorough=dict(args=['part=bytes', 'maxlen=7', 'ltlen=8', 'seeds=4', 'subst=1'], deadline=840))])
