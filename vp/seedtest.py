#!/usr/bin/env python3
"""seedtest.py <alt tree dir> <mutant dir> <check id> [<check id> ...] [--tier quick|thorough]
   Runs registered checks against a seeded property-breaking change without touching /repo: the change is applied to a
   scratch copy of the tree (git archive of /repo HEAD + the configure-generated f8config.h), the checks run with
   VERIF_REPO=<copy> (their own build directory build/alt-*), and the change is taken out again.  The copy is reused
   (incremental rebuilds).  Result: <mutant dir>/detect.json  {check: {exit, violations:[...], tail}}."""
import os, sys, subprocess, json, time
VERIF = os.path.dirname(os.path.dirname(os.path.abspath(__file__)))


def sh(cmd, **kw):
    return subprocess.run(cmd, shell=True, stdout=subprocess.PIPE, stderr=subprocess.STDOUT, text=True, **kw)


def main():
    a = sys.argv[1:]
    tier = 'quick'
    if '--tier' in a:
        i = a.index('--tier'); tier = a[i + 1]; del a[i:i + 2]
    alt, mut, ids = os.path.abspath(a[0]), os.path.abspath(a[1]), a[2:]
    r = sh("/verif/vp/sync_alt.sh %s" % alt)   # bring the copy up to /repo's working tree (unchanged files keep their timestamps)
    if r.returncode:
        print(r.stdout); return 2
    patch = os.path.join(mut, 'patch.diff')
    r = sh('patch -p1 --dry-run < %s' % patch, cwd=alt)
    if r.returncode:
        print('patch does not apply to the scratch copy:\n' + r.stdout); return 2
    sh('patch -p1 < %s' % patch, cwd=alt)
    res = {}
    dj = os.path.join(mut, 'detect.json')
    if os.path.exists(dj):
        try:
            res = json.load(open(dj))
        except Exception:
            res = {}
    try:
        for pid in ids:
            env = dict(os.environ, VERIF_REPO=alt, VERIF_SEED='1', VERIF_TIER=tier)
            t0 = time.time()
            p = subprocess.run(['python3', os.path.join(VERIF, 'vp', 'check.py'), pid, tier], stdout=subprocess.PIPE, stderr=subprocess.STDOUT, text=True, env=env, cwd=VERIF)
            lines = p.stdout.splitlines()
            res[pid + ':' + tier] = {'exit': p.returncode, 'violations': [l for l in lines if l.startswith('VIOLATION')][:5],
                        'first_detail': [l.strip() for l in lines if l.startswith('   clause=') or l.startswith('   observed=')][:4],
                        'summary': [l for l in lines if l.startswith(pid + ' ' + tier)], 'wall_s': round(time.time() - t0, 1),
                        'detected': p.returncode == 1 and any(l.startswith('VIOLATION property=' + pid) for l in lines)}
            print('%s %s %s: exit %d detected=%s (%.0fs)' % (os.path.basename(mut), pid, tier, p.returncode, res[pid + ':' + tier]['detected'], time.time() - t0))
            if p.returncode == 2:
                print('\n'.join(lines[-15:]))
    finally:
        r = sh('patch -R -p1 < %s' % patch, cwd=alt)
        if r.returncode:
            print('WARNING: could not take the change out again:\n' + r.stdout)
        json.dump(res, open(dj, 'w'), indent=1)
    return 0


if __name__ == '__main__':
    sys.exit(main())
