#!/bin/bash
# confirm_mutant.sh <mutant dir (patch.diff, run_demo.sh, ...)> <scratch worktree of /repo, already configured and built>
# Re-confirms independently of the author: the change applies, the tree still builds, the repository's own suite passes
# (4 test programs), the demonstration fails with the change and passes without it.  Writes <mutant dir>/confirm.log.
M=$(realpath "$1"); W=$(realpath "$2"); L="$M/confirm.log"
build() { make -C "$W/runtime" -j8 >/dev/null 2>"$M/.build.err" && make -C "$W/compiler" -j8 >/dev/null 2>>"$M/.build.err"; }
suite() { make -C "$W/utests" -j8 check 2>&1 | grep -E '^# (TOTAL|PASS|FAIL|ERROR)' | tr '\n' ' '; }
{
echo "== $(date -u +%FT%TZ) mutant $(basename "$M") in $W"
cd "$W" && git checkout -- . && git status --short | grep -v '^??' | head -3
if ! git apply --check "$M/patch.diff"; then echo "RESULT: patch does not apply"; exit 1; fi
git apply "$M/patch.diff"; echo "files: $(git diff --stat | tail -1)"
if ! build; then echo "RESULT: does not build with the change"; tail -5 "$M/.build.err"; git checkout -- .; build; exit 1; fi
S1=$(suite); echo "suite with change: $S1"
( cd "$M" && timeout 900 bash ./run_demo.sh "$W" > "$M/.demo_mut.out" 2>&1 ); D1=$?; echo "demo with change: exit $D1 :: $(tail -2 "$M/.demo_mut.out" | tr '\n' ' ' | cut -c1-300)"
cd "$W" && git checkout -- . && build
S0=$(suite); echo "suite without change: $S0"
( cd "$M" && timeout 900 bash ./run_demo.sh "$W" > "$M/.demo_clean.out" 2>&1 ); D0=$?; echo "demo without change: exit $D0 :: $(tail -2 "$M/.demo_clean.out" | tr '\n' ' ' | cut -c1-300)"
OK=1; echo "$S1" | grep -q 'PASS:  4' || OK=0; echo "$S1" | grep -q 'FAIL:  0' || OK=0; [ $D1 -ne 0 ] || OK=0; [ $D0 -eq 0 ] || OK=0
[ $OK = 1 ] && echo "RESULT: confirmed" || echo "RESULT: NOT confirmed"
} > "$L" 2>&1
tail -1 "$L"
