#!/usr/bin/env python3
"""Entry point of every check:   python3 vp/check.py <ID> quick|thorough      (exit 0 held / 1 VIOLATION / 2 no verdict)
                                 python3 vp/check.py <ID> --replay <file>     (one case, no explorer)
                                 python3 vp/check.py --setup                  (build every variant once)
   The harness binaries do the enumeration over the real fix8 code; this driver builds them from the current
   working tree, shards them over the cores, attributes sanitizer aborts / signals / hangs to single cases,
   classifies violations against known_findings.txt and writes evidence/<ID>.json."""
import os, sys, json, time, subprocess, fnmatch, tempfile, shutil, re, signal, collections

VERIF = os.path.dirname(os.path.dirname(os.path.abspath(__file__)))
sys.path.insert(0, os.path.join(VERIF, 'vp'))
import build
from registry import CHECKS

NCPU = os.cpu_count() or 4
SEED = int(os.environ.get('VERIF_SEED', '0') or 0)


def load_findings():
    out = []
    p = os.path.join(VERIF, 'known_findings.txt')
    if os.path.exists(p):
        for l in open(p):
            l = l.strip()
            if l.startswith('{'):
                out.append(json.loads(l))
    return out


def match_finding(pid, v, findings):
    """A violation is attributed to a finding only if clause, scope and mode all match."""
    for f in findings:
        if f.get('kind') != 'finding' or f.get('property') != pid:
            continue
        if f.get('clause') != v.get('clause'):
            continue
        if not fnmatch.fnmatchcase(v.get('mode', ''), f.get('mode', '')):
            continue
        scopes = f['scope'] if isinstance(f['scope'], list) else [f['scope']]
        if all(s in v.get('tags', []) for s in scopes):
            return f
    return None


SAN_RE = re.compile(r'(ERROR: AddressSanitizer: ([\w-]+)|runtime error: ([^\n]+)|ERROR: ThreadSanitizer: ([\w -]+)|WARNING: ThreadSanitizer: ([\w -]+))')
FRAME_RE = re.compile(r'#\d+ 0x[0-9a-f]+ in ([^\n]+?) (/[^\s:]+)(?::(\d+))?')


def crash_mode(stderr, rc):
    """normalised description of how a harness process died"""
    m = SAN_RE.search(stderr)
    kind = None
    if m:
        kind = 'asan:' + m.group(2) if m.group(2) else ('ubsan:' + re.sub(r'\d+', 'N', m.group(3))[:60] if m.group(3) else 'tsan:' + (m.group(4) or m.group(5)).strip())
    where = ''
    for fm in FRAME_RE.finditer(stderr):
        fn, path = fm.group(1), fm.group(2)
        if '/verif/' in path and '/build/' not in path:
            continue
        if 'fix8' in path or '/runtime/' in path or '/compiler/' in path or '/gen/' in path:
            where = re.sub(r'\(.*', '', fn).strip()
            break
    if kind is None:
        if rc < 0:
            try:
                kind = 'signal:' + signal.Signals(-rc).name
            except Exception:
                kind = 'signal:%d' % -rc
        else:
            kind = 'exit:%d' % rc
    return kind + (' in ' + where if where else '')


def read_cur(path):
    try:
        data = open(path, 'rb').read()
        nl = data.index(b'\n')
        idn, m, n = data[:nl].split()
        tags = data[nl + 1:nl + 1 + int(m)].decode('latin-1')
        rep = data[nl + 1 + int(m):nl + 1 + int(m) + int(n)].decode('latin-1')
        return int(idn), [t for t in tags.split(',') if t], rep
    except Exception:
        return None, [], ''


class Shard:
    def __init__(self, part, k, n, exe, args, deadline, tmp, env):
        self.part, self.k, self.n, self.exe, self.args, self.deadline, self.tmp, self.env = part, k, n, exe, args, deadline, tmp, env
        self.cur = os.path.join(tmp, 'cur.%s.%d' % (part['name'], k))
        self.records = []
        self.restarts = 0
        self.frm = None
        self.done = False
        self.proc = None
        self.hang_s = part.get('hang_s', 180)    # wall-clock watchdog on one case; generous so that a loaded machine is not mistaken for a hang
        self.inproc = bool(part.get('inproc'))      # schedule search without a process per execution (engines/sched/explore.hpp)
        self.forkfrom = None

    def start(self):
        a = [self.exe] + self.args + ['shard=%d/%d' % (self.k, self.n), 'cur=' + self.cur]
        if self.deadline:
            a.append('deadline=%d' % int(self.deadline))
        if self.frm is not None:
            a.append('from=%d' % self.frm)
        if self.inproc:
            a.append('inproc=1')
            if self.forkfrom is not None:
                a.append('forkfrom=%d' % self.forkfrom)
        self.out = open(os.path.join(self.tmp, 'out.%s.%d.%d' % (self.part['name'], self.k, self.restarts)), 'w+')
        self.err = open(os.path.join(self.tmp, 'err.%s.%d.%d' % (self.part['name'], self.k, self.restarts)), 'w+')
        self.proc = subprocess.Popen(a, stdout=self.out, stderr=self.err, env=self.env, cwd=self.tmp)
        self.last_cur = None
        self.last_change = time.time()

    def poll(self):
        """returns True when this shard is finished (possibly after restarts)"""
        rc = self.proc.poll()
        hung = False
        if rc is None:
            try:
                c = open(self.cur, 'rb').read(256)
            except Exception:
                c = None
            if c != self.last_cur:
                self.last_cur, self.last_change = c, time.time()
                return False
            elif time.time() - self.last_change > self.hang_s:
                self.proc.kill()
                self.proc.wait()
                rc = self.proc.returncode
                hung = True
            else:
                return False
        self.out.seek(0)
        got_stat = False
        for l in self.out:
            l = l.strip()
            if not l.startswith('{'):
                continue
            try:
                r = json.loads(l)
            except Exception:
                continue
            r['_part'] = self.part['name']
            self.records.append(r)
            if r.get('t') == 'stat':
                got_stat = True
        self.err.seek(0)
        err = self.err.read()
        self.out.close()
        self.err.close()
        if got_stat and rc in (0, 1) and not hung:
            self.done = True
            return True
        idn, tags, rep = read_cur(self.cur)
        if self.inproc and self.forkfrom is None:
            # an in-process execution did not return: nothing of this run counts; run the shard again, the executions
            # before that one in process, that one and all later ones in forked children where their ending is judged
            self.records = []
            self.forkfrom = 0 if (idn is None or rc == 5) else idn
            self.restarts += 1
            self.start()
            return False
        # died in the middle of a case: attribute, then resume after it
        mode = 'hang:>%ds' % self.hang_s if hung else crash_mode(err, rc)
        self.records.append({'t': 'viol', '_part': self.part['name'], 'clause': self.part.get('crash_clause', 'memory-safe-and-total'),
                             'mode': mode, 'tags': tags, 'case': rep, 'observed': mode, 'expected': 'returns or throws a library exception',
                             'desc': err[-1500:], '_crash': True})
        self.records.append({'t': 'stat', '_part': self.part['name'], 'evaluations': 0, 'nontrivial': 0, 'violations': 1, 'done': True,
                             'outcomes': {'crash': 1}, 'counters': {}, '_partial': True})
        self.restarts += 1
        if idn is None or self.inproc or self.restarts > self.part.get('max_restarts', 400):
            self.records.append({'t': 'stat', '_part': self.part['name'], 'evaluations': 0, 'nontrivial': 0, 'violations': 0, 'done': False, 'outcomes': {}, 'counters': {}})
            self.done = True
            return True
        self.frm = idn + 1
        self.start()
        return False


def run_part(pid, part, tier, tmp, t_end):
    cfg = part[tier] if tier in part else part['quick']
    variant = part.get('variant', 'san')
    exe = build.binpath(variant, part['harness'])
    n = cfg.get('shards', NCPU)
    env = dict(os.environ)
    env.setdefault('ASAN_OPTIONS', 'detect_leaks=0:halt_on_error=1:abort_on_error=0:detect_stack_use_after_return=0:quarantine_size_mb=16')
    env.setdefault('UBSAN_OPTIONS', 'print_stacktrace=1:halt_on_error=1')
    env.setdefault('TSAN_OPTIONS', 'halt_on_error=0:exitcode=0:report_signal_unsafe=0')   # reports are counted by the harness (__tsan_on_report)
    env['TZ'] = 'UTC'
    env['VERIF_REPO'] = build.REPO
    env['VERIF_DIR'] = VERIF
    env['VERIF_BUILD'] = os.path.join(VERIF, build.bdir())
    deadline = min(t_end, time.time() + cfg.get('deadline', 90))
    args = list(cfg.get('args', [])) + ['tier=' + tier]
    order = list(range(n))
    if SEED:
        order = order[SEED % n:] + order[:SEED % n]
    pending = [Shard(part, k, n, exe, args, deadline, tmp, env) for k in order]
    running, finished = [], []
    while pending or running:
        while pending and len(running) < NCPU:
            s = pending.pop(0)
            s.start()
            running.append(s)
        time.sleep(0.05)
        for s in list(running):
            if s.poll():
                running.remove(s)
                finished.append(s)
    recs = []
    for s in finished:
        recs.extend(s.records)
    return recs


def run_check(pid, tier):
    chk = CHECKS[pid]
    t0 = time.time()
    targets = []
    for part in chk['parts']:
        if part.get('kind', 'harness') == 'harness':
            targets.append((part.get('variant', 'san'), part['harness']))
        targets.extend(part.get('extra_targets', []))
    try:
        build_s = build.ensure(targets)
    except build.BuildError as e:
        bfv = chk.get('build_failure_is_violation')
        if bfv and re.search(bfv['pattern'], str(e)):
            # the property covers this build step itself (the schema compiler must succeed and its output must compile)
            v = {'t': 'viol', '_part': chk['parts'][0]['name'], 'clause': bfv['clause'], 'mode': bfv['mode'], 'tags': ['stock-schema'], 'case': 'build',
                 'observed': str(e)[-1500:], 'expected': 'f8c exits 0 and the code it generates for the stock schemas compiles', 'desc': ''}
            return conclude(pid, chk, tier, [v, {'t': 'stat', '_part': chk['parts'][0]['name'], 'evaluations': 1, 'nontrivial': 1, 'violations': 1, 'done': True, 'outcomes': {'build-of-generated-code-failed': 1}, 'counters': {}}], time.time() - t0, 0.0)
        print('BUILD FAILED for %s (no verdict):\n%s' % (pid, str(e)[-2500:]))
        return 2
    budget = chk.get('budget', {}).get(tier, 110 if tier == 'quick' else 900)
    t_end = time.time() + budget
    tmp = tempfile.mkdtemp(prefix='vp-%s-' % pid, dir=os.path.join(VERIF, 'build'))
    recs = []
    try:
        for part in chk['parts']:
            if tier not in part and part.get('thorough_only'):
                continue
            if part.get('kind') == 'python':
                recs.extend(part['fn'](pid, part, tier, tmp, t_end))
            else:
                recs.extend(run_part(pid, part, tier, tmp, t_end))
    finally:
        shutil.rmtree(tmp, ignore_errors=True)
    return conclude(pid, chk, tier, recs, time.time() - t0, build_s)


def conclude(pid, chk, tier, recs, wall, build_s):
    findings = load_findings()
    ev = collections.Counter()
    outcomes = collections.Counter()
    counters = collections.Counter()
    states = collections.defaultdict(set)
    samples, viols = [], []
    all_done = True
    extra = {}
    for r in recs:
        t = r.get('t')
        if t == 'stat':
            ev['evaluations'] += r.get('evaluations', 0)
            ev['nontrivial'] += r.get('nontrivial', 0)
            ev['transitions'] += r.get('transitions', 0)
            ev['traces'] += r.get('traces', r.get('evaluations', 0))
            if not r.get('done', False):
                all_done = False
            for k, v in r.get('outcomes', {}).items():
                outcomes[r['_part'] + ':' + k] += v
            for k, v in r.get('counters', {}).items():
                if not k.startswith('violclass:'):
                    counters[r['_part'] + ':' + k] += v
            for k, v in r.get('extra', {}).items():
                extra[r['_part'] + ':' + k] = v
        elif t == 'states':
            states[r['_part']].update(r['h'])
        elif t == 'sample':
            if len([s for s in samples if s.get('part') == r['_part']]) < 3:
                samples.append({'part': r['_part'], 'case': r.get('case'), 'desc': r.get('desc')})
        elif t == 'viol':
            viols.append(r)
    nstates = sum(len(s) for s in states.values())
    if not nstates:     # harnesses that count states themselves (too many to ship as hashes)
        nstates = sum(v for k, v in counters.items() if k.endswith(':states'))
    # classify
    known_hit = collections.OrderedDict()
    unknown = collections.OrderedDict()
    for v in viols:
        f = match_finding(pid, v, findings)
        if f:
            known_hit.setdefault(f['id'], [f, 0])[1] += 1
        else:
            key = (v.get('clause'), v.get('mode'), tuple(v.get('tags', [])))
            unknown.setdefault(key, []).append(v)
    rdir = os.path.join(VERIF, 'build', 'replays') if os.path.realpath(build.REPO) == '/repo' else os.path.join(VERIF, build.bdir(), 'replays')
    os.makedirs(rdir, exist_ok=True)
    for fid, (f, cnt) in known_hit.items():
        print('KNOWN-FINDING: property=%s %s [%s; %d reported case(s) this run]' % (pid, f['text'], fid, cnt))
    nviol = 0
    for i, (key, vs) in enumerate(unknown.items()):
        v = vs[0]
        part = next(p for p in chk['parts'] if p['name'] == v['_part'])
        cfg = part.get(tier, part.get('quick', {}))
        rp = os.path.join(rdir, '%s-%s-%d.json' % (pid, tier, i))
        json.dump({'property': pid, 'part': v['_part'], 'harness': part.get('harness'), 'variant': part.get('variant', 'san'),
                   'args': cfg.get('args', []), 'case': v.get('case'), 'clause': v.get('clause'), 'mode': v.get('mode'),
                   'tags': v.get('tags'), 'observed': v.get('observed'), 'expected': v.get('expected'), 'desc': v.get('desc')},
                  open(rp, 'w'), indent=1)
        nviol += 1
        if i < 12:
            print('VIOLATION property=%s replay=%s' % (pid, rp))
            print('   clause=%s mode=%s tags=%s\n   case=%s\n   observed=%s\n   expected=%s' % (
                v.get('clause'), v.get('mode'), ','.join(v.get('tags', [])), str(v.get('case'))[:300],
                str(v.get('observed'))[:300], str(v.get('expected'))[:300]))
    level = chk['level']
    cov = {
        'evaluations': ev['evaluations'], 'distinct_nontrivial': ev['nontrivial'],
        'rule': chk.get('rule', ''), 'samples': samples or [{'note': 'no sample emitted'}],
        'exhaustive': bool(all_done), 'outcomes': dict(outcomes), 'counters': dict(counters),
        'bounds': {p['name']: p.get(tier, p.get('quick', {})).get('args', []) for p in chk['parts'] if tier in p or not p.get('thorough_only')},
        'known_findings_matched': {k: c for k, (f, c) in known_hit.items()},
        'violation_classes': [{'clause': k[0], 'mode': k[1], 'tags': list(k[2]), 'count': len(v)} for k, v in unknown.items()],
    }
    cov.update(extra)
    if level == 'model_checking':
        cov['states'] = nstates if nstates else ev['evaluations']
        cov['transitions'] = ev['transitions'] if ev['transitions'] else ev['evaluations']
        cov['traces_validated_against_impl'] = ev['traces']
        cov['states_per_part'] = {k: len(v) for k, v in states.items()}
    if level == 'translation_validation':
        cov['programs'] = sum(v for k, v in counters.items() if k.endswith(':programs'))
        cov['disagreements_checked'] = sum(v for k, v in counters.items() if k.endswith(':disagreements_checked')) or ev['evaluations']
    evd = {'property_id': pid, 'tier': tier, 'seed': SEED, 'level': level, 'coverage': cov,
           'assumptions': chk.get('assumptions', []), 'wall_s': round(wall, 2), 'violations': nviol,
           'build_s': round(build_s, 2), 'repo': build.REPO}
    # evidence/ holds what the checks found on /repo itself; runs against another tree (VERIF_REPO=..., mutant testing) must not overwrite it
    evdir = os.path.join(VERIF, 'evidence') if os.path.realpath(build.REPO) == '/repo' else os.path.join(VERIF, build.bdir(), 'evidence')
    os.makedirs(evdir, exist_ok=True)
    json.dump(evd, open(os.path.join(evdir, pid + '.json'), 'w'), indent=1)
    print('%s %s: evaluations=%d distinct_nontrivial=%d states=%d exhaustive=%s violations=%d known=%d wall=%.1fs (build %.1fs)' % (
        pid, tier, ev['evaluations'], ev['nontrivial'], nstates, all_done, nviol, len(known_hit), wall, build_s))
    if outcomes:
        print('   outcomes: ' + ', '.join('%s=%d' % kv for kv in sorted(outcomes.items())))
    return 1 if nviol else 0


def replay(pid, path):
    r = json.load(open(path))
    chk = CHECKS[pid]
    part = next(p for p in chk['parts'] if p['name'] == r['part'])
    if r.get('case') == 'build':     # the violation was a failing build of the generated code: build again
        targets = []
        for p in chk['parts']:
            if p.get('kind', 'harness') == 'harness':
                targets.append((p.get('variant', 'san'), p['harness']))
            targets.extend(p.get('extra_targets', []))
        try:
            build.ensure(targets)
            print('replay verdict: no violation (the generated code builds)')
            return 0
        except build.BuildError as e:
            print(str(e)[-2500:]); print('replay verdict: VIOLATION reproduced (the generated code does not build)')
            return 1
    if part.get('kind') == 'python':
        return part['replay'](pid, part, r)
    try:
        build.ensure([(r['variant'], r['harness'])])
    except build.BuildError as e:
        print('BUILD FAILED:\n' + str(e))
        return 2
    env = dict(os.environ)
    env.setdefault('ASAN_OPTIONS', 'detect_leaks=0:halt_on_error=1:quarantine_size_mb=16')
    env.setdefault('UBSAN_OPTIONS', 'print_stacktrace=1:halt_on_error=1')
    env.setdefault('TSAN_OPTIONS', 'halt_on_error=0:exitcode=0:report_signal_unsafe=0')   # reports are counted by the harness (__tsan_on_report)
    env['TZ'] = 'UTC'
    env['VERIF_REPO'] = build.REPO
    env['VERIF_DIR'] = VERIF
    env['VERIF_BUILD'] = os.path.join(VERIF, build.bdir())
    tmp = tempfile.mkdtemp(prefix='vp-replay-', dir=os.path.join(VERIF, 'build'))
    try:
        a = [build.binpath(r['variant'], r['harness'])] + list(r['args']) + ['case=' + r['case'], 'verbose=1']
        outs = []
        for i in range(2):      # replay twice: same observations or the check itself is broken
            p = subprocess.run(a, stdout=subprocess.PIPE, stderr=subprocess.PIPE, text=True, env=env, cwd=tmp, timeout=120)
            outs.append((p.returncode, [l for l in p.stdout.splitlines() if '"t":"viol"' in l.replace(' ', '')], p.stderr))
        rc, vl, err = outs[0]
        print('replay of %s (%s) recorded: clause=%s mode=%s' % (path, r['harness'], r.get('clause'), r.get('mode')))
        sys.stdout.write(err[-3000:])
        for l in vl:
            v = json.loads(l)
            print('observed=%s\nexpected=%s\nclause=%s mode=%s' % (v['observed'], v['expected'], v['clause'], v['mode']))
        if (outs[0][0], outs[0][1]) != (outs[1][0], outs[1][1]):
            print('NONDETERMINISTIC REPLAY: two runs of the same case differ (check is broken, no verdict)')
            return 2
        bad = bool(vl) or rc not in (0,)
        print('replay verdict: %s' % ('VIOLATION reproduced' if bad else 'no violation'))
        return 1 if bad else 0
    finally:
        shutil.rmtree(tmp, ignore_errors=True)


def setup():
    targets = set()
    for pid, chk in CHECKS.items():
        for part in chk['parts']:
            if part.get('kind', 'harness') == 'harness':
                targets.add((part.get('variant', 'san'), part['harness']))
            for t in part.get('extra_targets', []):
                targets.add(t)
    t = build.ensure(sorted(targets, key=str), quiet=True)
    print('setup: built %d targets in %.1fs' % (len(targets), t))
    return 0


def main():
    a = sys.argv[1:]
    if not a:
        print(__doc__)
        return 2
    if a[0] == '--setup':
        try:
            return setup()
        except build.BuildError as e:
            print('BUILD FAILED:\n' + str(e))
            return 2
    pid = a[0]
    if pid not in CHECKS:
        print('unknown check ' + pid)
        return 2
    if len(a) >= 3 and a[1] == '--replay':
        return replay(pid, a[2])
    tier = a[1] if len(a) > 1 else os.environ.get('VERIF_TIER', 'quick')
    return run_check(pid, tier)


if __name__ == '__main__':
    sys.exit(main())
