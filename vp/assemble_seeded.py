#!/usr/bin/env python3
"""assemble_seeded.py <delivery dir> : copies every confirmed seeded change (patch.diff, demonstration, meta.json) into
   /verif/seeded/<name>/ and merges what was run by this session into meta.json (confirmation log, detection results)."""
import os, sys, json, shutil, glob
SRC = sys.argv[1] if len(sys.argv) > 1 else '/tmp/fx/out'
DST = '/verif/seeded'
os.makedirs(DST, exist_ok=True)
n = 0
for d in sorted(glob.glob(os.path.join(SRC, '*/'))):
    name = os.path.basename(d.rstrip('/'))
    cl = os.path.join(d, 'confirm.log')
    if not os.path.exists(os.path.join(d, 'patch.diff')) or not os.path.exists(cl):
        continue
    log = open(cl, errors='replace').read()
    if 'RESULT: confirmed' not in log:
        continue
    out = os.path.join(DST, name)
    os.makedirs(out, exist_ok=True)
    for f in os.listdir(d):
        p = os.path.join(d, f)
        if not os.path.isfile(p) or f.startswith('.') or f in ('confirm.log', 'detect.json', 'meta.json'):
            continue
        if os.path.getsize(p) > 300000 or os.access(p, os.X_OK) and not f.endswith('.sh'):
            continue
        if f.endswith(('.diff', '.sh', '.cpp', '.hpp', '.h', '.xml', '.txt', '.md', '.py')) or f.startswith('confirm'):
            shutil.copy2(p, os.path.join(out, f))
    try:
        meta = json.load(open(os.path.join(d, 'meta.json')))
    except Exception:
        meta = {}
    meta['confirmed_by_main_session'] = [l for l in log.splitlines() if l.strip()]
    try:
        det = json.load(open(os.path.join(d, 'detect.json')))
    except Exception:
        det = {}
    meta['checks_run_against_it'] = {k: {'detected': v.get('detected'), 'exit': v.get('exit'), 'violation': (v.get('first_detail') or [''])[0][:300], 'summary': (v.get('summary') or [''])[0][:300]} for k, v in det.items()}
    try:
        er = json.load(open(os.path.join(d, 'detect.earlier-runs.json')))
        meta['earlier_runs'] = {k: {'detected': v.get('detected'), 'violation': (v.get('first_detail') or [''])[0][:200], 'summary': (v.get('summary') or [''])[0][:200]} for k, v in er.items()}
    except Exception:
        pass
    meta['how_run'] = 'confirmation: vp/confirm_mutant.sh <dir> <scratch worktree> (apply, rebuild, repository suite, demo; revert, rebuild, suite, demo); detection: vp/seedtest.py <scratch copy> <dir> <check ids> (change applied to a scratch copy of the tree, checks run with VERIF_REPO=<copy>, change taken out again)'
    json.dump(meta, open(os.path.join(out, 'meta.json'), 'w'), indent=1)
    n += 1
print('%d seeded changes assembled in %s' % (n, DST))
