"""Pipeline shared by C13 and C14: one schema *program* ->  independent model + scope annotations  ->  the freshly built
   f8c (must exit 0 and write its files)  ->  g++ on its output (one TU including the three generated .cpp, -O0 ASan)
   ->  link with harness/schemagen_harness.o and the runtime of the current tree  ->  run the judge.
   Returns the same JSON records the harness binaries print (t = viol / stat / sample), with the schema id in front of
   every replay string:  "<schema id>|<case of schemagen_harness>"  or  "<schema id>|build:<stage>".
   Everything is written below the directory handed in by check.py (under /verif/build, removed after the run)."""
import os, sys, re, json, time, subprocess, shutil, signal, hashlib, fcntl, threading, concurrent.futures, xml.etree.ElementTree as ET

VERIF = os.path.dirname(os.path.dirname(os.path.abspath(__file__)))
sys.path.insert(0, os.path.join(VERIF, 'vp'))
import build
import schema_model

NCPU = os.cpu_count() or 4
LIBS = ['-lPocoFoundation', '-lPocoNet', '-lPocoUtil', '-lz', '-lpthread', '-ldl']
FLAGS_SAN = ['-O1', '-fsanitize=address,undefined', '-fno-sanitize=alignment,vptr', '-fno-sanitize-recover=undefined']
GENFLAGS = ['-O0', '-g0', '-w', '-pthread', '-fno-omit-frame-pointer', '-fsanitize=address']
TARGETS = ['f8c/f8c', 'san/librt.a', 'san/h/schemagen_harness.o']      # make targets relative to the build dir


def bpath(*p):
    return os.path.join(VERIF, build.bdir(), *p)


def inc_flags():
    repo = build.REPO
    inc = ['-I' + os.path.join(repo, 'include'), '-I' + os.path.join(repo, 'include', 'fix8'), '-I' + os.path.join(repo, 'runtime')]
    if not os.path.exists(os.path.join(repo, 'include', 'fix8', 'f8config.h')):
        inc.append('-I' + os.path.join(VERIF, 'support', 'cfginc'))
    return inc


PCH_TEXT = '\n'.join('#include <%s>' % h for h in (
    'iostream', 'fstream', 'iomanip', 'sstream', 'vector', 'map', 'list', 'set', 'iterator', 'algorithm', 'cerrno', 'string.h',
    'fix8/f8config.h', 'fix8/f8exception.hpp', 'fix8/hypersleep.hpp', 'fix8/mpmc.hpp', 'fix8/thread.hpp', 'fix8/f8types.hpp', 'fix8/f8utils.hpp',
    'fix8/tickval.hpp', 'fix8/logger.hpp', 'fix8/traits.hpp', 'fix8/field.hpp', 'fix8/message.hpp')) + '\n'
_pch_lock = threading.Lock()
_pch_path = [None]


def pch():
    """Precompiled header of exactly the includes every generated .cpp starts with (f8cutils.cpp generate_includes), built
       with the flags of the generated code.  Cached under the build directory, keyed on the contents of every header below
       include/fix8, the compiler version and the flags, so a change of the tree always gives a new one.  Returns the path
       to pass with -include, or None if it could not be built (then the headers are parsed each time; same result)."""
    with _pch_lock:
        if _pch_path[0] is not None:
            return _pch_path[0] or None
        h = hashlib.sha1()
        h.update(subprocess.run(['g++', '--version'], stdout=subprocess.PIPE).stdout)
        h.update(' '.join(GENFLAGS + inc_flags()).encode())
        h.update(PCH_TEXT.encode())
        incdirs = [os.path.join(build.REPO, 'include', 'fix8')] + ([os.path.join(VERIF, 'support', 'cfginc')] if len(inc_flags()) > 3 else [])
        for d in incdirs:
            for dp, dn, fn in sorted(os.walk(d)):
                dn.sort()
                for f in sorted(fn):
                    h.update(f.encode())
                    h.update(open(os.path.join(dp, f), 'rb').read())
        key = h.hexdigest()[:16]
        base = bpath('sgpch')
        d = os.path.join(base, key)
        hdr = os.path.join(d, 'sgpch.hpp')
        os.makedirs(d, exist_ok=True)
        lock = open(os.path.join(base, '.lock'), 'w')
        fcntl.flock(lock, fcntl.LOCK_EX)
        try:
            if not os.path.exists(hdr + '.gch'):
                for old in os.listdir(base):
                    if old != key and os.path.isdir(os.path.join(base, old)):
                        shutil.rmtree(os.path.join(base, old), ignore_errors=True)
                open(hdr, 'w').write(PCH_TEXT)
                rc, out = sh(['g++'] + GENFLAGS + inc_flags() + ['-x', 'c++-header', hdr, '-o', hdr + '.tmp'], d, 600)
                if rc == 0:
                    os.rename(hdr + '.tmp', hdr + '.gch')
            _pch_path[0] = hdr if os.path.exists(hdr + '.gch') else ''
        finally:
            fcntl.flock(lock, fcntl.LOCK_UN)
            lock.close()
        return _pch_path[0] or None


def run_env():
    env = dict(os.environ)
    env.setdefault('ASAN_OPTIONS', 'detect_leaks=0:halt_on_error=1:abort_on_error=0:detect_stack_use_after_return=0:quarantine_size_mb=16')
    env.setdefault('UBSAN_OPTIONS', 'print_stacktrace=1:halt_on_error=1')
    env['TZ'] = 'UTC'
    env['VERIF_REPO'] = build.REPO
    env['VERIF_DIR'] = VERIF
    env['VERIF_BUILD'] = os.path.join(VERIF, build.bdir())
    return env


# ------------------------------------------------------------------------------------------------ scope annotations
def annotations(xml_path):
    """Scope tags for members whose 'required' flag f8precomp derives differently from the reference semantics
       (a member is mandatory iff required='Y' on it and on every enclosing component reference; inside a repeating group the
       flags are relative to one element).  The tags name the *situation*, they do not decide anything:
         in_group_below_optional_component              the member belongs to a repeating group that sits (at any distance)
                                                        below a component reference with required='N'
         below_required_component_in_optional_component the member comes from a required component that is nested inside an
                                                        optional component, directly at message level
       lines: 'A <msgtype-hex> <path> <tags>'"""
    root = ET.parse(xml_path).getroot()
    comps = {}
    c = root.find('components')
    if c is not None:
        for x in c.findall('component'):
            comps[x.get('name').strip()] = x
    fnum = {f.get('name').strip(): int(f.get('number').strip()) for f in root.find('fields').findall('field')}
    out = []

    def walk(elem, mt, path, top, ingrp, f8ok, refok, stack):
        # f8ok: what f8precomp hands down as "required context"; refok: the reference semantics' context
        for ch in elem:
            req = (ch.get('required') or 'N').strip().upper().startswith('Y')
            if ch.tag in ('field', 'group'):
                num = fnum.get((ch.get('name') or '').strip())
                if num is None:
                    continue
                p = path + [str(num)]
                tags = []
                if ingrp and not f8ok:
                    tags.append('in_group_below_optional_component')
                if not ingrp and f8ok and not refok:
                    tags.append('below_required_component_in_optional_component')
                if tags:
                    out.append('A %s %s %s' % (schema_model.hx(mt), '/'.join(p), ','.join(tags)))
                if ch.tag == 'group':
                    walk(ch, mt, p, False, True, f8ok, True, stack)     # f8precomp does not reset the context inside a group
            elif ch.tag == 'component':
                name = (ch.get('name') or '').strip()
                if name in stack or name not in comps:
                    continue
                # f8precomp: directly at message level the context is the reference's own flag only (an enclosing optional
                # component is forgotten), elsewhere flag and context
                walk(comps[name], mt, path, top, ingrp, req if top else (req and f8ok), req and refok, stack + (name,))
    for sect in ('header', 'trailer'):
        e = root.find(sect)
        if e is not None:
            walk(e, sect, [], False, False, True, True, ())
    for m in root.find('messages').findall('message'):
        walk(m, m.get('msgtype').strip(), [], True, False, True, True, ())
    return out


# ------------------------------------------------------------------------------------------------ crash attribution
SAN_RE = re.compile(r'(ERROR: AddressSanitizer: ([\w-]+)|runtime error: ([^\n]+))')
FRAME_RE = re.compile(r'#\d+ 0x[0-9a-f]+ in ([^\n]+?) (/[^\s:]+)(?::(\d+))?')


def crash_mode(stderr, rc):
    m = SAN_RE.search(stderr)
    kind = None
    if m:
        kind = 'asan:' + m.group(2) if m.group(2) else 'ubsan:' + re.sub(r'\d+', 'N', m.group(3))[:60]
    where = ''
    for fm in FRAME_RE.finditer(stderr):
        fn, path = fm.group(1), fm.group(2)
        if '/verif/' in path and '/build/' not in path:
            continue
        if 'fix8' in path or '/runtime/' in path or '/compiler/' in path:
            where = re.sub(r'\(.*', '', fn).strip()
            break
    if kind is None:
        if rc is not None and rc < 0:
            try:
                kind = 'signal:' + signal.Signals(-rc).name
            except Exception:
                kind = 'signal:%d' % -rc
        else:
            kind = 'exit:%s' % rc
    return kind + (' in ' + where if where else '')


def read_cur(path):
    try:
        data = open(path, 'rb').read()
        nl = data.index(b'\n')
        idn, m, n = data[:nl].split()
        tags = data[nl + 1:nl + 1 + int(m)].decode('latin-1')
        rep = data[nl + 1 + int(m):nl + 1 + int(m) + int(n)].decode('latin-1')
        return int(idn), [t for t in tags.split(',') if t], rep
    except Exception:
        return None, [], ''


# ------------------------------------------------------------------------------------------------ one schema
def norm_compile_error(text):
    """first compiler error, without file names and line numbers"""
    for l in text.splitlines():
        m = re.search(r'(?:error|undefined reference)[: ]+(.*)', l)
        if m:
            return re.sub(r'\d+', 'N', m.group(1).strip())[:90]
    return 'no error line'


def sh(cmd, cwd, timeout=900, env=None):
    try:
        p = subprocess.run(cmd, cwd=cwd, stdout=subprocess.PIPE, stderr=subprocess.STDOUT, text=True, timeout=timeout, errors='replace', env=env)
        return p.returncode, p.stdout
    except subprocess.TimeoutExpired as e:
        return 124, 'TIMEOUT after %ds\n%s' % (timeout, e.stdout or '')


class Job:
    """sid: schema id; xml: text; types: FIX type names used by the payload fields (scope tags of build failures);
       msg_tags: {msgtype: [tags]} applied to every case of that message; hargs: harness bounds"""

    def __init__(self, sid, xml, part, hargs, types=(), msg_tags=None, desc='', prebuilt=None, model=None, xml_path=None):
        self.sid, self.xml, self.part, self.hargs, self.types = sid, xml, part, list(hargs), sorted(set(types))
        self.msg_tags, self.desc = msg_tags or {}, desc
        self.prebuilt, self.model, self.xml_path = prebuilt, model, xml_path      # stock schemas: objects built by make
        self.records, self.stage, self.log = [], None, ''
        self.f8c_out = ''
        self.classes_hpp = ''
        self.dir = None

    def rec(self, r):
        r['_part'] = self.part
        self.records.append(r)

    def viol(self, clause, mode, tags, case, observed, expected, desc):
        self.rec({'t': 'viol', 'clause': clause, 'mode': mode, 'tags': sorted(set(tags)), 'case': self.sid + '|' + case,
                  'observed': observed, 'expected': expected, 'desc': desc})

    def build_tags(self, text=''):
        """scope of a build failure: the payload field types of the schema whose C++ spelling the message mentions"""
        tg = []
        for t in self.types:
            if re.search(r"\b%s\b" % re.escape(t), text, re.I):
                tg.append('type:' + t)
        return tg

    def prepare(self, root):
        self.dir = os.path.join(root, re.sub(r'[^A-Za-z0-9_.=+-]', '_', self.sid))
        os.makedirs(self.dir, exist_ok=True)
        if self.xml is not None:
            self.xml_path = os.path.join(self.dir, 'schema.xml')
            open(self.xml_path, 'w').write(self.xml)
        if self.model is None:
            self.model = os.path.join(self.dir, 'schema.model')
            with open(self.model, 'w') as o:
                schema_model.Model(self.xml_path).dump(o)
        ann = annotations(self.xml_path)
        mtags = {k: list(v) for k, v in self.msg_tags.items()}
        for l in ann:       # every case of a message that contains an annotated member carries msg_has:<annotation>
            _, mth, _, tg = l.split()
            for t in tg.split(','):
                mt = bytes.fromhex(mth).decode('latin-1')
                if 'msg_has:' + t not in mtags.setdefault(mt, []):
                    mtags[mt].append('msg_has:' + t)
        for mt, tags in sorted(mtags.items()):
            ann.append('M %s %s' % (schema_model.hx(mt), ','.join(tags)))
        open(os.path.join(self.dir, 'ann'), 'w').write('\n'.join(ann) + '\n')

    def stage_f8c(self):
        rc, out = sh([bpath('f8c', 'f8c'), '-p', 'sg', '-n', 'SG', 'schema.xml'], self.dir, 120)
        self.f8c_out = out
        need = ['sg_types.cpp', 'sg_types.hpp', 'sg_traits.cpp', 'sg_classes.cpp', 'sg_classes.hpp', 'sg_router.hpp']
        missing = [f for f in need if not os.path.exists(os.path.join(self.dir, f)) or os.path.getsize(os.path.join(self.dir, f)) == 0]
        try:
            self.classes_hpp = open(os.path.join(self.dir, 'sg_classes.hpp'), errors='replace').read()
        except Exception:
            pass
        if rc != 0:
            self.viol('compiler-succeeds', 'f8c-exit:%d' % rc, self.build_tags(out), 'build:f8c', out[-600:], 'exit 0 and the generated files', self.desc)
            return False
        if missing:
            self.viol('compiler-succeeds', 'f8c-output-missing', self.build_tags(out), 'build:f8c', 'missing: ' + ' '.join(missing) + ' :: ' + out[-400:], 'the generated files', self.desc)
            return False
        if re.search(r'\b(\d+) (error|warning)s?\b', out):
            # f8c reported a problem with a schema of the grammar but exited 0
            self.viol('compiler-succeeds', 'f8c-reports-' + re.search(r'\b\d+ (error|warning)s?\b', out).group(1), self.build_tags(out), 'build:f8c', out[-600:], 'no errors or warnings for a valid schema', self.desc)
        return True

    def stage_compile(self):
        open(os.path.join(self.dir, 'gen.cpp'), 'w').write('#include "sg_types.cpp"\n#include "sg_traits.cpp"\n#include "sg_classes.cpp"\n')
        p = pch()
        rc, out = sh(['g++'] + GENFLAGS + inc_flags() + (['-include', p] if p else []) + ['-I.', '-c', 'gen.cpp', '-o', 'gen.o'], self.dir, 900)
        if rc != 0:
            self.viol('output-compiles', 'compile-error:' + norm_compile_error(out), self.build_tags(out), 'build:compile', out[:900], 'the generated code compiles', self.desc)
            self.log = out
            return False
        return True

    def stage_link(self):
        objs = ['gen.o'] if not self.prebuilt else list(self.prebuilt)
        rc, out = sh(['g++'] + FLAGS_SAN + ['-o', 'sgh', bpath('san', 'h', 'schemagen_harness.o')] + objs + [bpath('san', 'librt.a')] + LIBS, self.dir, 600)
        if rc != 0:
            self.viol('output-compiles', 'link-error:' + norm_compile_error(out), self.build_tags(out), 'build:link', out[:900], 'the generated code links', self.desc)
            self.log = out
            return False
        return True

    def stage_run(self, t_end, single=None, verbose=False):
        cur = os.path.join(self.dir, 'cur')
        frm, restarts = None, 0
        errs = ''
        while True:
            a = [os.path.join(self.dir, 'sgh'), 'model=' + self.model, 'ann=' + os.path.join(self.dir, 'ann')] + self.hargs + ['cur=' + cur]
            if single is not None:
                a += ['case=' + single, 'verbose=1']
            else:
                a.append('deadline=%d' % int(t_end))
            if frm is not None:
                a.append('from=%d' % frm)
            try:
                p = subprocess.run(a, cwd=self.dir, stdout=subprocess.PIPE, stderr=subprocess.PIPE, text=True, errors='replace', env=run_env(),
                                   timeout=max(60, t_end - time.time() + 60))
                rc, out, err = p.returncode, p.stdout, p.stderr
            except subprocess.TimeoutExpired as e:
                rc, out, err = None, (e.stdout or b'').decode('latin-1') if isinstance(e.stdout, bytes) else (e.stdout or ''), 'TIMEOUT'
            errs += err
            got_stat = False
            for l in out.splitlines():
                l = l.strip()
                if not l.startswith('{'):
                    continue
                try:
                    r = json.loads(l)
                except Exception:
                    continue
                if 'case' in r and r.get('t') in ('viol', 'sample'):
                    r['case'] = self.sid + '|' + r['case']
                if r.get('t') == 'sample':
                    r['desc'] = '%s :: %s' % (self.desc, r.get('desc'))
                if r.get('t') == 'stat':
                    got_stat = True
                self.rec(r)
            if got_stat and rc in (0, 1):
                break
            # died inside a case: attribute it, then resume behind it
            idn, tags, rep = read_cur(cur)
            mode = 'hang' if rc is None else crash_mode(err, rc)
            self.rec({'t': 'viol', 'clause': 'memory-safe-and-total', 'mode': mode, 'tags': tags, 'case': self.sid + '|' + rep, 'observed': mode,
                      'expected': 'returns or throws a library exception', 'desc': err[-1500:], '_crash': True})
            self.rec({'t': 'stat', 'evaluations': 0, 'nontrivial': 0, 'violations': 1, 'done': True, 'outcomes': {'crash': 1}, 'counters': {}})
            restarts += 1
            if idn is None or single is not None or restarts > 40:
                self.rec({'t': 'stat', 'evaluations': 0, 'nontrivial': 0, 'violations': 0, 'done': single is not None, 'outcomes': {}, 'counters': {}})
                break
            frm = idn + 1
        self.log = errs
        return True

    def run(self, root, t_end, single=None):
        """whole pipeline; a stat record of its own counts the program and the build stages as evaluations"""
        t0 = time.time()
        ev, outc = 0, {}
        ok = False
        try:
            self.prepare(root)
            if self.prebuilt is not None:
                stages = [('link', self.stage_link)]
            else:
                stages = [('f8c', self.stage_f8c), ('compile', self.stage_compile), ('link', self.stage_link)]
            ok = True
            for name, fn in stages:
                ev += 1
                self.stage = name
                if not fn():
                    ok = False
                    outc['build-failed:' + name] = 1
                    break
            if ok:
                outc['built'] = 1
                if single is None or not single.startswith('build:'):
                    self.stage = 'run'
                    self.stage_run(t_end, single)
        except Exception as e:      # the pipeline itself broke: no verdict for this schema, said loudly
            self.rec({'t': 'viol', 'clause': 'pipeline', 'mode': 'pipeline-exception:' + type(e).__name__, 'tags': [], 'case': self.sid + '|build:pipeline',
                      'observed': repr(e)[:400], 'expected': 'the check runs', 'desc': self.desc})
            ok = False
        # disagreements checked = attribute comparisons of the metadata + lattice messages judged + build stages passed through
        dc = ev + sum(r.get('counters', {}).get('comparisons', 0) + r.get('counters', {}).get('lattice_messages', 0) for r in self.records if r.get('t') == 'stat')
        self.rec({'t': 'stat', 'evaluations': ev, 'nontrivial': 0, 'violations': 0, 'done': True, 'outcomes': outc,
                  'counters': {'programs': 1, 'disagreements_checked': dc, 'build_wall_ms': int((time.time() - t0) * 1000)}})
        return ok


def run_jobs(jobs, root, t_end, workers=NCPU, followup=None):
    """runs the jobs in parallel (in order), stops starting new ones at the deadline; returns (finished jobs, skipped jobs).
       followup(job) may return one more job that is run right behind it by the same worker (it is appended to the finished ones)"""
    os.makedirs(root, exist_ok=True)
    done, skipped = [], []

    def one(j):
        if time.time() > t_end - 20:
            return [(j, False)]
        out = []
        while j is not None:
            j.run(root, t_end)
            if not os.environ.get('VERIF_KEEP'):
                shutil.rmtree(j.dir, ignore_errors=True)
            out.append((j, True))
            j = followup(j) if followup and len(out) == 1 else None
        return out
    with concurrent.futures.ThreadPoolExecutor(max_workers=workers) as ex:
        for res in ex.map(one, jobs):
            for j, ran in res:
                (done if ran else skipped).append(j)
    return done, skipped


def ensure(extra=()):
    build.ensure(list(TARGETS) + list(extra))


def replay_job(job, case):
    """re-runs one case of one schema in a fresh directory, twice; prints what was observed / expected; returns 0/1/2"""
    import tempfile
    verdicts = []
    for i in range(2):
        tmp = tempfile.mkdtemp(prefix='vp-replay-', dir=os.path.join(VERIF, 'build'))
        try:
            j = Job(job.sid, job.xml, job.part, job.hargs, job.types, job.msg_tags, job.desc, job.prebuilt, job.model, job.xml_path)
            j.run(tmp, time.time() + 600, single=case)
            v = [(r['clause'], r['mode'], r.get('observed'), r.get('expected')) for r in j.records if r.get('t') == 'viol' and (case.startswith('build:') or r['case'] == j.sid + '|' + case or r.get('_crash'))]
            verdicts.append(v)
            if i == 0:
                print('schema %s: %s' % (j.sid, j.desc))
                if case.startswith('build:'):
                    print(j.f8c_out[-1500:])
                sys.stdout.write(j.log[-3000:])
                for (c, m, o, e) in v:
                    print('observed=%s\nexpected=%s\nclause=%s mode=%s' % (o, e, c, m))
                if os.environ.get('VERIF_KEEP'):
                    print('files kept in ' + j.dir)
        finally:
            if not os.environ.get('VERIF_KEEP'):
                shutil.rmtree(tmp, ignore_errors=True)
    if verdicts[0] != verdicts[1]:
        print('NONDETERMINISTIC REPLAY: two runs of the same case differ (check is broken, no verdict)')
        return 2
    print('replay verdict: %s' % ('VIOLATION reproduced' if verdicts[0] else 'no violation'))
    return 1 if verdicts[0] else 0
