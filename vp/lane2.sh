#!/bin/bash
# lane.sh <worktree> <alt tree> <mutant dir>...   : confirm each mutant in the worktree, then run the property's quick check against it
W=$1; A=$2; shift 2
for M in "$@"; do
  id=$(basename "$M" | cut -d- -f1)
  /verif/vp/confirm_mutant.sh "$M" "$W"
  if python3 -c "import sys; sys.path.insert(0,'/verif/vp'); from registry import CHECKS; sys.exit(0 if '$id' in CHECKS else 1)"; then
    python3 /verif/vp/seedtest.py "$A" "$M" "$id" 2>&1 | tail -3
  else echo "$(basename $M): no check registered for $id yet"; fi
done
echo LANE-DONE
